// C02 — secured connections and streams deliver bytes intact, in order, once.
//
// (header comment with oracles, weaker readings and the sensitivity record: see the end of the work; filled in below)
package c02

import (
	"context"
	"fmt"
	"net"
	"sort"
	"strings"
	"sync"
	"sync/atomic"
	"testing"
	"time"

	"github.com/libp2p/go-libp2p/core/network"
	"github.com/libp2p/go-libp2p/core/peer"
	"github.com/libp2p/go-libp2p/core/peerstore"
	"github.com/libp2p/go-libp2p/core/protocol"
	"github.com/libp2p/go-libp2p/core/sec"
	"github.com/libp2p/go-libp2p/p2p/net/pnet"
	"github.com/libp2p/go-libp2p/p2p/security/noise"
	libp2ptls "github.com/libp2p/go-libp2p/p2p/security/tls"
	ma "github.com/multiformats/go-multiaddr"

	"verifsim/harness/common"
	"verifsim/simhost"
	"verifsim/simnet"
	"verifsim/simrt"
)

func TestSim(t *testing.T) { common.Main(t, common.Harness{Property: "C02", Run: run}) }

// no progress (no Read/Write returned, nothing delivered on the wire) for this long in virtual time:
// longer than every pause, deadline, keep-alive (30 s + 10 s) and negotiation timeout (10 s) of the scenario
const quietLimit = 3 * time.Minute

type world struct {
	p    *plan
	o    *common.Outcome
	n    *simnet.Net
	mitm *mitm

	gate     chan struct{}
	progress atomic.Int64
	pending  atomic.Int64 // tasks not finished (started or not)
	closing  atomic.Bool  // teardown has begun: handlers must not start new tasks

	rawA, rawB *simnet.Conn
	chans      [][2]*chanState
	sideClosed [][2]atomic.Bool

	// conn layers
	connA, connB net.Conn
	// stream layers
	nodeA, nodeB *simhost.Node
	strA, strB   []network.Stream
	inbound      int

	mu     sync.Mutex // plain mutex, never held across anything that blocks
	probes map[string]int
	hung   bool
	lazy   int
}

func (w *world) layer() string { return layerName[w.p.layer] }

func (w *world) probe(name string) {
	w.mu.Lock()
	w.probes[name]++
	w.mu.Unlock()
}

func (w *world) taskDone() { w.pending.Add(-1) }

var arenas [8][]byte

func (w *world) arena(i int) []byte {
	if arenas[i] == nil {
		arenas[i] = make([]byte, maxArena)
	}
	return arenas[i]
}

func run(t *testing.T, tape *simrt.Tape) *common.Outcome {
	g := simrt.Gen{S: tape.G}
	o := &common.Outcome{}
	p := genPlan(g)
	for _, l := range p.describe() {
		o.Logf("%s", l)
	}
	w := &world{p: p, o: o, probes: map[string]int{}, gate: make(chan struct{})}
	w.chans = make([][2]*chanState, p.nstreams)
	w.sideClosed = make([][2]atomic.Bool, p.nstreams)
	w.strA = make([]network.Stream, p.nstreams)
	w.strB = make([]network.Stream, p.nstreams)
	for s := 0; s < p.nstreams; s++ {
		for d := 0; d < 2; d++ {
			w.chans[s][d] = &chanState{w: w, stream: s, dir: d, id: chanID(s, d), p: &p.ch[s][d], t: tab(s, d, p.ch[s][d].total)}
		}
	}
	w.pending.Store(int64(4 * p.nstreams))

	res := simrt.Run(t, simrt.Config{MaxSteps: 3000000, IdleLimit: 2 * time.Hour, TraceCap: 20000}, tape.S, func() { w.main(tape) })

	o.Sched = res
	o.Virtual = res.Virtual
	w.finish(res)
	return o
}

// ---- set-up of the layers -------------------------------------------------------------------

func (w *world) installHook(d *simnet.Conn) {
	if !w.p.adv.on {
		return
	}
	m := &mitm{hdr: 2, p: w.p.adv}
	if isTLSLayer(w.p.layer) {
		m.hdr = 5
	}
	m.onTruncate = func(toDialer bool) {
		// the adversary ends the attacked direction with a FIN: close the write side of the sender's raw end
		from := w.rawA
		if toDialer {
			from = w.rawB
		}
		simrt.GoNamed("adversary-fin", func() { from.CloseWrite() })
	}
	w.mitm = m
	d.SetHook(m.hook)
}

type hsResult struct {
	c   sec.SecureConn
	err error
}

func (w *world) setupConn() bool {
	p := w.p
	w.rawA, w.rawB = w.n.Pipe("10.0.0.1", "10.0.0.2", 4001)
	w.installHook(w.rawA)
	keyA, keyB := simhost.DetKey(1), simhost.DetKey(2)
	switch p.layer {
	case layPnet:
		psk := make([]byte, 32)
		for i := range psk {
			psk[i] = byte(i*3 + 1)
		}
		ca, err := pnet.NewProtectedConn(psk, w.rawA)
		if err != nil {
			w.o.Trouble = "pnet: " + err.Error()
			return false
		}
		cb, err := pnet.NewProtectedConn(psk, w.rawB)
		if err != nil {
			w.o.Trouble = "pnet: " + err.Error()
			return false
		}
		w.connA, w.connB = ca, cb
		return true
	}
	var tA, tB sec.SecureTransport
	var err error
	if p.layer == layNoise {
		tA, err = noise.New(noise.ID, keyA, nil)
		if err == nil {
			tB, err = noise.New(noise.ID, keyB, nil)
		}
	} else {
		tA, err = libp2ptls.New(libp2ptls.ID, keyA, nil)
		if err == nil {
			tB, err = libp2ptls.New(libp2ptls.ID, keyB, nil)
		}
	}
	if err != nil {
		w.o.Trouble = "security transport: " + err.Error()
		return false
	}
	idB, err := peer.IDFromPrivateKey(keyB)
	if err != nil {
		w.o.Trouble = "peer id: " + err.Error()
		return false
	}
	ctx, cancel := context.WithTimeout(context.Background(), time.Minute)
	defer cancel()
	ra, rb := make(chan hsResult, 1), make(chan hsResult, 1)
	simrt.GoNamed("handshake-A", func() {
		c, err := tA.SecureOutbound(ctx, w.rawA, idB)
		ra <- hsResult{c, err}
	})
	simrt.GoNamed("handshake-B", func() {
		c, err := tB.SecureInbound(ctx, w.rawB, "")
		rb <- hsResult{c, err}
	})
	a := simrt.Recv("hs-a", ra)
	b := simrt.Recv("hs-b", rb)
	if a.c != nil {
		w.connA = a.c
	}
	if b.c != nil {
		w.connB = b.c
	}
	if a.err != nil || b.err != nil {
		w.o.Trouble = fmt.Sprintf("fault-free handshake failed: A=%v B=%v", a.err, b.err)
		return false
	}
	return true
}

func (w *world) setupNodes() bool {
	p := w.p
	secu := "noise"
	if isTLSLayer(p.layer) {
		secu = "tls"
	}
	first := true
	w.n.OnConn(func(d, l *simnet.Conn) {
		if !first {
			return
		}
		first = false
		w.rawA, w.rawB = d, l
		w.installHook(d)
	})
	host := isHostLayer(p.layer)
	var err error
	w.nodeA, err = simhost.New(w.n, simhost.Opts{Key: simhost.DetKey(1), IP: "10.0.0.1", Port: 4001, Security: secu, WithHost: host})
	if err != nil {
		w.o.Trouble = "node A: " + err.Error()
		return false
	}
	w.nodeB, err = simhost.New(w.n, simhost.Opts{Key: simhost.DetKey(2), IP: "10.0.0.2", Port: 4001, Security: secu, WithHost: host})
	if err != nil {
		w.o.Trouble = "node B: " + err.Error()
		return false
	}
	a, b := w.nodeA, w.nodeB
	if host {
		for s := 0; s < p.nstreams; s++ {
			s := s
			b.Host.SetStreamHandler(protoOf(s), func(st network.Stream) { w.acceptB(s, st) })
		}
	} else {
		b.Swarm.SetStreamHandler(func(st network.Stream) {
			s := w.inbound
			w.inbound++
			w.acceptB(s, st)
		})
	}
	a.PS.AddAddrs(b.ID, []ma.Multiaddr{b.Addr}, peerstore.PermanentAddrTTL)
	ctx, cancel := context.WithTimeout(context.Background(), time.Minute)
	defer cancel()
	if host {
		if err := a.Host.Connect(ctx, b.AddrInfo()); err != nil {
			w.o.Trouble = "fault-free connect failed: " + err.Error()
			return false
		}
		for s := 0; s < p.nstreams; s++ {
			st, err := a.Host.NewStream(ctx, b.ID, protoOf(s))
			if err != nil {
				w.o.Trouble = "fault-free NewStream failed: " + err.Error()
				return false
			}
			if strings.Contains(fmt.Sprintf("%T", st), "streamWrapper") {
				w.lazy++
			}
			w.strA[s] = st
		}
	} else {
		c, err := a.Swarm.DialPeer(ctx, b.ID)
		if err != nil {
			w.o.Trouble = "fault-free dial failed: " + err.Error()
			return false
		}
		for s := 0; s < p.nstreams; s++ {
			st, err := c.NewStream(ctx)
			if err != nil {
				w.o.Trouble = "fault-free NewStream failed: " + err.Error()
				return false
			}
			w.strA[s] = st
			// the SYN travels with the opener's first window update: wait until B's handler has the stream, so
			// that stream k of A is stream k of B
			for i := 0; i < 200 && w.strB[s] == nil; i++ {
				simrt.WaitIdle()
				if w.strB[s] == nil {
					simrt.TimeSleep(10 * time.Millisecond)
				}
			}
			if w.strB[s] == nil {
				w.o.Trouble = fmt.Sprintf("stream %d was not accepted by B", s)
				return false
			}
		}
	}
	if w.rawA == nil {
		w.o.Trouble = "no raw connection seen"
		return false
	}
	return true
}

func protoOf(s int) protocol.ID { return protocol.ID(fmt.Sprintf("/c02/%d", s)) }

func streamEnd(st network.Stream) *end {
	return &end{rw: st, setRDL: st.SetReadDeadline, closeW: st.CloseWrite}
}

// acceptB runs on B's stream-handler task: B's reader of A>B and writer of B>A start here.
func (w *world) acceptB(s int, st network.Stream) {
	if w.closing.Load() || s >= w.p.nstreams || w.strB[s] != nil {
		st.Reset()
		return
	}
	w.strB[s] = st
	e := streamEnd(st)
	rc, wc := w.chans[s][0], w.chans[s][1]
	rc.rStarted, wc.wStarted = true, true
	simrt.GoNamed(fmt.Sprintf("read-B-s%d", s), func() { rc.reader(e) })
	simrt.GoNamed(fmt.Sprintf("write-B-s%d", s), func() { wc.writer(e) })
}

// ---- the run ----------------------------------------------------------------------------------

func (w *world) main(tape *simrt.Tape) {
	p := w.p
	// The handshakes are not what this property is about: they run under coarse chunking (TLS needs whole
	// deliveries because its handshake lengths depend on crypto/rand); the data phase uses the drawn mode.
	setupMode := simnet.Fragment
	if isTLSLayer(p.layer) {
		setupMode = simnet.Whole
	}
	w.n = simnet.New(tape.S, simnet.Config{Mode: setupMode, Latencies: p.lat})
	var ok bool
	if isConnLayer(p.layer) {
		ok = w.setupConn()
	} else {
		ok = w.setupNodes()
	}
	if !ok {
		w.teardown()
		return
	}
	// A quiescent instant: nothing is in flight (the adversary stratum has no latency), so the raw byte
	// stream stands on a frame boundary when the adversary starts parsing.
	simrt.WaitIdle()
	if !isConnLayer(p.layer) {
		simrt.TimeSleep(time.Second) // identify and friends
		simrt.WaitIdle()
	}
	w.rawA.SetMode(p.mode)
	w.rawB.SetMode(p.mode)
	if w.mitm != nil {
		w.mitm.armed = true
	}
	if p.stall.on {
		e := w.rawA
		if p.stall.sideB {
			e = w.rawB
		}
		e.InjectFault(simnet.Fault{Kind: simnet.Stall, AtCall: e.Stats().Calls + p.stall.k})
	}
	if isConnLayer(p.layer) {
		eA := w.connEnd(w.connA, w.rawA)
		eB := w.connEnd(w.connB, w.rawB)
		ab, ba := w.chans[0][0], w.chans[0][1]
		ab.wStarted, ab.rStarted, ba.wStarted, ba.rStarted = true, true, true, true
		simrt.GoNamed("write-A", func() { ab.writer(eA) })
		simrt.GoNamed("read-B", func() { ab.reader(eB) })
		simrt.GoNamed("write-B", func() { ba.writer(eB) })
		simrt.GoNamed("read-A", func() { ba.reader(eA) })
	} else {
		for s := 0; s < p.nstreams; s++ {
			e := streamEnd(w.strA[s])
			wc, rc := w.chans[s][0], w.chans[s][1]
			wc.wStarted, rc.rStarted = true, true
			simrt.GoNamed(fmt.Sprintf("write-A-s%d", s), func() { wc.writer(e) })
			simrt.GoNamed(fmt.Sprintf("read-A-s%d", s), func() { rc.reader(e) })
		}
	}
	close(w.gate)
	w.wait()
	w.teardown()
}

func (w *world) connEnd(c net.Conn, raw *simnet.Conn) *end {
	e := &end{rw: c, setRDL: c.SetReadDeadline}
	if cw, ok := c.(interface{ CloseWrite() error }); ok && w.p.layer == layTLS {
		e.closeW = cw.CloseWrite // TLS close_notify
	} else {
		// Noise and PSK connections have no half close of their own: the TCP connection underneath is half
		// closed (FIN after everything that was written), which the reader sees as EOF at a frame boundary.
		e.closeW = raw.CloseWrite
	}
	return e
}

func (w *world) wait() {
	last := w.progress.Load()
	lastAt := simrt.Now()
	start := lastAt
	step := time.Millisecond
	for w.pending.Load() > 0 {
		simrt.TimeSleep(step)
		if step < time.Second {
			step *= 4
		}
		now := simrt.Now()
		if cur := w.progress.Load(); cur != last {
			last, lastAt = cur, now
			continue
		}
		if now-lastAt > quietLimit || now-start > 2*time.Hour {
			w.hung = true
			return
		}
	}
}

func (w *world) unfinished() int {
	n := 0
	for s := range w.chans {
		for d := 0; d < 2; d++ {
			c := w.chans[s][d]
			if c.rStarted && !c.rDone {
				n++
			}
			if c.wStarted && !c.wDone {
				n++
			}
		}
	}
	return n
}

func (w *world) teardown() {
	w.closing.Store(true)
	select {
	case <-w.gate:
	default:
		close(w.gate)
	}
	clean := !w.hung && w.o.Trouble == ""
	for s := range w.chans {
		for d := 0; d < 2; d++ {
			c := w.chans[s][d]
			if c.rEnd != "eof" || c.wErr != "" {
				clean = false
			}
		}
	}
	for _, l := range [][]network.Stream{w.strA, w.strB} {
		for _, st := range l {
			if st == nil {
				continue
			}
			if clean {
				st.Close()
			} else {
				st.Reset()
			}
		}
	}
	if w.connA != nil {
		w.connA.Close()
	}
	if w.connB != nil {
		w.connB.Close()
	}
	if w.nodeA != nil {
		w.nodeA.Close()
	}
	if w.nodeB != nil {
		w.nodeB.Close()
	}
	if w.rawA != nil {
		w.rawA.Close()
		w.rawB.Close()
	}
	for i := 0; i < 300; i++ {
		simrt.WaitIdle()
		if w.unfinished() == 0 {
			break
		}
		simrt.TimeSleep(time.Second)
	}
	simrt.WaitIdle()
}

// ---- judgement ----------------------------------------------------------------------------------

func (w *world) finish(res simrt.Result) {
	o, p, lay := w.o, w.p, w.layer()
	advFired := w.mitm != nil && w.mitm.fired.Load()
	stallFired := false
	for _, c := range []*simnet.Conn{w.rawA, w.rawB} {
		if c != nil && len(c.Stats().Fired) > 0 {
			stallFired = true
		}
	}
	if advFired {
		o.Fault("adversary-" + advName[p.adv.action])
		o.Logf("adversary: %s", w.mitm.note)
	} else if p.adv.on {
		w.probes["adversary-frame-never-came"]++
	}
	if stallFired {
		o.Fault("stall")
	}
	if p.mode != simnet.Whole {
		o.Fault("fragmentation-" + modeName(p.mode))
	}
	if len(p.lat) > 0 {
		o.Fault("latency")
	}
	w.probes["layer-"+lay]++
	w.probes["stratum-"+stratumName[p.stratum]]++
	if w.lazy > 0 {
		w.probes["lazy-multistream-stream"] += w.lazy
	}
	faulted := advFired || stallFired

	var sig []string
	sig = append(sig, lay, stratumName[p.stratum], modeName(p.mode), fmt.Sprintf("adv=%v stall=%v hung=%v", advFired, stallFired, w.hung))
	totalData := 0
	judged := res.Panic == "" && o.Trouble == "" && !res.StepLimit && !res.Stuck && res.Deadlock == ""
	for s := range w.chans {
		for d := 0; d < 2; d++ {
			c := w.chans[s][d]
			cp := c.p
			totalData += c.dataReads
			sig = append(sig, fmt.Sprintf("%s:%d/%d/%d r%d %s w=%s t%d", c.id, cp.total, c.accepted, c.off, c.reads, c.rEnd, c.wErr, c.timeouts))
			for _, wr := range cp.writes {
				if wr > noiseMaxPlain && !isTLSLayer(p.layer) && p.layer != layPnet && c.accepted >= wr {
					w.probes["write-of-2-or-more-noise-frames"]++
					break
				}
			}
			for _, wr := range cp.writes {
				if wr >= yamuxWindow && !isConnLayer(p.layer) {
					w.probes["write-reaching-yamux-window"]++
					break
				}
			}
			nv := len(o.Violations)
			o.Violations = append(o.Violations, c.rviol...)
			o.Violations = append(o.Violations, c.wviol...)
			if judged {
				w.judge(c, faulted, advFired)
			}
			bad := len(o.Violations) > nv
			o.Logf("result %s: planned=%d accepted=%d delivered=%d reads=%d timeouts=%d reader=%s%s writer=%s%s started r=%v w=%v done r=%v w=%v",
				c.id, cp.total, c.accepted, c.off, c.reads, c.timeouts, orDash(c.rEnd), paren(c.rErrText), orDash(c.wErr), paren(c.wErrText), c.rStarted, c.wStarted, c.rDone, c.wDone)
			w.dump(c.id+" W", c.wlog, bad)
			w.dump(c.id+" R", c.rlog, bad)
		}
	}
	var pk []string
	for k := range w.probes {
		pk = append(pk, k)
	}
	sort.Strings(pk)
	for _, k := range pk {
		for i := 0; i < w.probes[k]; i++ {
			o.Probe(k)
		}
	}
	o.Sig = strings.Join(sig, "|")
	o.Nontrivial = faulted || totalData >= 2
	if res.Panic != "" {
		o.Violate("C02/panic/"+lay, "%s", res.Panic)
		return
	}
	if o.Trouble == "" && (res.StepLimit || res.Stuck || res.Deadlock != "") {
		o.Trouble = fmt.Sprintf("steplimit=%v stuck=%v deadlock=%q", res.StepLimit, res.Stuck, res.Deadlock)
	}
}

func orDash(s string) string {
	if s == "" {
		return "-"
	}
	return s
}

func paren(s string) string {
	if s == "" {
		return ""
	}
	if len(s) > 160 {
		s = s[:160]
	}
	return " (" + s + ")"
}

func (w *world) dump(who string, l []string, all bool) {
	if !all && len(l) > 8 {
		l = append(append(append([]string(nil), l[:4]...), fmt.Sprintf("... (%d more)", len(l)-8)), l[len(l)-4:]...)
	}
	for _, s := range l {
		w.o.Logf("    %s %s", who, s)
	}
}

func (w *world) judge(c *chanState, faulted, advFired bool) {
	o, lay := w.o, w.layer()
	cp := c.p
	ctx := c.ctx()
	if faulted && !advFired {
		ctx += "/after-stall"
	}
	// Noise (and the PSK stream cipher) have no authenticated end of stream: cutting the byte stream on a
	// frame boundary is indistinguishable from the peer's own FIN, so under tampering a reader of the bare Noise
	// session may see EOF early. This is the weaker reading of "the reader gets an error"; every layer with an
	// authenticated end (TLS close_notify, yamux FIN inside the secured channel) is held to the strict one.
	noAuthEnd := w.p.layer == layNoise && advFired
	if c.rEnd == "eof" && !noAuthEnd {
		if !c.eofClosing {
			o.Violate("C02/eof-before-close/"+lay+ctx, "%s: reader got EOF at offset %d although the writer had not begun to close (planned %d bytes, %d accepted so far)", c.id, c.off, cp.total, c.accepted)
		} else if c.off < c.accepted {
			o.Violate("C02/eof-with-missing-bytes/"+lay+ctx, "%s: reader got EOF after %d bytes but Write had accepted %d", c.id, c.off, c.accepted)
		}
	}
	if c.off > c.accepted && c.wErr == "" && c.wDone {
		o.Violate("C02/delivered-more-than-accepted/"+lay+ctx, "%s: %d bytes delivered, Write return values sum to %d", c.id, c.off, c.accepted)
	}
	if faulted || c.hadTimeout {
		return // weak regime: a correct prefix and the EOF rules above
	}
	// strong regime: nothing happened that may legitimately cost data
	switch {
	case w.hung && (!c.rDone || !c.wDone || !c.rStarted || !c.wStarted):
		o.Violate("C02/hang/"+lay, "%s: no Read or Write returned for %v of virtual time; reader started=%v done=%v at offset %d, writer started=%v done=%v accepted %d of %d",
			c.id, quietLimit, c.rStarted, c.rDone, c.off, c.wStarted, c.wDone, c.accepted, cp.total)
	case c.wErr != "":
		o.Violate("C02/incomplete/"+lay+"/write-"+c.wErr, "%s: fault-free run, writer ended with %s (%s) after %d of %d bytes", c.id, c.wErr, c.wErrText, c.accepted, cp.total)
	case c.rEnd != "eof":
		o.Violate("C02/incomplete/"+lay+"/read-"+strings.TrimPrefix(c.rEnd, "error:"), "%s: fault-free run, reader ended with %q (%s) at offset %d of %d", c.id, c.rEnd, c.rErrText, c.off, cp.total)
	case c.off != cp.total || c.accepted != cp.total:
		o.Violate("C02/incomplete/"+lay+"/short", "%s: fault-free run with clean close: planned %d, Write accepted %d, delivered %d", c.id, cp.total, c.accepted, c.off)
	}
}
