package c02

import (
	"errors"
	"fmt"
	"io"
	"net"
	"sync/atomic"
	"syscall"
	"time"

	"github.com/libp2p/go-libp2p/core/network"

	"verifsim/harness/common"
	"verifsim/simnet"
	"verifsim/simrt"
)

// end is one side's handle on a connection or stream.
type end struct {
	rw     io.ReadWriter
	setRDL func(time.Time) error
	closeW func() error // half close of this side's write direction
	rawIn  func() int   // bare Noise / PSK connection: raw bytes this side has taken off the wire since the data phase began
}

// oplog keeps the first and the last operations of a task (the ones next to a violation are the last).
type oplog struct {
	head, tail []string
	dropped    int
}

func (l *oplog) addf(format string, a ...any) {
	s := fmt.Sprintf(format, a...)
	if len(l.head) < 8 {
		l.head = append(l.head, s)
		return
	}
	if len(l.tail) == 24 {
		copy(l.tail, l.tail[1:])
		l.tail = l.tail[:23]
		l.dropped++
	}
	l.tail = append(l.tail, s)
}

func (l *oplog) lines() []string {
	out := append([]string(nil), l.head...)
	if l.dropped > 0 {
		out = append(out, fmt.Sprintf("... (%d operations omitted)", l.dropped))
	}
	return append(out, l.tail...)
}

// chanState is one (stream, direction): a writer task on one side, a reader task on the other.
type chanState struct {
	w      *world
	stream int
	dir    int
	id     string
	p      *chanPlan
	t      *table

	// writer side
	attempted atomic.Int64 // bytes handed to Write so far (including a call in progress)
	closing   atomic.Bool  // the writer has begun its half close
	accepted  int          // sum of Write return values
	wErr      string       // kind of the error that ended the writer ("" = none)
	wErrText  string
	wStarted  bool
	wDone     atomic.Bool

	// reader side
	off          int // bytes delivered so far
	reads        int
	dataReads    int
	zeroRun      int
	timeouts     int
	hadTimeout   bool
	noDeadline   bool
	rEnd         string // "", "eof", "gave-up", "violation", "error:<kind>"
	rErrText     string
	eofClosing   bool // the writer had begun closing when EOF was seen
	eofOff       int  // bytes delivered when EOF was seen
	eofWithData  bool // the call that returned io.EOF also returned data
	afterEOFData int  // bytes returned by reads after EOF
	afterEOFGood bool // ... and they were the correct continuation
	rStarted     bool
	rDone        atomic.Bool
	prevEdge1    bool // previous read was a 1-byte read that consumed the last byte of a (notional) frame

	wviol, rviol []common.Violation // writer / reader task each own one (they may run at the same instant)
	wlog, rlog   oplog
	arena        []byte
}

func (c *chanState) wviolate(class, format string, a ...any) {
	c.wviol = append(c.wviol, common.Violation{Class: class, Detail: c.id + ": " + fmt.Sprintf(format, a...)})
}
func (c *chanState) violate(class, format string, a ...any) {
	c.rviol = append(c.rviol, common.Violation{Class: class, Detail: c.id + ": " + fmt.Sprintf(format, a...)})
}

// ctx is the suffix of violation classes: what had happened to this run / reader before (keeps findings apart).
func (c *chanState) ctx() string {
	s := ""
	if c.w.mitm != nil && c.w.mitm.fired.Load() {
		s += "/after-tamper"
	}
	if c.w.peerClosed.Load() {
		s += "/after-peer-close"
	}
	if c.hadTimeout {
		s += "/after-timeout"
	}
	return s
}

// errKind: "eof" is io.EOF ITSELF. The io package documents that Read must return EOF itself, not an error
// wrapping EOF, because callers test for it with ==; an error that merely wraps io.EOF (yamux: "stream reset:
// connection closed: EOF", pnet: "could not read full nonce: EOF") is an error to every such caller.
func errKind(err error) string {
	var ne net.Error
	switch {
	case err == nil:
		return "nil"
	case err == io.EOF:
		return "eof"
	case errors.As(err, &ne) && ne.Timeout():
		return "timeout"
	case errors.Is(err, network.ErrReset):
		return "reset"
	case errors.Is(err, io.ErrUnexpectedEOF):
		return "unexpected-eof"
	case errors.Is(err, net.ErrClosed):
		return "closed"
	case errors.Is(err, syscall.ECONNRESET), errors.Is(err, syscall.EPIPE):
		return "conn-reset"
	case errors.Is(err, io.EOF):
		return "wrapped-eof"
	}
	return "error"
}

// frameRem is the number of bytes left in the notional Noise frame that contains offset off.
func (c *chanState) frameRem(off int) int {
	for _, e := range c.p.frames {
		if off < e {
			return e - off
		}
	}
	return 0
}

// midFrame: raw (ciphertext) offset in is inside a Noise frame (2-byte length + ciphertext + 16-byte tag per notional
// frame) or inside the 24-byte nonce that precedes a PSK stream.
func (c *chanState) midFrame(in int) bool {
	if c.w.p.layer == layPnet {
		return in > 0 && in < 24
	}
	prev, start := 0, 0 // plaintext end of the previous frame, raw offset at which the current frame starts
	for _, e := range c.p.frames {
		if in == start {
			return false
		}
		end := start + 2 + (e - prev) + 16
		if in < end {
			return true
		}
		prev, start = e, end
	}
	return false // on or beyond the end of everything planned
}

func (c *chanState) atFrameStart(off int) bool {
	if off == 0 {
		return true
	}
	for _, e := range c.p.frames {
		if off == e {
			return true
		}
		if off < e {
			return false
		}
	}
	return false
}

const maxArena = 1<<20 + 64

// reader budget for small buffers (each Read costs scheduler decisions): beyond it small sizes are promoted
const tinyBudget, midBudget = 96, 400

func (c *chanState) resolve(b bufSpec) int {
	size := b.v
	if b.rel {
		size = c.frameRem(c.off) + 16 + b.v
	}
	if size < 1 {
		size = 1
	}
	if c.w.p.mode != simnet.Tiny { // the payload can be large
		if size < 256 && c.reads >= tinyBudget {
			size += 8192
		} else if size < 4096 && c.reads >= midBudget {
			size += 32768
		}
	}
	if size > 1<<20 {
		size = 1 << 20
	}
	return size
}

func slackByte(i int) byte { return 0x5a ^ byte(i*7) }

// writer task
func (c *chanState) writer(e *end) {
	w := c.w
	defer func() {
		c.wDone.Store(true)
		w.taskDone()
	}()
	simrt.Recv("gate", w.gate)
	p := c.p
	pos := 0
	for i, sz := range p.writes {
		if p.pauses[i] > 0 {
			simrt.TimeSleep(p.pauses[i])
		}
		buf := c.t.src[pos : pos+sz : pos+sz]
		c.attempted.Add(int64(sz))
		s0 := simrt.Stamp()
		n, err := e.rw.Write(buf)
		s1 := simrt.Stamp()
		w.progress.Add(1)
		c.wlog.addf("[%d..%d] Write(%d bytes @%d) = %d, %s", s0, s1, sz, pos, n, errKind(err))
		if string(buf) != string(c.t.exp[pos:pos+sz]) {
			copy(buf, c.t.exp[pos:pos+sz])
			c.wviolate("C02/write-modified-buffer/"+w.layer(), "Write(%d bytes at offset %d) changed the caller's buffer", sz, pos)
		}
		if n < 0 || n > sz {
			c.wviolate("C02/write-count-out-of-range/"+w.layer(), "Write(%d bytes at offset %d) returned n=%d", sz, pos, n)
			c.wErr = "violation"
			return
		}
		c.accepted += n
		pos += n
		if err != nil {
			c.wErr, c.wErrText = errKind(err), err.Error()
			return
		}
		if n != sz {
			c.wviolate("C02/short-write-without-error/"+w.layer(), "Write(%d bytes at offset %d) returned n=%d and a nil error", sz, pos-n, n)
			c.wErr = "violation"
			return
		}
	}
	if d := p.pauses[len(p.writes)]; d > 0 {
		simrt.TimeSleep(d)
	}
	c.closing.Store(true)
	w.sideClosed[c.stream][c.dir].Store(true)
	s0 := simrt.Stamp()
	err := e.closeW()
	w.progress.Add(1)
	c.wlog.addf("[%d..%d] CloseWrite() = %s", s0, simrt.Stamp(), errKind(err))
	if err != nil {
		c.wErr, c.wErrText = "close-"+errKind(err), err.Error()
	}
}

// reader task
func (c *chanState) reader(e *end) {
	w := c.w
	defer func() {
		c.rDone.Store(true)
		w.taskDone()
	}()
	simrt.Recv("gate", w.gate)
	p := c.p
	lay := w.layer()
	if c.arena == nil {
		c.arena = w.arena(c.stream*2 + c.dir)
	}
	if p.startDelay > 0 {
		simrt.TimeSleep(p.startDelay)
	}
	for i := 0; ; i++ {
		spec := p.bufs[i%len(p.bufs)]
		size := c.resolve(spec)
		full := c.arena[: size+spec.slack : size+spec.slack]
		buf := full[:size]
		fillN := min(size, p.total-c.off+64)
		if fillN < 0 {
			fillN = 0
		}
		copy(buf[:fillN], c.t.neg[c.off:c.off+fillN])
		for j := size; j < len(full); j++ {
			full[j] = slackByte(j - size)
		}
		if p.deadline > 0 && !c.noDeadline {
			e.setRDL(time.Now().Add(p.deadline))
		}
		startOff := c.off
		rem := c.frameRem(c.off)
		fresh := c.atFrameStart(c.off)
		s0 := simrt.Stamp()
		n, err := e.rw.Read(buf)
		s1 := simrt.Stamp()
		w.progress.Add(1)
		c.reads++
		kind := errKind(err)
		if n != 0 || err != nil || c.zeroRun == 0 {
			c.rlog.addf("[%d..%d] Read(buf %d, cap %d) @%d = %d, %s", s0, s1, size, len(full), startOff, n, kind)
		}
		// --- oracles on this call ---
		if n < 0 || n > size {
			c.violate("C02/read-count-out-of-range/"+lay+c.ctx(), "Read with a %d-byte buffer at offset %d returned n=%d", size, startOff, n)
			c.rEnd = "violation"
			return
		}
		for j := size; j < len(full); j++ {
			if full[j] != slackByte(j-size) {
				c.violate("C02/read-wrote-past-buffer/"+lay+c.ctx(), "Read with a %d-byte buffer (cap %d) at offset %d changed byte %d beyond len(buf)", size, len(full), startOff, j)
				c.rEnd = "violation"
				return
			}
		}
		if n > 0 {
			if !c.checkData(buf[:n], startOff, size) {
				c.rEnd = "violation"
				return
			}
			c.off += n
			c.dataReads++
			c.zeroRun = 0
			c.probesOnData(size, n, rem, fresh, startOff)
		}
		if err == nil {
			if n == 0 {
				// io.Reader allows (0, nil) ("nothing happened"); only an endless run of them is no progress
				w.probe("zero-byte-read")
				c.zeroRun++
				if c.zeroRun > 8 {
					c.violate("C02/read-no-progress/"+lay+c.ctx(), "%d consecutive Reads with a non-empty buffer returned (0, nil) at offset %d", c.zeroRun, c.off)
					c.rEnd = "violation"
					return
				}
			}
			continue
		}
		switch kind {
		case "eof":
			c.rEnd = "eof"
			c.eofClosing = c.closing.Load()
			c.eofOff = c.off
			c.eofWithData = n > 0
			c.afterEOF(e)
			return
		case "timeout":
			if p.deadline == 0 {
				c.rEnd, c.rErrText = "error:timeout", err.Error()
				return
			}
			c.hadTimeout = true
			c.timeouts++
			w.probe("read-timeout")
			if e.rawIn != nil && c.midFrame(e.rawIn()) {
				// OBSERVATION, not an oracle: see deadlineObservation in sim_test.go. The connection has lost its
				// place in the stream; what a further Read returns depends on ciphertext bytes (crypto/rand), so
				// the reader stops here, which also keeps the run a pure function of the tape.
				w.probe(deadlineObservation + lay)
				c.rlog.addf("OBSERVATION: the read deadline expired after %d raw bytes, in the middle of a frame / of the nonce: the connection is desynchronised, reader stops", e.rawIn())
				c.rEnd = "deadline-mid-frame"
				return
			}
			if c.timeouts > p.retries {
				if w.p.stratum == stStall {
					c.rEnd = "gave-up"
					return
				}
				if !c.noDeadline {
					c.noDeadline = true
					e.setRDL(time.Time{})
				} else if c.timeouts > p.retries+3 {
					// a sticky timeout error (the layer does not resume after a deadline)
					c.rEnd, c.rErrText = "error:timeout", err.Error()
					return
				}
			}
			continue
		default:
			c.rEnd, c.rErrText = "error:"+kind, err.Error()
			if w.mitm != nil && w.mitm.fired.Load() {
				w.probe("tamper-detected")
			}
			return
		}
	}
}

// checkData: the bytes just read continue the planned stream at offset off, and had been handed to Write.
func (c *chanState) checkData(got []byte, off, size int) bool {
	w := c.w
	lay := w.layer()
	n := len(got)
	if int64(off+n) > c.attempted.Load() {
		c.violate("C02/more-than-written/"+lay+c.ctx(), "Read returned %d bytes at offset %d but only %d bytes had been handed to Write", n, off, c.attempted.Load())
		return false
	}
	exp := c.t.exp[off : off+n]
	if string(got) != string(exp) {
		k := 0
		for got[k] == exp[k] {
			k++
		}
		c.violate("C02/wrong-bytes/"+lay+c.ctx(),
			"Read #%d (buffer %d) returned %d bytes for offsets %d..%d; first wrong byte at stream offset %d (call-relative %d): got %#02x want %#02x; the bytes from there %s",
			c.reads, size, n, off, off+n-1, off+k, k, got[k], exp[k], locate(w.p, got[k:]))
		return false
	}
	return true
}

// afterEOF: further reads keep returning an error and never data.
func (c *chanState) afterEOF(e *end) {
	w := c.w
	for k := 0; k < c.p.postEOF; k++ {
		buf := c.arena[:16]
		copy(buf, c.t.neg[c.off:c.off+16])
		if e.setRDL != nil {
			e.setRDL(time.Now().Add(time.Second))
		}
		s0 := simrt.Stamp()
		n, err := e.rw.Read(buf)
		w.progress.Add(1)
		c.rlog.addf("[%d..%d] Read(buf 16) after EOF @%d = %d, %s", s0, simrt.Stamp(), c.off, n, errKind(err))
		if n < 0 || n > 16 {
			c.violate("C02/read-count-out-of-range/"+w.layer()+c.ctx(), "Read after EOF with a 16-byte buffer returned n=%d", n)
			return
		}
		if n != 0 {
			// judged at the end of the run (premature EOF or data after the end)
			good := int64(c.off+n) <= c.attempted.Load() && string(buf[:n]) == string(c.t.exp[c.off:c.off+n])
			if c.afterEOFData == 0 {
				c.afterEOFGood = good
			} else {
				c.afterEOFGood = c.afterEOFGood && good
			}
			c.afterEOFData += n
			if good {
				c.off += n
			} else {
				return
			}
			continue
		}
		w.probe("read-after-eof")
	}
}

func (c *chanState) probesOnData(size, n, rem int, fresh bool, startOff int) {
	w := c.w
	// this side's own writer (the opposite direction of the same stream) had already half-closed
	if w.sideClosed[c.stream][1-c.dir].Load() {
		w.probe("data-read-after-own-half-close")
	}
	if w.p.layer == layNoise && rem > 0 {
		// which of the three read paths of noise/rw.go this call took follows from the frame format
		switch {
		case !fresh:
			w.probe("noise-queued-remainder")
		case size >= rem+16:
			w.probe("noise-in-place")
		case size >= rem:
			w.probe("noise-pooled-whole-frame")
		default:
			w.probe("noise-pooled-partial")
		}
		edge1 := size == 1 && rem == 1
		if c.prevEdge1 && size == 1 && fresh {
			w.probe("one-byte-reads-across-frame-edge")
		}
		c.prevEdge1 = edge1
	}
	if n < size && n < rem {
		w.probe("short-read")
	}
}
