package c02

import (
	"errors"
	"fmt"
	"io"
	"net"
	"sync/atomic"
	"syscall"
	"time"

	"github.com/libp2p/go-libp2p/core/network"

	"verifsim/harness/common"
	"verifsim/simnet"
	"verifsim/simrt"
)

// end is one side's handle on a connection or stream.
type end struct {
	rw     io.ReadWriter
	setRDL func(time.Time) error
	setWDL func(time.Time) error
	closeW func() error // half close of this side's write direction
	rawIn  func() int   // bare Noise / PSK connection: raw bytes this side has taken off the wire since the data phase began
}

// oplog keeps the first and the last operations of a task (the ones next to a violation are the last).
type oplog struct {
	head, tail []string
	dropped    int
}

func (l *oplog) addf(format string, a ...any) {
	s := fmt.Sprintf(format, a...)
	if len(l.head) < 8 {
		l.head = append(l.head, s)
		return
	}
	if len(l.tail) == 24 {
		copy(l.tail, l.tail[1:])
		l.tail = l.tail[:23]
		l.dropped++
	}
	l.tail = append(l.tail, s)
}

func (l *oplog) lines() []string {
	out := append([]string(nil), l.head...)
	if l.dropped > 0 {
		out = append(out, fmt.Sprintf("... (%d operations omitted)", l.dropped))
	}
	return append(out, l.tail...)
}

// chanState is one (stream, direction): a writer task on one side, a reader task on the other.
type chanState struct {
	w      *world
	stream int
	dir    int
	id     string
	p      *chanPlan
	t      *table

	// writer side (ws[1] is used in dual mode only; accepted / wErr / wErrText are summed up by collectWriters)
	ws        [2]writerState
	wLeft     atomic.Int32 // writer tasks that have not returned yet
	closeLeft atomic.Int32 // writer tasks that have not finished their writes yet: the last one half-closes
	attempted atomic.Int64 // bytes handed to Write so far (including a call in progress)
	closing   atomic.Bool  // the (last) writer has begun its half close
	accepted  int          // sum of Write return values
	wErr      string       // kind of the error that ended a writer ("" = none)
	wErrText  string
	wStarted  bool
	wDone     atomic.Bool

	// dual mode reader: the admissible parses of what was read so far as a concatenation of whole writes
	dc         []dcand
	zeroReads  int
	zeroQueued bool // noise: a zero-length Read at a frame start has pulled the frame into the session's queue

	// reader side
	off          int // bytes delivered so far
	reads        int
	dataReads    int
	zeroRun      int
	timeouts     int
	hadTimeout   bool
	noDeadline   bool
	rEnd         string // "", "eof", "gave-up", "violation", "error:<kind>"
	rErrText     string
	eofClosing   bool // the writer had begun closing when EOF was seen
	eofOff       int  // bytes delivered when EOF was seen
	eofWithData  bool // the call that returned io.EOF also returned data
	afterEOFData int  // bytes returned by reads after EOF
	afterEOFGood bool // ... and they were the correct continuation
	rStarted     bool
	rDone        atomic.Bool
	prevEdge1    bool // previous read was a 1-byte read that consumed the last byte of a (notional) frame

	rviol []common.Violation // the reader task's own (tasks may run at the same instant)
	rlog  oplog
	arena []byte
}

// writerState belongs to one writer task.
type writerState struct {
	wTimeouts int          // Writes that returned a timeout (behaviour "deadline, then carry on")
	started   atomic.Int32 // number of Write calls begun
	failed    atomic.Bool  // a Write returned an error or a short count: its bytes may stop anywhere
	accepted  int
	wErr      string
	wErrText  string
	viol      []common.Violation
	log       oplog
}

func (c *chanState) writesOf(wi int) ([]int, []time.Duration) {
	if wi == 1 {
		return c.p.writes2, c.p.pauses2
	}
	return c.p.writes, c.p.pauses
}

func (c *chanState) nWriters() int {
	if c.p.dual {
		return 2
	}
	return 1
}

// collectWriters (after all tasks are done): sums of the writer tasks.
func (c *chanState) collectWriters() {
	c.accepted, c.wErr, c.wErrText = 0, "", ""
	for i := 0; i < c.nWriters(); i++ {
		ws := &c.ws[i]
		c.accepted += ws.accepted
		if c.wErr == "" {
			c.wErr, c.wErrText = ws.wErr, ws.wErrText
		}
	}
}

// wbyte is the payload of dual mode, keyed per WRITE: (stream, direction, writer, index of the write, offset in it).
func wbyte(stream, dir, wi, idx, off int) byte {
	x := uint32(off)*2654435761 + uint32(stream*2+dir+1)*0x85ebca6b + uint32(wi+1)*0xc2b2ae35 + uint32(idx+1)*0x27d4eb2f
	x ^= x >> 15
	x *= 0x2c1b3c6d
	x ^= x >> 12
	x *= 0x297a2d39
	x ^= x >> 15
	return byte(x)
}

func (c *chanState) violate(class, format string, a ...any) {
	c.rviol = append(c.rviol, common.Violation{Class: class, Detail: c.id + ": " + fmt.Sprintf(format, a...)})
}

// ctx is the suffix of violation classes: what had happened to this run / reader before (keeps findings apart).
func (c *chanState) ctx() string {
	s := ""
	if c.w.mitm != nil && c.w.mitm.fired.Load() {
		s += "/after-tamper"
	}
	if c.w.qadv != nil {
		s += "/after-tamper"
	}
	if c.w.p.udp.drop > 0 || c.w.p.udp.dup > 0 {
		s += "/after-loss"
	}
	if c.w.peerClosed.Load() {
		s += "/after-peer-close"
	}
	if c.hadTimeout {
		s += "/after-timeout"
	}
	return s
}

// errKind: "eof" is io.EOF ITSELF. The io package documents that Read must return EOF itself, not an error
// wrapping EOF, because callers test for it with ==; an error that merely wraps io.EOF (yamux: "stream reset:
// connection closed: EOF", pnet: "could not read full nonce: EOF") is an error to every such caller.
func errKind(err error) string {
	var ne net.Error
	switch {
	case err == nil:
		return "nil"
	case err == io.EOF:
		return "eof"
	case errors.As(err, &ne) && ne.Timeout():
		return "timeout"
	case errors.Is(err, network.ErrReset):
		return "reset"
	case errors.Is(err, io.ErrUnexpectedEOF):
		return "unexpected-eof"
	case errors.Is(err, net.ErrClosed):
		return "closed"
	case errors.Is(err, syscall.ECONNRESET), errors.Is(err, syscall.EPIPE):
		return "conn-reset"
	case errors.Is(err, io.EOF):
		return "wrapped-eof"
	}
	return "error"
}

// frameRem is the number of bytes left in the notional Noise frame that contains offset off.
func (c *chanState) frameRem(off int) int {
	for _, e := range c.p.frames {
		if off < e {
			return e - off
		}
	}
	return 0
}

// midFrame: raw (ciphertext) offset in is inside a Noise frame (2-byte length + ciphertext + 16-byte tag per notional
// frame) or inside the 24-byte nonce that precedes a PSK stream.
func (c *chanState) midFrame(in int) bool {
	if c.w.p.layer == layPnet {
		return in > 0 && in < 24
	}
	prev, start := 0, 0 // plaintext end of the previous frame, raw offset at which the current frame starts
	for _, e := range c.p.frames {
		if in == start {
			return false
		}
		end := start + 2 + (e - prev) + 16
		if in < end {
			return true
		}
		prev, start = e, end
	}
	return false // on or beyond the end of everything planned
}

func (c *chanState) atFrameStart(off int) bool {
	if off == 0 {
		return true
	}
	for _, e := range c.p.frames {
		if off == e {
			return true
		}
		if off < e {
			return false
		}
	}
	return false
}

const maxArena = 1<<20 + 64

// reader budget for small buffers (each Read costs scheduler decisions): beyond it small sizes are promoted
const tinyBudget, midBudget = 96, 400

// zero-length reads make no progress: at most this many per reader, then they become ordinary ones
const zeroBudget = 24

func (c *chanState) resolve(b bufSpec) int {
	size := b.v
	if b.rel {
		size = c.frameRem(c.off) + 16 + b.v
		if size < 1 {
			size = 1
		}
	} else if size == 0 {
		if c.zeroReads < zeroBudget {
			c.zeroReads++
			return 0
		}
		size = 4096
	}
	if c.w.p.mode != simnet.Tiny { // the payload can be large
		if size < 256 && c.reads >= tinyBudget {
			size += 8192
		} else if size < 4096 && c.reads >= midBudget {
			size += 32768
		}
	}
	if size > 1<<20 {
		size = 1 << 20
	}
	return size
}

func slackByte(i int) byte { return 0x5a ^ byte(i*7) }

// writer task (wi = 0, or 1 for the second writer of dual mode)
func (c *chanState) writer(e *end, wi int) {
	w := c.w
	ws := &c.ws[wi]
	defer func() {
		if c.wLeft.Add(-1) == 0 {
			c.wDone.Store(true)
		}
		w.taskDone()
	}()
	simrt.Recv("gate", w.gate)
	p := c.p
	lay := w.layer()
	writes, pauses := c.writesOf(wi)
	violate := func(class, format string, a ...any) {
		ws.viol = append(ws.viol, common.Violation{Class: class, Detail: fmt.Sprintf("%s writer %d: ", c.id, wi) + fmt.Sprintf(format, a...)})
	}
	pos := 0
	for i, sz := range writes {
		if pauses[i] > 0 {
			simrt.TimeSleep(pauses[i])
		}
		var buf, ref []byte
		if p.dual {
			ref = make([]byte, sz)
			for k := range ref {
				ref[k] = wbyte(c.stream, c.dir, wi, i, k)
			}
			buf = append(make([]byte, 0, sz), ref...)
		} else {
			buf, ref = c.t.src[pos:pos+sz:pos+sz], c.t.exp[pos:pos+sz]
		}
		c.attempted.Add(int64(sz))
		ws.started.Store(int32(i + 1))
		armed := !p.dual && p.wdl.on && p.wdl.idx == i && e.setWDL != nil
		if armed {
			// "deadline, then carry on": already passed, or a few virtual milliseconds ahead
			dl := time.Now().Add(-time.Second)
			if p.wdl.ahead > 0 {
				dl = time.Now().Add(p.wdl.ahead)
			}
			e.setWDL(dl)
		}
		rest := buf
		for {
			s0 := simrt.Stamp()
			n, err := e.rw.Write(rest)
			s1 := simrt.Stamp()
			w.progress.Add(1)
			ws.log.addf("[%d..%d] Write #%d (%d bytes @%d) = %d, %s", s0, s1, i, len(rest), pos, n, errKind(err))
			if string(buf) != string(ref) {
				copy(buf, ref)
				violate("C02/write-modified-buffer/"+lay, "Write(%d bytes at offset %d) changed the caller's buffer", len(rest), pos)
			}
			if n < 0 || n > len(rest) {
				ws.failed.Store(true)
				violate("C02/write-count-out-of-range/"+lay, "Write(%d bytes at offset %d) returned n=%d", len(rest), pos, n)
				ws.wErr = "violation"
				return
			}
			ws.accepted += n
			pos += n
			if err != nil && armed && errKind(err) == "timeout" && ws.wTimeouts < 3 {
				// the deadline struck: lift it and go on from b[n:], as the returned n says
				ws.wTimeouts++
				w.probe("write-deadline-then-carry-on")
				if n > 0 {
					w.probe("write-timed-out-part-way")
				}
				e.setWDL(time.Time{})
				rest = rest[n:]
				continue
			}
			if armed {
				e.setWDL(time.Time{})
			}
			if err != nil {
				ws.failed.Store(true)
				ws.wErr, ws.wErrText = errKind(err), err.Error()
				return
			}
			if n != len(rest) {
				ws.failed.Store(true)
				violate("C02/short-write-without-error/"+lay, "Write(%d bytes at offset %d) returned n=%d and a nil error", len(rest), pos-n, n)
				ws.wErr = "violation"
				return
			}
			break
		}
	}
	if d := pauses[len(writes)]; d > 0 {
		simrt.TimeSleep(d)
	}
	if c.closeLeft.Add(-1) > 0 {
		return // the other writer is still at work: it will half-close
	}
	c.closing.Store(true)
	w.sideClosed[c.stream][c.dir].Store(true)
	s0 := simrt.Stamp()
	err := e.closeW()
	w.progress.Add(1)
	ws.log.addf("[%d..%d] CloseWrite() = %s", s0, simrt.Stamp(), errKind(err))
	if err != nil {
		ws.wErr, ws.wErrText = "close-"+errKind(err), err.Error()
	}
}

// reader task
func (c *chanState) reader(e *end) {
	w := c.w
	defer func() {
		c.rDone.Store(true)
		w.taskDone()
	}()
	simrt.Recv("gate", w.gate)
	p := c.p
	lay := w.layer()
	if c.arena == nil {
		c.arena = w.arena(c.stream*2 + c.dir)
	}
	if p.startDelay > 0 {
		simrt.TimeSleep(p.startDelay)
	}
	for i := 0; ; i++ {
		spec := p.bufs[i%len(p.bufs)]
		size := c.resolve(spec)
		full := c.arena[: size+spec.slack : size+spec.slack]
		buf := full[:size]
		fillN := min(size, p.total-c.off+64)
		if fillN < 0 {
			fillN = 0
		}
		if p.dual {
			for j := 0; j < fillN; j++ {
				buf[j] = 0x5c
			}
		} else {
			copy(buf[:fillN], c.t.neg[c.off:c.off+fillN])
		}
		for j := size; j < len(full); j++ {
			full[j] = slackByte(j - size)
		}
		if p.deadline > 0 && !c.noDeadline {
			e.setRDL(time.Now().Add(p.deadline))
		}
		startOff := c.off
		rem := c.frameRem(c.off)
		fresh := c.atFrameStart(c.off)
		s0 := simrt.Stamp()
		n, err := e.rw.Read(buf)
		s1 := simrt.Stamp()
		w.progress.Add(1)
		c.reads++
		kind := errKind(err)
		if n != 0 || err != nil || c.zeroRun == 0 {
			c.rlog.addf("[%d..%d] Read(buf %d, cap %d) @%d = %d, %s", s0, s1, size, len(full), startOff, n, kind)
		}
		// --- oracles on this call ---
		if n < 0 || n > size {
			c.violate("C02/read-count-out-of-range/"+lay+c.ctx(), "Read with a %d-byte buffer at offset %d returned n=%d", size, startOff, n)
			c.rEnd = "violation"
			return
		}
		for j := size; j < len(full); j++ {
			if full[j] != slackByte(j-size) {
				c.violate("C02/read-wrote-past-buffer/"+lay+c.ctx(), "Read with a %d-byte buffer (cap %d) at offset %d changed byte %d beyond len(buf)", size, len(full), startOff, j)
				c.rEnd = "violation"
				return
			}
		}
		if n > 0 {
			good := false
			if p.dual {
				good = c.checkDual(buf[:n], startOff, size, e)
			} else {
				good = c.checkData(buf[:n], startOff, size)
			}
			if !good {
				c.rEnd = "violation"
				return
			}
			c.off += n
			c.dataReads++
			c.zeroRun = 0
			if !p.dual {
				c.probesOnData(size, n, rem, fresh && !c.zeroQueued, startOff)
			}
			c.zeroQueued = false
		}
		if size == 0 {
			// a zero-length Read returns 0 (checked above: n <= len(buf)) and changes nothing: whatever it did to the
			// layer's state shows in the reads that follow
			w.probe("zero-length-read")
			if rem > 0 && !fresh && !isQuicLayer(w.p.layer) {
				w.probe("zero-length-read-inside-a-frame")
			}
			if w.p.layer == layNoise && fresh && err == nil {
				c.zeroQueued = true
			}
		}
		if err == nil {
			if n == 0 && size > 0 {
				// io.Reader allows (0, nil) ("nothing happened"); only an endless run of them is no progress
				w.probe("zero-byte-read")
				c.zeroRun++
				if c.zeroRun > 8 {
					c.violate("C02/read-no-progress/"+lay+c.ctx(), "%d consecutive Reads with a non-empty buffer returned (0, nil) at offset %d", c.zeroRun, c.off)
					c.rEnd = "violation"
					return
				}
			}
			continue
		}
		switch kind {
		case "eof":
			c.rEnd = "eof"
			c.eofClosing = c.closing.Load()
			c.eofOff = c.off
			c.eofWithData = n > 0
			c.afterEOF(e)
			return
		case "timeout":
			if p.deadline == 0 {
				c.rEnd, c.rErrText = "error:timeout", err.Error()
				return
			}
			c.hadTimeout = true
			c.timeouts++
			w.probe("read-timeout")
			if e.rawIn != nil && c.midFrame(e.rawIn()) {
				// OBSERVATION, not an oracle: see deadlineObservation in sim_test.go. The connection has lost its
				// place in the stream; what a further Read returns depends on ciphertext bytes (crypto/rand), so
				// the reader stops here, which also keeps the run a pure function of the tape.
				w.probe(deadlineObservation + lay)
				c.rlog.addf("OBSERVATION: the read deadline expired after %d raw bytes, in the middle of a frame / of the nonce: the connection is desynchronised, reader stops", e.rawIn())
				c.rEnd = "deadline-mid-frame"
				return
			}
			if c.timeouts > p.retries {
				if w.p.stratum == stStall && !isQuicLayer(w.p.layer) {
					c.rEnd = "gave-up"
					return
				}
				if !c.noDeadline {
					c.noDeadline = true
					e.setRDL(time.Time{})
				} else if c.timeouts > p.retries+3 {
					// a sticky timeout error (the layer does not resume after a deadline)
					c.rEnd, c.rErrText = "error:timeout", err.Error()
					return
				}
			}
			continue
		default:
			c.rEnd, c.rErrText = "error:"+kind, err.Error()
			if w.mitm != nil && w.mitm.fired.Load() {
				w.probe("tamper-detected")
			}
			return
		}
	}
}

// checkData: the bytes just read continue the planned stream at offset off, and had been handed to Write.
func (c *chanState) checkData(got []byte, off, size int) bool {
	w := c.w
	lay := w.layer()
	n := len(got)
	if int64(off+n) > c.attempted.Load() {
		c.violate("C02/more-than-written/"+lay+c.ctx(), "Read returned %d bytes at offset %d but only %d bytes had been handed to Write", n, off, c.attempted.Load())
		return false
	}
	exp := c.t.exp[off : off+n]
	if string(got) != string(exp) {
		k := 0
		for got[k] == exp[k] {
			k++
		}
		c.violate("C02/wrong-bytes/"+lay+c.ctx(),
			"Read #%d (buffer %d) returned %d bytes for offsets %d..%d; first wrong byte at stream offset %d (call-relative %d): got %#02x want %#02x; the bytes from there %s",
			c.reads, size, n, off, off+n-1, off+k, k, got[k], exp[k], locate(w.p, got[k:]))
		return false
	}
	return true
}

// afterEOF: further reads keep returning an error and never data.
func (c *chanState) afterEOF(e *end) {
	w := c.w
	for k := 0; k < c.p.postEOF; k++ {
		buf := c.arena[:16]
		if c.p.dual {
			copy(buf, "\x5c\x5c\x5c\x5c\x5c\x5c\x5c\x5c\x5c\x5c\x5c\x5c\x5c\x5c\x5c\x5c")
		} else {
			copy(buf, c.t.neg[c.off:c.off+16])
		}
		if e.setRDL != nil {
			e.setRDL(time.Now().Add(time.Second))
		}
		s0 := simrt.Stamp()
		n, err := e.rw.Read(buf)
		w.progress.Add(1)
		c.rlog.addf("[%d..%d] Read(buf 16) after EOF @%d = %d, %s", s0, simrt.Stamp(), c.off, n, errKind(err))
		if n < 0 || n > 16 {
			c.violate("C02/read-count-out-of-range/"+w.layer()+c.ctx(), "Read after EOF with a 16-byte buffer returned n=%d", n)
			return
		}
		if n != 0 {
			// judged at the end of the run (premature EOF or data after the end)
			good := false
			if c.p.dual {
				good = c.advanceDual(buf[:n]) == nil
			} else {
				good = int64(c.off+n) <= c.attempted.Load() && string(buf[:n]) == string(c.t.exp[c.off:c.off+n])
			}
			if c.afterEOFData == 0 {
				c.afterEOFGood = good
			} else {
				c.afterEOFGood = c.afterEOFGood && good
			}
			c.afterEOFData += n
			if good {
				c.off += n
			} else {
				return
			}
			continue
		}
		w.probe("read-after-eof")
	}
}

func (c *chanState) probesOnData(size, n, rem int, fresh bool, startOff int) {
	w := c.w
	// this side's own writer (the opposite direction of the same stream) had already half-closed
	if w.sideClosed[c.stream][1-c.dir].Load() {
		w.probe("data-read-after-own-half-close")
	}
	if w.p.layer == layNoise && rem > 0 {
		// which of the three read paths of noise/rw.go this call took follows from the frame format
		switch {
		case !fresh:
			w.probe("noise-queued-remainder")
		case size >= rem+16:
			w.probe("noise-in-place")
		case size >= rem:
			w.probe("noise-pooled-whole-frame")
		default:
			w.probe("noise-pooled-partial")
		}
		edge1 := size == 1 && rem == 1
		if c.prevEdge1 && size == 1 && fresh {
			w.probe("one-byte-reads-across-frame-edge")
		}
		c.prevEdge1 = edge1
	}
	if n < size && n < rem {
		w.probe("short-read")
	}
}

// ---- dual mode: two writer tasks on one connection ------------------------------------------------
//
// READING TAKEN (said in the header too): with several goroutines writing to one connection - which net.Conn
// explicitly allows - "in order" can only mean per Write call: the bytes of one accepted Write arrive contiguous and
// complete, whole writes of the two writers may follow each other in any order that keeps each writer's own order.
// The reader keeps every admissible parse of what it has read so far (more than one only while the first bytes of
// both writers' next writes coincide); when none is left the stream is not such a concatenation.

type dcand struct {
	next [2]int // per writer: index of its next write that has not been fully read
	cur  int    // writer whose write is being read, -1 = on a boundary between writes
	pos  int    // bytes of that write read so far
}

type dmiss struct { // where a parse died (for the diagnosis)
	at       int // bytes of this call consumed before the mismatch
	wi, idx  int
	pos, len int
	boundary bool // died on a boundary: no pending write starts with these bytes
}

// advanceDual advances every admissible parse over got; nil = at least one survives, otherwise the parse that got furthest.
func (c *chanState) advanceDual(got []byte) *dmiss {
	if c.dc == nil {
		c.dc = []dcand{{cur: -1}}
	}
	var out []dcand
	var best *dmiss
	seen := map[dcand]bool{}
	var walk func(cd dcand, at int)
	walk = func(cd dcand, at int) {
		for {
			if cd.cur < 0 {
				// skip zero-length writes (they put nothing on the wire)
				for wi := 0; wi < 2; wi++ {
					ws, _ := c.writesOf(wi)
					for cd.next[wi] < len(ws) && ws[cd.next[wi]] == 0 {
						cd.next[wi]++
					}
				}
				if at == len(got) {
					if !seen[cd] {
						seen[cd] = true
						out = append(out, cd)
					}
					return
				}
				forked := false
				for wi := 0; wi < c.nWriters(); wi++ {
					ws, _ := c.writesOf(wi)
					idx := cd.next[wi]
					// a write can only show up once its Write call has begun
					if idx < len(ws) && int(c.ws[wi].started.Load()) > idx && got[at] == wbyte(c.stream, c.dir, wi, idx, 0) {
						nc := cd
						nc.cur, nc.pos = wi, 0
						walk(nc, at)
						forked = true
					}
				}
				if !forked && (best == nil || at >= best.at) {
					best = &dmiss{at: at, boundary: true, wi: -1}
				}
				return
			}
			ws, _ := c.writesOf(cd.cur)
			idx := cd.next[cd.cur]
			sz := ws[idx]
			for cd.pos < sz && at < len(got) {
				if got[at] != wbyte(c.stream, c.dir, cd.cur, idx, cd.pos) {
					if c.ws[cd.cur].failed.Load() && idx == int(c.ws[cd.cur].started.Load())-1 {
						// that Write failed: its bytes may stop anywhere
						nc := cd
						nc.next[cd.cur]++
						nc.cur, nc.pos = -1, 0
						walk(nc, at)
					}
					if best == nil || at >= best.at {
						best = &dmiss{at: at, wi: cd.cur, idx: idx, pos: cd.pos, len: sz}
					}
					return
				}
				cd.pos++
				at++
			}
			if cd.pos == sz {
				cd.next[cd.cur]++
				cd.cur, cd.pos = -1, 0
				continue
			}
			if !seen[cd] {
				seen[cd] = true
				out = append(out, cd)
			}
			return
		}
	}
	for _, cd := range c.dc {
		walk(cd, 0)
	}
	if len(out) == 0 {
		if best == nil {
			best = &dmiss{boundary: true, wi: -1}
		}
		return best
	}
	c.dc = out
	return nil
}

func (c *chanState) checkDual(got []byte, off, size int, e *end) bool {
	w := c.w
	lay := w.layer()
	m := c.advanceDual(got)
	if m == nil {
		if len(c.dc) > 1 {
			w.probe("dual-ambiguous-parse")
		}
		return true
	}
	// diagnosis: do the bytes at the point of divergence begin a pending write of the OTHER writer? A few more bytes
	// are read for that when the call ended too close to it.
	tail := append([]byte(nil), got[m.at:]...)
	for k := 0; k < 3 && len(tail) < 12; k++ {
		buf := make([]byte, 16)
		if e.setRDL != nil {
			e.setRDL(time.Now().Add(time.Second))
		}
		n, err := e.rw.Read(buf)
		if n > 0 && n <= 16 {
			tail = append(tail, buf[:n]...)
		}
		if err != nil {
			break
		}
	}
	if e.setRDL != nil {
		e.setRDL(time.Time{})
	}
	startOf := ""
	for wi := 0; wi < c.nWriters() && startOf == ""; wi++ {
		ws, _ := c.writesOf(wi)
		for idx, sz := range ws {
			if wi == m.wi && idx == m.idx {
				continue
			}
			k := min(len(tail), sz, 12)
			if k < 1 {
				continue
			}
			match := true
			for j := 0; j < k; j++ {
				if tail[j] != wbyte(c.stream, c.dir, wi, idx, j) {
					match = false
					break
				}
			}
			// a short intruder: what follows it must be the rest of the interrupted write
			cont := 0
			if match && k == sz && !m.boundary {
				for cont < 8 && k+cont < len(tail) && m.pos+cont < m.len {
					if tail[k+cont] != wbyte(c.stream, c.dir, m.wi, m.idx, m.pos+cont) {
						match = false
						break
					}
					cont++
				}
			}
			if k+cont < 2 {
				match = false
			}
			if match {
				startOf = fmt.Sprintf("the beginning of write #%d of writer %d (%d bytes)", idx, wi, sz)
				break
			}
		}
	}
	where := fmt.Sprintf("Read #%d (buffer %d) returned %d bytes at stream offset %d; ", c.reads, size, len(got), off)
	switch {
	case !m.boundary && startOf != "":
		c.violate("C02/write-not-atomic/"+lay+c.ctx(), "%sat stream offset %d, %d bytes into write #%d of writer %d (%d bytes, accepted by one Write call), the stream goes on with %s: the write was cut in two by a concurrent Write on the same connection (or its remainder was dropped)",
			where, off+m.at, m.pos, m.idx, m.wi, m.len, startOf)
	case !m.boundary:
		c.violate("C02/wrong-bytes/"+lay+"/two-writers"+c.ctx(), "%sfirst wrong byte at stream offset %d, %d bytes into write #%d of writer %d (%d bytes): got %#02x want %#02x", where, off+m.at, m.pos, m.idx, m.wi, m.len, got[m.at], wbyte(c.stream, c.dir, m.wi, m.idx, m.pos))
	default:
		c.violate("C02/wrong-bytes/"+lay+"/two-writers"+c.ctx(), "%sat stream offset %d, on a boundary between writes, the stream goes on with bytes that begin no pending write of either writer (got %#02x)", where, off+m.at, got[m.at])
	}
	return false
}
