package c02

// The payload byte at (stream, direction, offset) is a keyed function, so any misplacement
// (gap, duplicate, reordering, bytes of another stream or direction) is located exactly.
// The tables are a pure function of (stream, dir) and are cached across runs.

func pbyte(stream, dir, off int) byte {
	x := uint32(off)*2654435761 + uint32(stream*2+dir+1)*0x85ebca6b
	x ^= x >> 15
	x *= 0x2c1b3c6d
	x ^= x >> 12
	x *= 0x297a2d39
	x ^= x >> 15
	return byte(x)
}

const tableGuard = 256

type table struct {
	exp []byte // expected stream (reference, never handed to the code under test)
	neg []byte // complement of exp: pre-fill of read buffers, so a byte Read did not write is always wrong
	src []byte // what writers pass to Write (a separate copy)
}

// slots 0-7: streams 0-3 of the main phase; slots 8-9: the sacrificial sessions of the prelude (stream index 4)
var tables [10]*table

// tab returns the table of (stream, dir) covering at least n+tableGuard bytes.
func tab(stream, dir, n int) *table {
	k := stream*2 + dir
	t := tables[k]
	if t == nil {
		t = &table{}
		tables[k] = t
	}
	need := n + tableGuard
	if len(t.exp) < need {
		size := max(need, 2*len(t.exp), 1<<12)
		old := len(t.exp)
		t.exp = append(t.exp, make([]byte, size-old)...)
		t.neg = append(t.neg, make([]byte, size-old)...)
		t.src = append(t.src, make([]byte, size-old)...)
		for i := old; i < size; i++ {
			b := pbyte(stream, dir, i)
			t.exp[i], t.neg[i], t.src[i] = b, ^b, b
		}
	}
	return t
}

// locate says where else in the run's planned streams a wrong run of bytes comes from (diagnosis only).
func locate(p *plan, got []byte) string {
	if len(got) < 4 {
		return "too short to attribute"
	}
	if len(got) > 16 {
		got = got[:16]
	}
	for s := 0; s < p.nstreams; s++ {
		for d := 0; d < 2; d++ {
			t := tab(s, d, p.ch[s][d].total)
			lim := p.ch[s][d].total
		next:
			for o := 0; o+len(got) <= lim; o++ {
				if t.exp[o] != got[0] {
					continue
				}
				for i := 1; i < len(got); i++ {
					if t.exp[o+i] != got[i] {
						continue next
					}
				}
				return "equals the planned bytes of " + chanID(s, d) + " at offset " + itoa(o)
			}
		}
	}
	return "matches no planned bytes of any stream (foreign / garbled)"
}

func itoa(n int) string {
	if n == 0 {
		return "0"
	}
	neg := n < 0
	if neg {
		n = -n
	}
	var b [20]byte
	i := len(b)
	for n > 0 {
		i--
		b[i] = byte('0' + n%10)
		n /= 10
	}
	if neg {
		i--
		b[i] = '-'
	}
	return string(b[i:])
}
