package c02

import (
	"fmt"
	"strings"
	"time"

	"verifsim/simnet"
	"verifsim/simrt"
)

// Everything a run does is decided here, from the G stream, before the bubble starts.

const (
	noiseMaxPlain = 65519 // noise.MaxPlaintextLength
	noiseMaxFrame = 65535 // noise.MaxTransportMsgLength
	yamuxWindow   = 256 * 1024
)

// layers (strata); 0 is the simplest
const (
	layNoise     = iota // Noise session over a raw pipe
	layTLS              // TLS conn over a raw pipe
	layPnet             // PSK conn over a raw pipe (not authenticated: no adversary stratum)
	layMuxNoise         // swarm streams: yamux over Noise through the real upgrader (two swarms)
	layMuxTLS           // ... over TLS
	layHostNoise        // basic-host streams (lazy multistream streamWrapper) over yamux over Noise
	layHostTLS          // ... over TLS
	layHostQuic         // basic-host streams over a QUIC connection (quic-go: its own TLS 1.3 and its own streams) over simulated UDP
	nLayers
)

var layerName = [...]string{"noise", "tls", "pnet", "mux-noise", "mux-tls", "host-noise", "host-tls", "host-quic"}

func isQuicLayer(l int) bool { return l == layHostQuic }

func isConnLayer(l int) bool { return l <= layPnet }
func isTLSLayer(l int) bool  { return l == layTLS || l == layMuxTLS || l == layHostTLS }
func isHostLayer(l int) bool { return l == layHostNoise || l == layHostTLS || l == layHostQuic }

// fault strata
const (
	stClean     = iota // fragmentation only: complete delivery is demanded
	stTiming           // link latency, reader deadlines with retry, writer pauses
	stStall            // one raw endpoint stops receiving at its k-th I/O call; readers use deadlines
	stAdversary        // frame-aware man in the middle on the raw connection (authenticated layers only)
	stPeerClose        // no fault at all: one side closes the whole connection as soon as it has finished, the other side's readers lag
)

var stratumName = [...]string{"clean", "timing", "stall", "adversary", "peer-close"}

// adversary actions
const (
	advFlip = iota
	advDrop
	advDup
	advSwap
	advTruncate
)

var advName = [...]string{"flip", "drop", "dup", "swap", "truncate"}

type bufSpec struct {
	rel   bool // size = bytes left in the pending (notional Noise) frame + 16 + v
	v     int  // absolute size, or delta
	slack int  // capacity beyond len (canary area)
}

func (b bufSpec) String() string {
	s := fmt.Sprint(b.v)
	if b.rel {
		s = fmt.Sprintf("frame%+d", b.v)
	}
	if b.slack > 0 {
		s += fmt.Sprintf("(+%d)", b.slack)
	}
	return s
}

type chanPlan struct {
	writes     []int
	pauses     []time.Duration // before write i (len = len(writes)+1: the last one precedes the close)
	wdl        wdlPlan
	dual       bool // a second writer task writes writes2 on the same connection at the same time
	writes2    []int
	pauses2    []time.Duration
	total      int
	bufs       []bufSpec
	deadline   time.Duration // 0 = reader sets no deadline
	retries    int
	startDelay time.Duration // the reader starts late (slow consumer)
	postEOF    int
	frames     []int // cumulative ends of the notional Noise frames of the planned writes
}

type advPlan struct {
	on       bool
	toDialer bool // direction attacked: false = A->B (towards the listener end), true = B->A
	k        int  // index of the attacked frame, counted from the instant the adversary is armed
	action   int
	pos      int // flip: 0 first body byte, 1 last byte (tag), 2 middle, 3 last header byte, 4 first header byte; truncate: 0 at frame start, 1 mid-frame
	bit      byte
}

func (a advPlan) String() string {
	if !a.on {
		return "none"
	}
	d := "A>B"
	if a.toDialer {
		d = "B>A"
	}
	s := fmt.Sprintf("%s frame %d of %s", advName[a.action], a.k, d)
	if a.action == advFlip {
		s += fmt.Sprintf(" pos=%d mask=%#02x", a.pos, a.bit)
	}
	if a.action == advTruncate {
		s += fmt.Sprintf(" pos=%d", a.pos)
	}
	return s
}

type stallPlan struct {
	on    bool
	sideB bool
	k     int // fires at the endpoint's k-th I/O call after arming
}

type closePlan struct {
	on     bool
	sideB  bool          // which side closes its end of the connection once all ITS tasks are done
	delay  time.Duration // after that instant
	abrupt bool          // stream layers: the side does not wait for its tasks but closes the connection at time `at`,
	at     time.Duration // in the middle of whatever is going on (a peer that goes away): everybody gets errors, nobody wrong data
}

// sacPlan is one sacrificial bare Noise session of the prelude (Noise-based layers): A writes one frame of size
// bytes, B reads first bytes of it (so that the rest of the decrypted frame stays queued inside the session), then B
// closes the session while that plaintext is queued and carries out ops on the closed session.
type sacPlan struct {
	size  int   // plaintext of the single frame (2..65519)
	first int   // size of B's first read (< size)
	ops   []int // after the first Close: 0 = Close again, 1 = Read with a small buffer, 2 = Read until error (drains the queue)
}

// udpPlan (QUIC layer): what the simulated UDP wire does to datagrams during the data phase, until heal.
type udpPlan struct {
	drop, dup int // permille
	lat       []time.Duration
}

// QUIC adversary: per datagram of the data phase, with probability rate/1000, one action.
const (
	qFlipHeader = iota // one bit in the first bytes (flags, connection id, packet number)
	qFlipMiddle        // one bit in the middle of the protected payload
	qFlipTag           // one bit in the last 16 bytes (AEAD tag)
	qTruncate          // the datagram is cut short
	qAppend            // 1-16 bytes are appended
	qReplay            // an older datagram of the same flow travels in its place
	qSwap              // the datagram is held back, the next one overtakes it, it travels in place of the one after (which is lost)
	qDrop              // nil
	qMixed             // any of the above, drawn per datagram
)

var qadvName = [...]string{"flip-header", "flip-middle", "flip-tag", "truncate", "append", "replay", "swap", "drop", "mixed"}

type qadvPlan struct {
	on     bool
	rate   int // permille of datagrams attacked
	action int
}

// sickPlan is one sacrificial raw dial to the shared-TCP listener before the real connection: the dialer sends the first
// `bytes` bytes of a connection (of a multistream header, or garbage) and then the connection ends the way drawn, so that
// sampledconn's three-byte peek meets EOF after 0/1/2 bytes, a reset, or bytes it cannot classify.
type sickPlan struct {
	bytes   int  // 0..4
	garbage bool // not the beginning of "\x13/multistream/1.0.0\n"
	end     int  // 0 = dialer closes, 1 = dialer half-closes and closes later, 2 = the listener's end sees a reset at its k-th I/O call
	k       int  // 1..3
}

type plan struct {
	// TCP mux / host layers, drawn last: the LISTENING node runs the real TcpTransport.Listen with a tcpreuse.ConnMgr -
	// demultiplexing listener and sampledconn (three bytes peeked and handed back) under everything it reads
	sharedTCP bool
	peekTiny  bool // ... and the first deliveries to the listener's end are 1-3 bytes each (the peek meets short reads)
	sick      []sickPlan

	udp      udpPlan
	qadv     qadvPlan
	heal     time.Duration // QUIC layer: wire faults and the adversary stop this long after the data phase began
	randSeed uint64        // QUIC layer: seed of the run's crypto/rand (simrand)
	sac      []sacPlan
	ewd      [2]bool // raw endpoint A / B returns the last bytes of the stream together with io.EOF in one Read call
	pclose   closePlan
	layer    int
	stratum  int
	mode     simnet.LinkMode // chunking of the data phase
	nstreams int
	ch       [][2]chanPlan // [stream][dir]  dir 0 = A->B, 1 = B->A
	adv      advPlan
	stall    stallPlan
	lat      []time.Duration
}

func (p *plan) describe() []string {
	var out []string
	out = append(out, fmt.Sprintf("layer=%s stratum=%s link=%s streams=%d adversary=[%s] stall=%+v peer-close=%+v latencies=%v",
		layerName[p.layer], stratumName[p.stratum], modeName(p.mode), p.nstreams, p.adv, p.stall, p.pclose, p.lat))
	if isQuicLayer(p.layer) {
		qa := "none"
		if p.qadv.on {
			qa = fmt.Sprintf("%s on %d permille of the datagrams", qadvName[p.qadv.action], p.qadv.rate)
		}
		out = append(out, fmt.Sprintf("  QUIC wire during the data phase: loss=%d/1000 duplication=%d/1000 latencies=%v adversary=[%s]; all of it stops %v after the data phase began", p.udp.drop, p.udp.dup, p.udp.lat, qa, p.heal))
	}
	if p.sharedTCP {
		out = append(out, fmt.Sprintf("  listener B: shared TCP (tcpreuse demultiplexer + sampledconn peek); first deliveries to it 1-3 bytes: %v; sick dials before the real one: %+v", p.peekTiny, p.sick))
	}
	out = append(out, fmt.Sprintf("  raw endpoints return (n>0, io.EOF) for the last bytes: A=%v B=%v", p.ewd[0], p.ewd[1]))
	for i, sp := range p.sac {
		out = append(out, fmt.Sprintf("  prelude %d: sacrificial Noise session: A writes one %d-byte frame, B reads %d bytes, Close, then ops %v (0=Close 1=Read small 2=Read until error)", i, sp.size, sp.first, sp.ops))
	}
	for s := range p.ch {
		for d := 0; d < 2; d++ {
			c := &p.ch[s][d]
			var bs []string
			for _, b := range c.bufs {
				bs = append(bs, b.String())
			}
			if c.wdl.on {
				out = append(out, fmt.Sprintf("  plan %s: write #%d gets a write deadline (ahead by %v; 0 = already passed); on a timeout the writer clears it and continues from b[n:]", chanID(s, d), c.wdl.idx, c.wdl.ahead))
			}
			if c.dual {
				out = append(out, fmt.Sprintf("  plan %s: SECOND WRITER TASK on the same connection: writes=%v pauses=%v (payload keyed per write)", chanID(s, d), c.writes2, c.pauses2))
			}
			out = append(out, fmt.Sprintf("  plan %s: writes=%v pauses=%v total=%d | read bufs cycle=[%s] deadline=%v retries=%d start-delay=%v postEOF=%d",
				chanID(s, d), c.writes, c.pauses, c.total, strings.Join(bs, " "), c.deadline, c.retries, c.startDelay, c.postEOF))
		}
	}
	return out
}

func modeName(m simnet.LinkMode) string {
	return [...]string{"whole", "fragment", "tiny"}[m]
}

func chanID(stream, dir int) string {
	return fmt.Sprintf("s%d/%s", stream, [...]string{"A>B", "B>A"}[dir])
}

var (
	timingLat    = []time.Duration{0, 0, 0, 200 * time.Microsecond, 2 * time.Millisecond, 9 * time.Millisecond}
	readDeadline = []time.Duration{time.Millisecond, 5 * time.Millisecond, 3 * time.Second}
	writePause   = []time.Duration{0, 0, 0, time.Millisecond, 20 * time.Millisecond, 8 * time.Second}
)

func genPlan(g simrt.Gen) *plan {
	p := &plan{}
	// the QUIC layer was appended: small tape values (minimised replays) keep their meaning
	p.layer = g.Weighted(6, 3, 2, 3, 2, 3, 2, 4)
	p.stratum = g.Weighted(5, 2, 1, 4, 2)
	if p.stratum == stAdversary && p.layer == layPnet {
		p.stratum = stTiming // the PSK stream cipher is not authenticated: fidelity part only
	}
	p.mode = simnet.LinkMode(g.Weighted(2, 5, 2))
	small := p.mode == simnet.Tiny
	p.nstreams = 1
	if !isConnLayer(p.layer) {
		p.nstreams = 1 + g.Weighted(4, 3, 2, 1)
	}
	if p.stratum == stTiming && !isQuicLayer(p.layer) {
		p.lat = timingLat
	}
	budget := 700000
	p.ch = make([][2]chanPlan, p.nstreams)
	for s := 0; s < p.nstreams; s++ {
		for d := 0; d < 2; d++ {
			p.ch[s][d] = genChan(g, p, small, &budget)
		}
	}
	if isQuicLayer(p.layer) {
		genQuic(g, p)
		genWdl(g, p)
		return p
	}
	switch p.stratum {
	case stAdversary:
		p.adv.on = true
		p.adv.toDialer = g.Bool()
		p.adv.k = g.Weighted(5, 4, 3, 2, 2, 1, 1, 1, 1, 1)
		p.adv.action = g.Int(5)
		p.adv.pos = g.Int(5)
		if p.adv.action == advTruncate {
			p.adv.pos %= 2
		}
		p.adv.bit = 1 << g.Int(8)
	case stStall:
		p.stall.on = true
		p.stall.sideB = g.Bool()
		p.stall.k = 1 + g.Int(30)
	case stPeerClose:
		p.pclose.on = true
		p.pclose.sideB = g.Bool()
		p.pclose.delay = []time.Duration{0, time.Millisecond, time.Second}[g.Int(3)]
		genAbrupt(g, p)
	}
	p.ewd[0], p.ewd[1] = g.Chance(1, 3), g.Chance(1, 3)
	if p.layer == layNoise || p.layer == layMuxNoise || p.layer == layHostNoise {
		genSac(g, p)
	}
	// drawn last so that every earlier draw keeps its meaning
	if !isConnLayer(p.layer) {
		p.sharedTCP = g.Bool()
		if p.sharedTCP {
			p.peekTiny = g.Bool()
			for k := g.Weighted(3, 2, 1); k > 0; k-- {
				p.sick = append(p.sick, sickPlan{bytes: g.Int(5), garbage: g.Chance(1, 3), end: g.Int(3), k: 1 + g.Int(3)})
			}
		}
	}
	genWdl(g, p)
	return p
}

func genAbrupt(g simrt.Gen, p *plan) {
	if !isConnLayer(p.layer) && g.Chance(1, 2) {
		p.pclose.abrupt = true
		p.pclose.at = []time.Duration{0, time.Millisecond, 20 * time.Millisecond, time.Second, 3 * time.Second}[g.Int(5)]
	}
}

var quicLat = [][]time.Duration{nil, {0, time.Millisecond, 15 * time.Millisecond}, {0, 5 * time.Millisecond, 80 * time.Millisecond, 400 * time.Millisecond}}
var quicHeal = []time.Duration{20 * time.Millisecond, time.Second, 10 * time.Second, 40 * time.Second}

// genQuic: the fault strata read for QUIC. clean = a perfect wire; timing = latency per datagram copy (reordering) plus
// the reader deadlines / writer pauses / late readers of the timing stratum; "stall" = the faults UDP really has: loss up
// to 30 %, duplication, reordering; adversary = datagrams rewritten in flight; peer-close as everywhere. Loss and the
// adversary stop after p.heal (liveness is only asserted after that).
func genQuic(g simrt.Gen, p *plan) {
	switch p.stratum {
	case stTiming:
		p.udp.lat = quicLat[1+g.Int(2)]
	case stStall:
		p.udp.drop = []int{30, 120, 300}[g.Int(3)]
		p.udp.dup = []int{0, 50}[g.Int(2)]
		p.udp.lat = quicLat[g.Int(3)]
		p.heal = quicHeal[g.Int(len(quicHeal))]
	case stAdversary:
		p.qadv.on = true
		p.qadv.rate = []int{30, 150, 400}[g.Int(3)]
		p.qadv.action = g.Int(qMixed + 1)
		p.udp.lat = quicLat[g.Int(3)]
		p.heal = quicHeal[g.Int(len(quicHeal))]
	case stPeerClose:
		p.pclose.on = true
		p.pclose.sideB = g.Bool()
		p.pclose.delay = []time.Duration{0, time.Millisecond, time.Second}[g.Int(3)]
		genAbrupt(g, p)
	}
	p.randSeed = uint64(1 + g.Int(1<<16))
}

// genSac draws the prelude: 0-3 sacrificial sessions whose frame sizes are taken from the writes of the main phase
// (so that their buffers fall into the size classes the main phase uses), or small.
func genSac(g simrt.Gen, p *plan) {
	var sizes []int
	for s := range p.ch {
		for d := 0; d < 2; d++ {
			for _, w := range p.ch[s][d].writes {
				if w >= 2 {
					sizes = append(sizes, w)
				}
			}
		}
	}
	for k := g.Weighted(3, 3, 2, 1); k > 0; k-- {
		var sp sacPlan
		sp.size = 2 + g.Int(64)
		if len(sizes) > 0 && g.Chance(3, 4) {
			sp.size = sizes[g.Int(len(sizes))]
			if !isConnLayer(p.layer) {
				sp.size += 12 // a yamux frame = 12-byte header + body
			}
		}
		for sp.size > noiseMaxPlain {
			sp.size -= noiseMaxPlain // the last Noise frame of a chunked write
		}
		if sp.size < 2 {
			sp.size = 2
		}
		sp.first = 1 + g.Int(min(sp.size-1, 64))
		sp.ops = [][]int{{0}, {2}, {1, 0}, {0, 2}, {1, 2}, {}}[g.Int(6)]
		p.sac = append(p.sac, sp)
	}
}

func genWrites(g simrt.Gen, p *plan, small bool, budget *int, nw int) []int {
	stream := !isConnLayer(p.layer)
	var out []int
	for i := 0; i < nw; i++ {
		var sz int
		cls := g.Weighted(4, 1, 2, 3, 3, 2, 2, 1, 1, 2)
		if small && cls >= 3 {
			cls = 3
		}
		switch cls {
		case 0:
			sz = 1 + g.Int(32)
		case 1:
			sz = 0
		case 2:
			sz = 1
		case 3:
			if small {
				sz = 33 + g.Int(400)
			} else {
				sz = 33 + g.Int(5000)
			}
		case 4:
			sz = noiseMaxPlain - 1 + g.Int(3) // 65518..65520: the chunking boundary of Noise Write
		case 5:
			sz = noiseMaxFrame + g.Int(3) // 65535..65537
		case 6:
			sz = 2*noiseMaxPlain - 1 + g.Int(3) // two full frames -1/0/+1
		case 7:
			sz = 3*noiseMaxPlain + 1 + g.Int(2) // three frames + 1(2)
		case 8:
			if stream {
				sz = yamuxWindow - 1 + g.Int(3) // the initial yamux stream window -1/0/+1
			} else {
				sz = 4*noiseMaxPlain + g.Int(2)
			}
		case 9:
			// a yamux data frame (12-byte header + body) that is exactly one maximal Noise frame -1/0/+1
			sz = noiseMaxPlain - 12 - 1 + g.Int(3)
		}
		if sz > *budget {
			sz = 1 + g.Int(32)
		}
		*budget -= sz
		out = append(out, sz)
	}
	return out
}

// computeFrames: the notional Noise frames of the planned writes (of writer 0) and the planned total.
func (c *chanPlan) computeFrames() {
	c.frames, c.total = nil, 0
	end := 0
	for _, w := range c.writes {
		c.total += w
		for w > 0 {
			f := min(w, noiseMaxPlain)
			end += f
			w -= f
			c.frames = append(c.frames, end)
		}
	}
	for _, w := range c.writes2 {
		c.total += w
	}
}

// wdlPlan: writer behaviour "deadline, then carry on" - before write #idx the writer sets a write deadline that has
// already passed (or, on yamux streams, one a few virtual milliseconds ahead while the reader is late and the write is larger
// than the send window); when Write returns a timeout it clears the deadline and CONTINUES FROM b[n:], exactly as the
// returned n says (io.Writer: "the number of bytes written from p"; net.Conn: timeouts are retryable).
type wdlPlan struct {
	on    bool
	idx   int
	ahead time.Duration // 0 = the deadline is already in the past
}

// genWdl is drawn last (after everything else of the plan).
func genWdl(g simrt.Gen, p *plan) {
	if p.stratum != stClean && p.stratum != stTiming {
		return
	}
	budget := 300000
	for s := range p.ch {
		for d := 0; d < 2; d++ {
			c := &p.ch[s][d]
			if c.dual || len(c.writes) == 0 || !g.Chance(1, 3) {
				continue
			}
			c.wdl.on = true
			c.wdl.idx = g.Int(len(c.writes))
			if p.layer == layPnet {
				// only the first Write: a later one that fails has already consumed key stream (see the header: observation)
				c.wdl.idx = 0
			}
			yamux := p.layer == layMuxNoise || p.layer == layMuxTLS || p.layer == layHostNoise || p.layer == layHostTLS
			if yamux && p.mode != simnet.Tiny && budget > 0 && g.Bool() {
				// the deadline expires in the middle of a Write: more than the 256 KiB send window, and a late reader
				c.wdl.ahead = []time.Duration{time.Millisecond, 40 * time.Millisecond}[g.Int(2)]
				c.writes[c.wdl.idx] = yamuxWindow + 1 + g.Int(70000)
				budget -= c.writes[c.wdl.idx]
				if c.startDelay < 2*time.Second {
					c.startDelay = 2 * time.Second
				}
				c.computeFrames()
			}
		}
	}
}

func genChan(g simrt.Gen, p *plan, small bool, budget *int) chanPlan {
	var c chanPlan
	c.writes = genWrites(g, p, small, budget, []int{1, 2, 3, 0, 4, 5}[g.Weighted(3, 3, 2, 1, 1, 1)])
	nw := len(c.writes)
	for _, sz := range c.writes {
		c.total += sz
	}
	c.pauses = make([]time.Duration, nw+1)
	if p.stratum == stTiming || p.stratum == stStall {
		for i := range c.pauses {
			c.pauses[i] = writePause[g.Int(len(writePause))]
		}
		if g.Chance(3, 4) {
			c.deadline = readDeadline[g.Int(len(readDeadline))]
			c.retries = 1 + g.Int(12)
		}
		if p.stratum == stStall && c.deadline == 0 {
			c.deadline = readDeadline[len(readDeadline)-1]
			c.retries = 2
		}
	}
	if p.stratum == stTiming || p.stratum == stPeerClose {
		c.startDelay = []time.Duration{0, 0, 2 * time.Second, 5 * time.Second}[g.Int(4)]
	}
	// Two writer tasks on ONE bare secured connection (net.Conn: "Multiple goroutines may invoke methods on a Conn
	// simultaneously"): the second writer has its own list of writes. No reader deadlines here: the order of the
	// writes, hence the frame boundaries the deadline observation needs, is not known in advance.
	if isConnLayer(p.layer) && p.stratum != stStall && g.Chance(1, 3) {
		c.dual = true
		c.writes2 = genWrites(g, p, small, budget, 1+g.Int(3))
		c.pauses2 = make([]time.Duration, len(c.writes2)+1)
		for _, sz := range c.writes2 {
			c.total += sz
		}
		if p.stratum == stTiming {
			for i := range c.pauses2 {
				c.pauses2[i] = writePause[g.Int(len(writePause))]
			}
		}
		c.deadline, c.retries = 0, 0
	}
	c.computeFrames()
	// read buffer cycle
	slack := func() int { return []int{0, 1, 16, 64}[g.Int(4)] }
	if g.Chance(1, 3) {
		// edge pattern: one read that leaves j bytes of the pending frame, then tiny reads across the edge
		j := g.Int(4)
		c.bufs = append(c.bufs, bufSpec{rel: true, v: -16 - j, slack: slack()})
		if g.Chance(1, 3) {
			c.bufs = append(c.bufs, bufSpec{v: 0, slack: slack()}) // a zero-length Read while the rest of the frame is queued
		}
		for m := 1 + g.Int(6); m > 0; m-- {
			c.bufs = append(c.bufs, bufSpec{v: 1 + g.Int(2), slack: slack()})
		}
	} else {
		for m := 1 + g.Int(5); m > 0; m-- {
			var b bufSpec
			switch g.Weighted(3, 2, 2, 4, 2, 1, 2, 2) {
			case 7:
				b.v = 0 // zero-length buffer: must return 0 and change nothing
			case 0:
				b.v = 4096
			case 1:
				b.v = 1 + g.Int(2)
			case 2:
				b.v = 15 + g.Int(3)
			case 3:
				b.rel = true
				b.v = -17 + g.Int(19) // frame-17 .. frame+1 (frame = ciphertext length of the pending frame)
			case 4:
				b.v = 65535 + g.Int(3)
			case 5:
				b.v = 1 << 20
			case 6:
				b.v = 18 + g.Int(5000)
			}
			b.slack = slack()
			c.bufs = append(c.bufs, b)
		}
	}
	nonzero := false
	for _, b := range c.bufs {
		if b.rel || b.v > 0 {
			nonzero = true
		}
	}
	if !nonzero {
		c.bufs = append(c.bufs, bufSpec{v: 4096})
	}
	c.postEOF = 1 + g.Int(3)
	return c
}
