# orchestrator configuration of the C02 check (loaded by tools/props.py)
from stack import FULL_STACK, FULL_DEPS, QUIC_STACK, QUIC_DEPS, TCPREUSE_STACK, TCPREUSE_ADD, TCPREUSE_PATCH

SPEC = dict(
    pkg="./harness/c02",
    instrument=FULL_STACK + QUIC_STACK + TCPREUSE_STACK,
    overlay_add=TCPREUSE_ADD,
    overlay_patch=TCPREUSE_PATCH,
    deps=FULL_DEPS + QUIC_DEPS,
    level="exploration",
    level_text=("seeded search over layers x write splits x read-buffer sequences x wire fragmentation x schedules of the real "
                "Noise session, TLS conn, PSK conn (raw simnet pipe), swarm streams over yamux over {Noise, TLS} through the real "
                "upgrader, basic-host streams with the lazy multistream streamWrapper (two real nodes) over TCP+{Noise,TLS}+yamux AND over "
                "QUIC (quic-go over a simulated UDP wire with loss, duplication, reordering and a datagram-rewriting adversary); every byte of every "
                "(stream, direction, offset) is a keyed function, compared after every Read; a frame-aware man in the middle "
                "(flip / drop / duplicate / swap / truncate one ciphertext frame) in the adversary stratum. Sampling, not proof."),
    level_note=("trusted: testing/synctest, simnet's TCP model (writes never block below 8 MiB, FIN after everything written), the "
                "overlay rewrite, the keyed payload and the prefix oracle; weaker readings (documented in sim_test.go): a stream cut "
                "on a frame boundary reads as io.EOF on the bare Noise and TLS connections (no authenticated end of stream; crypto/tls "
                "accepts a FIN on a record boundary); after a read deadline expired on a reader only 'never wrong data, EOF only at the "
                "real end' is demanded of it, and a reader of the bare Noise / PSK connection whose deadline expired in the middle of a "
                "frame stops (observation probe, deadlines are outside the property's quantifier); (0, nil) reads are tolerated; after a Write timed out, Noise / TLS / the opener's first (handshake-carrying) host write "
                "cannot resume (observation probes, only 'never wrong data' is left for that direction), pnet gets the deadline on its first Write only; an error wrapping io.EOF after the last byte counts as the end. "
                "Combinations covered: TCP x {Noise, TLS} x yamux (swarm and host streams), QUIC (host streams), the bare Noise / TLS / PSK "
                "connections. The TCP mux/host layers run the listener through the shared-TCP path (real TcpTransport.Listen, tcpreuse demultiplexer, "
                "sampledconn peek) in half of the runs. Not covered: PSK underneath the upgrader (C04 runs it), reads of sampledconn's peeked "
                "bytes with buffer shapes the stack never uses (internal package, only reachable through the listener), a swarm-only "
                "QUIC layer (streams are told apart by protocol id), WebTransport/WebRTC/websocket transports, OS sockets. In QUIC runs two "
                "goroutines per run (crypto/tls's QUIC handshake goroutine calling back into instrumented code) yield without having been "
                "started through an instrumented go statement; the self-test shows the runs are reproducible all the same."),
    technique=("deterministic simulation with fault injection: keyed-payload prefix/equality oracle over generated write/read-size "
               "sequences on five layers of the real stack, seeded lock-level scheduler, fragmenting simulated wire, frame-aware "
               "ciphertext adversary"),
    design_ref="DESIGN.md section 6 (C02)",
    quick_s=50, thorough_s=600,
    rule=("one run = one tape: layer (noise | tls | pnet | swarm streams over yamux over noise|tls | basic-host streams over the same | "
          "basic-host streams over QUIC; for QUIC the fault strata mean: latency/reordering, loss 3-30 % + duplication, datagram adversary "
          "(flip/truncate/append/replay/swap/drop), all stopping 20 ms - 40 s into the data phase), "
          "fault stratum (clean | timing: link latency + reader deadlines with retry + writer pauses + late readers | stall of one raw "
          "endpoint | adversary: one ciphertext frame flipped/dropped/duplicated/swapped/stream truncated | peer-close: one side closes "
          "the connection when it is done while the other side's readers lag), link chunking (whole | fragment | 1-3 bytes), 1-4 streams, "
          "per (stream, direction) 0-5 writes with sizes biased to 0, 1, 65518-65520, 65535-65537, 2x and 3x+1 Noise frames, the yamux "
          "window and the yamux-frame = Noise-frame edge, and a cycle of read-buffer sizes biased to 1, 2, 15-17, pending frame -17..+1, "
          "64Ki+-1, 1Mi with 0-64 bytes of spare capacity; zero-length buffers in the cycle; optionally (clean / timing strata) a write deadline that has passed - or expires in the middle "
          "of a write larger than the yamux window with a late reader - after which the writer lifts it and continues from b[n:]; on bare connections optionally a second writer task per direction (payload keyed per write, "
          "any order of whole writes accepted); per raw endpoint whether the final bytes arrive together with io.EOF; on the TCP mux/host layers whether the listener uses the shared-TCP path "
          "(sampledconn peek; optionally 1-3 byte deliveries into the peek and 0-2 sick dials that end inside it); on "
          "Noise-based layers a prelude of 0-3 sacrificial Noise sessions closed with queued plaintext, closed twice / read after Close; non-trivial = a fault fired or at least two Reads returned data; distinct = "
          "distinct (scheduler decision hash, per-channel planned/accepted/delivered/read-count/end state)"),
    probes=["noise-in-place", "noise-pooled-whole-frame", "noise-pooled-partial", "noise-queued-remainder",
            "write-of-2-or-more-noise-frames", "one-byte-reads-across-frame-edge", "data-read-after-own-half-close",
            "read-after-eof", "tamper-detected", "short-read", "zero-byte-read", "read-timeout", "lazy-multistream-stream",
            "write-reaching-yamux-window",
            "layer-noise", "layer-tls", "layer-pnet", "layer-mux-noise", "layer-mux-tls", "layer-host-noise", "layer-host-tls", "layer-host-quic",
            "quic-wire-faults-survived-every-byte-delivered", "quic-reader-got-an-error-under-wire-faults", "connection-closed-abruptly", "shared-tcp-listener", "write-deadline-then-carry-on", "write-timed-out-part-way",
            "observation:write-deadline-ended-the-session/noise", "observation:write-deadline-ended-the-session/tls",
            "sick-dial-0-bytes", "sick-dial-1-bytes", "sick-dial-2-bytes", "sick-dial-3-bytes", "sick-dial-4-bytes",
            "stratum-clean", "stratum-timing", "stratum-stall", "stratum-adversary", "stratum-peer-close",
            "two-writers-on-one-connection", "zero-length-read", "zero-length-read-inside-a-frame",
            "final-bytes-and-eof-in-one-read", "session-closed-with-queued-plaintext", "session-closed-twice",
            "read-after-close-returned-queued-bytes",
            "observation:read-deadline-expired-mid-frame/noise", "observation:read-deadline-expired-mid-frame/pnet"],
    real=["ALL of the following run as tasks of the seeded scheduler (instrumented: every lock, channel operation, select, go statement is a scheduling point)",
          "noise.Transport / secureSession (handshake, Read, Write)", "libp2ptls.Transport + crypto/tls conn (stdlib, not instrumented)",
          "pnet pskConn", "upgrader (security + muxer negotiation), tcp transport dial path", "go-yamux session and streams + p2p/muxer/yamux glue",
          "shared-TCP path on the listener (half of the TCP mux/host runs): TcpTransport.Listen, tcpreuse ConnMgr + demultiplexing listener, sampledconn",
          "QUIC layer: p2p/transport/quic, quicreuse, quic-go v0.59 (instrumented) with crypto/tls underneath, crypto/rand pinned by simrand",
          "swarm conns and streams", "basic host NewStream / stream handlers / streamWrapper, go-multistream lazy client + server negotiation",
          "identify, eventbus, pstoremem (present, not judged)"],
    stubs=["wire: simnet TCP model (fragmentation, latency, stall, man-in-the-middle hook)",
           "wire: simnet UDP model (loss, duplication, latency per copy, datagram-rewriting adversary)"],
    assume=["virtual clock of testing/synctest", "simnet delivers what was written before a FIN/Close (TCP semantics)",
            "three quiet virtual minutes exceed every timeout on these paths (hang oracle; for QUIC: idle timeout 30 s, keep-alive 15 s, PTO back-off)"],
)
