# orchestrator configuration of the C02 check (loaded by tools/props.py)
from stack import FULL_STACK, FULL_DEPS

SPEC = dict(
    pkg="./harness/c02",
    instrument=FULL_STACK,
    deps=FULL_DEPS,
    level="exploration",
    level_text="todo",
    level_note="todo",
    technique="todo",
    design_ref="DESIGN.md section 6 (C02)",
    quick_s=50, thorough_s=600,
    rule="todo",
    probes=[],
    real=[],
    stubs=[],
    assume=[],
)
