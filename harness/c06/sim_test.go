// C06 — Connected/Disconnected notifications are exactly-once, ordered and truthful.
//
// Lock-level simulation of REAL swarms on simnet (everything instrumented): a swarm S under
// observation and 1-2 peer swarms; tasks dial in both directions, open early streams, close
// locally / remotely / by peer, close S at a drawn point; 1-3 recording notifiees on S with
// adversarial behaviour (block, close the connection from inside Connected/Disconnected, open a
// stream from inside Connected); a subscriber to EvtPeerConnectednessChanged.
package c06

import (
	"context"
	"errors"
	"fmt"
	"net"
	"os"
	"sort"
	"strings"
	"sync"
	"testing"
	"time"

	"github.com/libp2p/go-libp2p/core/control"
	"github.com/libp2p/go-libp2p/core/event"
	"github.com/libp2p/go-libp2p/core/network"
	"github.com/libp2p/go-libp2p/core/peer"
	"github.com/libp2p/go-libp2p/core/peerstore"
	"github.com/libp2p/go-libp2p/core/transport"
	"github.com/libp2p/go-libp2p/p2p/host/eventbus"
	ma "github.com/multiformats/go-multiaddr"

	"verifsim/harness/common"
	"verifsim/simhost"
	"verifsim/simnet"
	"verifsim/simrand"
	"verifsim/simrt"
	"verifsim/simsync"
)

// upgradeGater allows everything and reports connections that reached InterceptUpgraded.
type upgradeGater struct{ f func(network.Conn) }

func (g *upgradeGater) InterceptPeerDial(peer.ID) bool               { return true }
func (g *upgradeGater) InterceptAddrDial(peer.ID, ma.Multiaddr) bool { return true }
func (g *upgradeGater) InterceptAccept(network.ConnMultiaddrs) bool  { return true }
func (g *upgradeGater) InterceptSecured(network.Direction, peer.ID, network.ConnMultiaddrs) bool {
	return true
}
func (g *upgradeGater) InterceptUpgraded(c network.Conn) (bool, control.DisconnectReason) {
	g.f(c)
	return true, 0
}

// closeErrConn closes for real and then reports an error.
type closeErrConn struct{ transport.CapableConn }

var errInjectedClose = errors.New("injected: close reported an error")

func (c closeErrConn) Close() error {
	c.CapableConn.Close()
	return errInjectedClose
}

func (c closeErrConn) CloseWithError(code network.ConnErrorCode) error {
	c.CapableConn.CloseWithError(code)
	return errInjectedClose
}

func TestSim(t *testing.T) { common.Main(t, common.Harness{Property: "C06", Run: run}) }

type call struct{ inv, ret uint64 }

type connRec struct {
	id        string
	peer      int
	conn      network.Conn
	firstSeen uint64
}

// notifiee behaviour per callback
const (
	bReturn = iota
	bSleep
	bCloseConn
	bOpenStream
	nBehaviours
)

type notifiee struct {
	idx          int
	onConn       int
	onDisc       int
	connected    map[string][]call
	disconnected map[string][]call
	h            *harness
}

type harness struct {
	o                  *common.Outcome
	conns              map[string]*connRec
	peerIdx            map[peer.ID]int
	streams            map[string][]uint64 // conn id -> stamps at which S's stream handler was invoked
	activity           int                 // callbacks + events + streams recorded so far
	inflight           int                 // callbacks currently executing
	closeInv, closeRet uint64
}

func (h *harness) see(c network.Conn) *connRec {
	id := c.ID()
	r := h.conns[id]
	if r == nil {
		r = &connRec{id: id, peer: h.peerIdx[c.RemotePeer()], conn: c, firstSeen: simrt.Stamp()}
		h.conns[id] = r
		if strings.Contains(c.RemoteMultiaddr().String(), "/quic-v1") {
			h.o.Probe("quic-connection-seen")
		}
	}
	return r
}

func (n *notifiee) Listen(network.Network, ma.Multiaddr)      {}
func (n *notifiee) ListenClose(network.Network, ma.Multiaddr) {}

func (n *notifiee) Connected(_ network.Network, c network.Conn) {
	r := n.h.see(c)
	n.h.activity++
	n.h.inflight++
	defer func() { n.h.inflight-- }()
	cl := call{inv: simrt.Stamp()}
	switch n.onConn {
	case bSleep:
		simrt.TimeSleep(50 * time.Millisecond)
	case bCloseConn:
		c.Close()
	case bOpenStream:
		ctx, cancel := context.WithTimeout(context.Background(), time.Second)
		if s, err := c.NewStream(ctx); err == nil {
			s.Reset()
		}
		cancel()
	default:
		simrt.Yield("notifiee")
	}
	cl.ret = simrt.Stamp()
	n.connected[r.id] = append(n.connected[r.id], cl)
}

func (n *notifiee) Disconnected(_ network.Network, c network.Conn) {
	r := n.h.see(c)
	n.h.activity++
	n.h.inflight++
	defer func() { n.h.inflight-- }()
	cl := call{inv: simrt.Stamp()}
	switch n.onDisc {
	case bSleep:
		simrt.TimeSleep(50 * time.Millisecond)
	case bCloseConn:
		c.Close()
	default:
		simrt.Yield("notifiee")
	}
	cl.ret = simrt.Stamp()
	n.disconnected[r.id] = append(n.disconnected[r.id], cl)
}

type busEvent struct {
	peer  int
	state network.Connectedness
	stamp uint64
}

func run(t *testing.T, tape *simrt.Tape) *common.Outcome {
	g := simrt.Gen{S: tape.G}
	o := &common.Outcome{}
	h := &harness{o: o, conns: map[string]*connRec{}, peerIdx: map[peer.ID]int{}, streams: map[string][]uint64{}}

	nPeers := g.Range(1, 2)
	nNotif := g.Range(1, 3)
	notifs := make([]*notifiee, nNotif)
	for i := range notifs {
		notifs[i] = &notifiee{idx: i, onConn: g.Weighted(5, 2, 2, 1), onDisc: g.Weighted(6, 2, 1), h: h,
			connected: map[string][]call{}, disconnected: map[string][]call{}}
	}
	slowSub := g.Chance(1, 4)
	subBuf := []int{256, 1, 0}[g.Weighted(4, 1, 1)]
	stall := []int{0, 0, 15, 60}[g.Int(4)]
	type step struct {
		kind  int // 0 S dials P, 1 P dials S (+ early stream), 2 S closes one conn, 3 P closes its conns, 4 S.ClosePeer, 5 S.Close, 6 sleep, 7 P dials S over its LIMITED path (+ early stream), 8 P closes its limited conns
		peer  int
		sleep time.Duration
	}
	nActors := g.Range(2, 5)
	actors := make([][]step, nActors)
	sleeps := []time.Duration{0, time.Millisecond, 20 * time.Millisecond, 200 * time.Millisecond}
	for a := range actors {
		n := g.Range(1, 4)
		for i := 0; i < n; i++ {
			actors[a] = append(actors[a], step{kind: g.Weighted(5, 5, 3, 3, 2, 1, 2, 4, 2), peer: g.Int(nPeers), sleep: sleeps[g.Int(len(sleeps))]})
		}
	}
	// close-race stratum: Swarm.Close is issued by a task of its own after a drawn number of scheduling points,
	// while the actors are dialling — shutdown lands inside in-flight admissions far more often than with the
	// rare "Swarm.Close" actor step
	closeRace := g.Chance(1, 3)
	closeTrigger := g.Int(2) // 0: after closeAfter scheduling points; 1: when an outbound connection of S passes InterceptUpgraded (the last public point before the swarm admits it)
	closeAfter := g.Int(40)
	if closeTrigger == 1 {
		closeAfter = g.Int(6)
	}
	// transport of the DIRECT connections: 0 TCP (insecure + yamux), 1 QUIC only, 2 both addresses known (the dial ranker
	// races them; a peer can end up with a QUIC and a TCP connection). Limited connections stay on TCP. QUIC connections
	// do not implement network.ConnStat, are closed by CONNECTION_CLOSE datagrams and carry their own muxer: other code
	// paths into the same swarm bookkeeping.
	tmix := g.Weighted(3, 1, 1)
	if tmix != 0 {
		defer simrand.Install(uint64(tmix))()
	}
	// fault (1 run in 4): every second TCP connection S gets from its transport reports an ERROR from Close /
	// CloseWithError after having closed (a transport may: the socket is gone, the error is about lingering data, an
	// already-closed session ...). Nothing in the statement depends on what Close returns.
	closeErrs := g.Int(4) == 3
	o.Logf("peers=%d notifiees=%d slowSub=%v subBuf=%d stall=%d closeRace=%v/%d transports=%d", nPeers, nNotif, slowSub, subBuf, stall, closeRace, closeAfter, tmix)
	for i, n := range notifs {
		o.Logf(" notifiee%d onConnected=%d onDisconnected=%d", i, n.onConn, n.onDisc)
	}
	for a, st := range actors {
		o.Logf(" actor%d %v", a, st)
	}

	var events []busEvent
	type quiescent struct {
		taken   bool
		stamp   uint64
		nEvents int
		conn    []network.Connectedness
		open    [][]string
		truth   []network.Connectedness
	}
	var q quiescent
	sClosed := false
	finished := false

	res := simrt.Run(t, simrt.Config{MaxSteps: 300000, StallPermille: stall, IdleLimit: time.Hour, TraceCap: 3000, PausePermille: 450, PCTPermille: 150}, tape.S, func() {
		n := simnet.New(tape.S, simnet.Config{Mode: simnet.Whole})
		bus := eventbus.NewBus()
		// connections whose remote address lies in 10.0.2.0/24 are LIMITED for S (what the circuit transport
		// does for relayed connections): every peer has a second node with the same identity there
		isLimited := func(a net.Addr) bool {
			ta, ok := a.(*net.TCPAddr)
			return ok && ta.IP.To4() != nil && ta.IP.To4()[2] == 2
		}
		upgraded := make(chan struct{})
		var upgradedOnce sync.Once
		gater := &upgradeGater{f: func(c network.Conn) {
			if c.Stat().Direction == network.DirOutbound {
				upgradedOnce.Do(func() { close(upgraded) })
			}
		}}
		var wrapConn func(transport.CapableConn) transport.CapableConn
		if closeErrs {
			k := 0
			wrapConn = func(c transport.CapableConn) transport.CapableConn {
				k++
				if k%2 == 0 {
					return c
				}
				h.o.Fault("transport-close-reports-error")
				return closeErrConn{c}
			}
		}
		S, err := simhost.New(n, simhost.Opts{Key: simhost.DetKey(1), IP: "10.0.0.1", Port: 4001, Security: "insecure", Bus: bus, Limited: isLimited, Gater: gater, QUIC: tmix != 0, WrapConn: wrapConn})
		if err != nil {
			o.Trouble = err.Error()
			return
		}
		var peers, lpeers []*simhost.Node
		for i := 0; i < nPeers; i++ {
			lp, err := simhost.New(n, simhost.Opts{Key: simhost.DetKey(10 + i), IP: fmt.Sprintf("10.0.2.%d", i+1), Port: 4001, Security: "insecure"})
			if err != nil {
				o.Trouble = err.Error()
				return
			}
			lpeers = append(lpeers, lp)
			lp.PS.AddAddrs(S.ID, []ma.Multiaddr{S.Addr}, peerstore.PermanentAddrTTL)
			lp.Swarm.SetStreamHandler(func(s network.Stream) { s.Reset() })
			p, err := simhost.New(n, simhost.Opts{Key: simhost.DetKey(10 + i), IP: fmt.Sprintf("10.0.1.%d", i+1), Port: 4001, Security: "insecure", QUIC: tmix != 0})
			if err != nil {
				o.Trouble = err.Error()
				return
			}
			peers = append(peers, p)
			h.peerIdx[p.ID] = i
			direct := func(nd *simhost.Node) []ma.Multiaddr {
				switch tmix {
				case 1:
					return []ma.Multiaddr{nd.QAddr}
				case 2:
					return []ma.Multiaddr{nd.QAddr, nd.Addr}
				}
				return []ma.Multiaddr{nd.Addr}
			}
			S.PS.AddAddrs(p.ID, direct(p), peerstore.PermanentAddrTTL)
			p.PS.AddAddrs(S.ID, direct(S), peerstore.PermanentAddrTTL)
			p.Swarm.SetStreamHandler(func(s network.Stream) { s.Reset() })
		}
		closeS := func() {
			if sClosed {
				return
			}
			sClosed = true
			h.closeInv = simrt.Stamp()
			S.Swarm.Close()
			h.closeRet = simrt.Stamp()
		}
		defer func() {
			closeS()
			S.Close()
			for _, p := range append(peers, lpeers...) {
				p.Close()
			}
		}()
		S.Swarm.SetStreamHandler(func(s network.Stream) {
			id := s.Conn().ID()
			h.see(s.Conn())
			h.activity++
			h.streams[id] = append(h.streams[id], simrt.Stamp())
			s.Reset()
		})
		for _, nf := range notifs {
			S.Swarm.Notify(nf)
		}
		sub, err := bus.Subscribe(new(event.EvtPeerConnectednessChanged), eventbus.BufSize(subBuf))
		if err != nil {
			o.Trouble = err.Error()
			return
		}
		subDone := make(chan struct{})
		stopSub := make(chan struct{})
		simrt.GoNamed("subscriber", func() {
			defer close(subDone)
			for {
				rc, sc := simrt.RecvCase(sub.Out()), simrt.RecvCase((<-chan struct{})(stopSub))
				switch simrt.Select("sub", false, rc, sc) {
				case 0:
					v, ok := rc.Val2()
					if !ok {
						return
					}
					ev := v.(event.EvtPeerConnectednessChanged)
					h.activity++
					events = append(events, busEvent{h.peerIdx[ev.Peer], ev.Connectedness, simrt.Stamp()})
					if slowSub {
						simrt.TimeSleep(5 * time.Millisecond)
					}
				case 1:
					// drain what is buffered
					for {
						rc := simrt.RecvCase(sub.Out())
						if simrt.Select("sub.drain", true, rc) != 0 {
							return
						}
						v, ok := rc.Val2()
						if !ok {
							return
						}
						ev := v.(event.EvtPeerConnectednessChanged)
						events = append(events, busEvent{h.peerIdx[ev.Peer], ev.Connectedness, simrt.Stamp()})
					}
				}
			}
		})

		var wg, wgActors simsync.WaitGroup
		actorsDone := make(chan struct{})
		if closeRace {
			wg.Add(1)
			simrt.GoNamed("closer", func() {
				defer wg.Done()
				if closeTrigger == 1 {
					rc, dc := simrt.RecvCase((<-chan struct{})(upgraded)), simrt.RecvCase((<-chan struct{})(actorsDone))
					if simrt.Select("closer.trigger", false, rc, dc) == 1 {
						return // no outbound connection ever got that far
					}
				}
				for i := 0; i < closeAfter; i++ {
					simrt.Yield("closer.wait")
				}
				closeS()
			})
		}
		if closeRace {
			// a watcher that reads the swarm's own connection table at scheduling points of its own: a connection the swarm
			// LISTS is an admitted connection, whether or not anything else ever shows it to the harness (a dial that fails
			// because Close cancelled it does not return the connection it had already admitted)
			wg.Add(1)
			simrt.GoNamed("watcher", func() {
				defer wg.Done()
				for i := 0; i < 400; i++ {
					dc := simrt.RecvCase((<-chan struct{})(actorsDone))
					if simrt.Select("watcher", true, dc) == 0 {
						return
					}
					for _, p := range peers {
						for _, c := range S.Swarm.ConnsToPeer(p.ID) {
							if h.conns[c.ID()] == nil {
								h.o.Probe("connection-first-seen-in-the-swarm-table")
							}
							h.see(c)
						}
					}
				}
			})
		}
		for a, steps := range actors {
			wg.Add(1)
			wgActors.Add(1)
			simrt.GoNamed(fmt.Sprintf("actor%d", a), func() {
				defer wg.Done()
				defer wgActors.Done()
				for _, st := range steps {
					p := peers[st.peer]
					ctx, cancel := context.WithTimeout(context.Background(), 5*time.Second)
					switch st.kind {
					case 0:
						if c, err := S.Swarm.DialPeer(ctx, p.ID); err == nil {
							h.see(c)
						}
					case 1:
						if c, err := p.Swarm.DialPeer(ctx, S.ID); err == nil {
							// early inbound stream on S
							if s, err := c.NewStream(ctx); err == nil {
								s.Write([]byte{1})
								s.Reset()
							}
						}
					case 2:
						if !sClosed {
							if cs := S.Swarm.ConnsToPeer(p.ID); len(cs) > 0 {
								h.see(cs[0])
								cs[0].Close()
							}
						}
					case 3:
						for _, c := range p.Swarm.ConnsToPeer(S.ID) {
							c.Close()
						}
					case 4:
						S.Swarm.ClosePeer(p.ID)
					case 5:
						closeS()
					case 6:
						simrt.TimeSleep(st.sleep)
					case 7:
						if c, err := lpeers[st.peer].Swarm.DialPeer(ctx, S.ID); err == nil {
							if s, err := c.NewStream(ctx); err == nil {
								s.Write([]byte{1})
								s.Reset()
							}
						}
					case 8:
						for _, c := range lpeers[st.peer].Swarm.ConnsToPeer(S.ID) {
							c.Close()
						}
					}
					cancel()
					if st.sleep > 0 && st.kind != 6 {
						simrt.TimeSleep(st.sleep)
					}
				}
			})
		}
		wgActors.Wait()
		close(actorsDone)
		wg.Wait()
		// quiescent reading of the truth: settle, let the subscriber catch up, read, and accept the
		// reading only if nothing at all happened while it was taken (a stalled process can lose
		// connections to keep-alive timeouts at any moment, which is legitimate)
		if !sClosed {
			for try := 0; try < 6 && !q.taken; try++ {
				simrt.WaitIdle()
				simrt.TimeSleep(2 * time.Second)
				simrt.WaitIdle()
				// an event may still sit in the emitter, blocked on a slow subscriber's full channel (the
				// subscriber sleeps 5 ms per event): wait until a 20 ms window passes without any callback,
				// event or stream being recorded
				for i := 0; i < 200; i++ {
					a0 := h.activity
					simrt.TimeSleep(20 * time.Millisecond)
					simrt.WaitIdle()
					if h.activity == a0 && len(sub.Out()) == 0 && h.inflight == 0 {
						break
					}
				}
				if h.inflight != 0 {
					continue
				}
				before := h.activity
				q.stamp = simrt.Stamp()
				q.conn, q.open, q.truth = nil, nil, nil
				for _, p := range peers {
					q.conn = append(q.conn, S.Swarm.Connectedness(p.ID))
					var ids []string
					truth := network.NotConnected // what the listed connections say: any direct one = Connected, only limited ones = Limited
					for _, c := range S.Swarm.ConnsToPeer(p.ID) {
						h.see(c)
						ids = append(ids, c.ID())
						if !c.Stat().Limited {
							truth = network.Connected
						} else if truth == network.NotConnected {
							truth = network.Limited
						}
					}
					sort.Strings(ids)
					q.open = append(q.open, ids)
					q.truth = append(q.truth, truth)
				}
				// ... and the same window AFTER the reading: nothing may have been in flight while it was taken
				simrt.WaitIdle()
				simrt.TimeSleep(20 * time.Millisecond)
				simrt.WaitIdle()
				if h.activity == before && h.inflight == 0 && len(sub.Out()) == 0 {
					q.taken = true
					q.nEvents = len(events)
				}
			}
		}
		closeS()
		simrt.WaitIdle()
		close(stopSub)
		simrt.Recv("subDone", (<-chan struct{})(subDone))
		sub.Close()
		finished = true
	})
	o.Sched = res
	o.Virtual = res.Virtual
	if res.Panic != "" {
		o.Violate("C06/panic", "%s", res.Panic)
		return o
	}
	if res.StepLimit {
		if h.closeInv != 0 && h.closeRet == 0 {
			// Swarm.Close was invoked and has not returned after hundreds of thousands of scheduling decisions during which
			// everything else kept running (tickers, keep-alives): it waits for something that never comes
			o.Violate("C06/swarm-close-does-not-return", "Swarm.Close was invoked at stamp %d and had not returned when the run was cut off after %d scheduling decisions (virtual time %v)", h.closeInv, res.Steps, res.Virtual)
			return o
		}
		o.Trouble = "step limit"
		return o
	}
	if o.Trouble != "" {
		return o
	}
	if res.Stuck || !finished {
		o.Violate("C06/deadlock", "run did not finish (stuck=%v): %v", res.Stuck, res.Residue)
		return o
	}

	// ---- oracles ---------------------------------------------------------------------
	var ids []string
	for id := range h.conns {
		ids = append(ids, id)
	}
	sort.Strings(ids)
	var sig strings.Builder
	o.Logf("Swarm.Close=[%d,%d] quiescent=%+v", h.closeInv, h.closeRet, q)
	for _, e := range events {
		o.Logf("event p%d %v @%d", e.peer, e.state, e.stamp)
	}
	for _, id := range ids {
		o.Logf("conn %s peer=p%d firstSeen=%d streams=%v", id, h.conns[id].peer, h.conns[id].firstSeen, h.streams[id])
		for _, nf := range notifs {
			o.Logf("   notifiee%d Connected=%v Disconnected=%v", nf.idx, nf.connected[id], nf.disconnected[id])
		}
	}
	for _, id := range ids {
		fmt.Fprintf(&sig, "%s:", id)
		for _, nf := range notifs {
			cs, ds := nf.connected[id], nf.disconnected[id]
			fmt.Fprintf(&sig, "%d/%d,", len(cs), len(ds))
			if len(cs) != 1 {
				o.Violate(fmt.Sprintf("C06/connected-count-%d", min(len(cs), 2)), "notifiee%d saw Connected %d times for connection %s", nf.idx, len(cs), id)
			}
			// every connection is closed by now (S was closed): Disconnected exactly once
			if len(ds) != 1 {
				o.Violate(fmt.Sprintf("C06/disconnected-count-%d", min(len(ds), 2)), "notifiee%d saw Disconnected %d times for connection %s (all connections are closed: the swarm was closed)", nf.idx, len(ds), id)
			}
			if len(cs) >= 1 && len(ds) >= 1 && ds[0].inv < cs[0].ret {
				o.Violate("C06/disconnected-before-connected-returned", "notifiee%d: Disconnected(%s) started at %d before Connected returned at %d", nf.idx, id, ds[0].inv, cs[0].ret)
			}
			for _, c := range append(append([]call(nil), cs...), ds...) {
				if c.ret > h.closeRet {
					o.Violate("C06/callback-after-swarm-close", "notifiee%d: a callback for %s returned at %d, after Swarm.Close returned at %d", nf.idx, id, c.ret, h.closeRet)
				}
			}
			for _, st := range h.streams[id] {
				if len(cs) == 0 || st < cs[0].ret {
					o.Violate("C06/stream-before-connected", "an inbound stream on %s reached the handler at %d, before Connected returned on notifiee%d (%v)", id, st, nf.idx, cs)
				}
			}
		}
		sig.WriteByte(';')
	}
	// bus events per peer
	for p := 0; p < nPeers; p++ {
		var seq []network.Connectedness
		for _, e := range events {
			if e.peer == p {
				seq = append(seq, e.state)
			}
		}
		admitted := 0
		for _, r := range h.conns {
			if r.peer == p {
				admitted++
			}
		}
		repeats := 0
		for i := 1; i < len(seq); i++ {
			if seq[i] == seq[i-1] {
				if seq[i] == network.NotConnected {
					repeats++
				} else {
					o.Violate("C06/event-repeated", "peer p%d: connectedness event %v published twice in a row (%v)", p, seq[i], seq)
				}
			}
		}
		if len(seq) > 0 && seq[0] == network.NotConnected {
			repeats++ // the very first event announcing a vanished connection
		}
		if repeats > admitted {
			o.Violate("C06/event-repeated-notconnected", "peer p%d: %d repeated NotConnected events but only %d connections were admitted (%v)", p, repeats, admitted, seq)
		}
		fmt.Fprintf(&sig, "p%d:%v;", p, seq)
		if q.taken {
			// events published up to quiescence must end in the true state
			last := network.NotConnected
			for _, e := range events[:q.nEvents] {
				if e.peer == p {
					last = e.state
				}
			}
			if last != q.conn[p] {
				o.Violate("C06/last-event-not-truth", "peer p%d: at quiescence Connectedness=%v but the last published event was %v (%v)", p, q.conn[p], last, seq)
			}
			// listed connections = admitted and still open
			var want []string
			for _, id := range ids {
				r := h.conns[id]
				if r.peer != p {
					continue
				}
				open := false
				for _, nf := range notifs {
					if len(nf.connected[id]) > 0 && nf.connected[id][0].inv < q.stamp && (len(nf.disconnected[id]) == 0 || nf.disconnected[id][0].inv > q.stamp) {
						open = true
					}
				}
				if open {
					want = append(want, id)
				}
			}
			if fmt.Sprint(want) != fmt.Sprint(q.open[p]) {
				o.Violate("C06/listed-conns-not-truth", "peer p%d: at quiescence ConnsToPeer=%v, connections with Connected and without Disconnected: %v", p, q.open[p], want)
			}
			// Connectedness() itself must be what the listed, still-open connections say (it is the same code that
			// feeds the events, so comparing the last event only with it would let both be wrong together)
			if q.conn[p] != q.truth[p] {
				o.Violate("C06/connectedness-vs-conns/kind", "peer p%d: at quiescence Connectedness()=%v but the %d listed connections make it %v", p, q.conn[p], len(q.open[p]), q.truth[p])
			}
			if (len(q.open[p]) > 0) != (q.conn[p] != network.NotConnected) {
				o.Violate("C06/connectedness-vs-conns", "peer p%d: Connectedness=%v with %d listed connections", p, q.conn[p], len(q.open[p]))
			}
		}
	}
	if len(res.Residue) > 0 {
		o.Violate("C06/residue", "goroutines left after everything was closed: %v", res.Residue)
	}
	o.Sig = sig.String() + fmt.Sprintf("|t%d", tmix)
	if tmix != 0 {
		o.Probe([...]string{"", "direct-connections-over-quic", "direct-connections-over-quic-and-tcp"}[tmix])
	}
	o.Nontrivial = len(h.conns) > 0
	for _, nf := range notifs {
		for id := range nf.connected {
			if len(nf.disconnected[id]) > 0 && len(h.streams[id]) > 0 {
				o.Probe("early-inbound-stream")
			}
		}
	}
	if !q.taken {
		o.Probe("swarm-closed-by-actor")
	}
	if res.Paused != "" {
		o.Probe("pause-rule-fired")
		if os.Getenv("C06_DEBUG") != "" {
			o.Probe("paused@" + res.Paused)
		}
	}
	if res.PCT {
		o.Probe("priority-scheduled")
	}
	for _, e := range events {
		if e.state == network.NotConnected {
			o.Probe("notconnected-event")
			break
		}
	}
	for i := 1; i < len(events); i++ {
		if events[i].peer == events[i-1].peer && events[i].state == network.Limited && events[i-1].state == network.Connected {
			o.Probe("downgrade-connected-to-limited")
		}
		if events[i].peer == events[i-1].peer && events[i].state == network.Connected && events[i-1].state == network.Limited {
			o.Probe("upgrade-limited-to-connected")
		}
	}
	for _, r := range h.conns {
		if r.conn.Stat().Limited {
			o.Probe("limited-connection")
			break
		}
	}
	return o
}
