# orchestrator configuration of the C06 check (loaded by tools/props.py)
from stack import FULL_STACK, FULL_DEPS, QUIC_STACK, QUIC_DEPS

SPEC = dict(
    pkg="./harness/c06",
    instrument=FULL_STACK + QUIC_STACK,
    deps=FULL_DEPS + QUIC_DEPS,
    level="exploration",
    level_text=("seeded search over schedules of real swarms on a simulated network: every lock, channel operation, select and "
                "goroutine start of swarm, emitter, eventbus, upgrader, yamux, multistream is a scheduling decision; tasks race "
                "dials in both directions, early inbound streams, local/remote/by-peer closes, closes from inside notifiee "
                "callbacks and Swarm.Close; exactly-once / ordering / truthfulness oracles over stamped histories; direct connections over "
                "TCP, over real QUIC (quic-go instrumented, simulated UDP) or both raced by the dial ranker"),
    level_note=("trusted: testing/synctest, the overlay rewrite, simnet's TCP model; limited connections are raw connections marked limited by the simulated transport "
                "(the way the circuit transport marks relayed ones), not real relay circuits; notifiee callbacks of the swarm under observation only"),
    technique="deterministic simulation: seeded lock-level scheduler over instrumented swarm stack on simnet, history oracles",
    design_ref="DESIGN.md section 5 (C06)",
    quick_s=50, thorough_s=600,
    rule=("one run = one tape: 1-2 peers, 1-3 notifiees with drawn behaviour per callback (return, sleep, close the connection, "
          "open a stream), subscriber pace and buffer, 2-5 actor tasks with 1-4 steps each (dial out, dial in + early stream, "
          "close one connection locally, close remotely, ClosePeer, Swarm.Close, sleep, dial in over the peer's LIMITED path, close the limited connections) and a seeded schedule with optional "
          "stalls; non-trivial = at least one connection was observed; distinct = distinct (schedule hash, per-connection "
          "callback counts, per-peer event sequences)"),
    probes=["early-inbound-stream", "swarm-closed-by-actor", "notconnected-event", "limited-connection", "downgrade-connected-to-limited", "upgrade-limited-to-connected", "quic-connection-seen", "connection-first-seen-in-the-swarm-table", "direct-connections-over-quic", "direct-connections-over-quic-and-tcp"],
    real=["swarm (conns, emitter, dial, listen, streams) — instrumented", "eventbus — instrumented", "upgrader, tcp dial path, insecure security, "
          "yamux, multistream — instrumented", "pstoremem"],
    stubs=["wire: simnet TCP model"],
    assume=["virtual clock of testing/synctest", "the overlay rewrite preserves behaviour (./check overlaytest)"],
)
