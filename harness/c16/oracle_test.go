package c16

import (
	"context"
	"fmt"
	"net"
	"strings"
	"time"

	"github.com/libp2p/go-libp2p/p2p/protocol/autonatv2/pb"

	"verifsim/simnet"
)

func contextTimeout(d time.Duration) (context.Context, context.CancelFunc) {
	return context.WithTimeout(context.Background(), d)
}

const (
	minute        = time.Minute
	dialGrace     = 30 * time.Second // a dial may start this long after the client saw its request end
	abandonSlack  = 60 * time.Second // the server is surely done with a request the client abandoned after this long
	minDialData   = 30000
	maxDialData   = 100000
	neverQuiesced = time.Duration(1 << 62)
)

func (r *reqRec) name() string { return fmt.Sprintf("R%d(C%d)", r.idx, r.plan.peer) }

// accepted: the server proceeded to ask for dial data, to answer OK (it dialled) or to dial back.
func (r *reqRec) accepted() bool {
	return r.ddr || (r.resp && r.status == pb.DialResponse_OK) || r.nonceSeen
}

// acceptWindow: the server's accept instant lies in [lo, hi].
func (r *reqRec) acceptWindow() (lo, hi time.Duration) {
	lo, hi = r.startAt, neverQuiesced
	if r.ddr && r.ddrAt < hi {
		hi = r.ddrAt
	}
	if r.resp && r.respAt < hi {
		hi = r.respAt
	}
	if r.nonceSeen && r.nonceAt < hi {
		hi = r.nonceAt
	}
	return
}

// quiesceAt: from this virtual instant on (strictly later) the server-side handler of the request has returned.
func (r *reqRec) quiesceAt() time.Duration {
	if !r.ended {
		return neverQuiesced
	}
	if r.serverEnded() {
		return r.endAt
	}
	return r.endAt + abandonSlack
}

func (r *reqRec) bytesBefore(stamp uint64) uint64 {
	var b uint64
	for _, x := range r.writes {
		if x.stamp < stamp && x.cum > b {
			b = x.cum
		}
	}
	return b
}

func (r *reqRec) allNever() bool {
	for _, e := range r.plan.entries {
		if e.cls != clsNever {
			return false
		}
	}
	return true
}

func (r *reqRec) outcome() string {
	s := r.endKind
	if r.openErr != "" {
		s += "(open)"
	}
	if r.ddr {
		s += fmt.Sprintf("+ddr[%d:%d wrote %d]", r.ddrAddrIdx, r.numBytes, r.cum)
	}
	if r.resp {
		s += fmt.Sprintf("+%s/%s@%d", r.status, r.dialStatus, r.addrIdx)
	}
	if r.nonceSeen {
		s += "+dialback"
	}
	return s
}

func (w *world) evaluate(dials []simnet.DialRecord) {
	o := w.o
	var sig []string
	for _, r := range w.recs {
		o.Logf("%s: start %v #%d sent #%d end %v #%d: %s", r.name(), r.startAt, r.startStamp, r.sentStamp, r.endAt, r.endStamp, r.outcome())
		if r.ddr {
			o.Logf("   dial-data request read at %v #%d; dial-data bytes complete at write #%d (0 = never)", r.ddrAt, r.ddrStamp, r.finalStamp)
		}
		sig = append(sig, fmt.Sprintf("%d:%d:%s", r.plan.peer, r.plan.variant, r.outcome()))
	}

	// ---- 0. size of the dial-data request ---------------------------------------------------
	for _, r := range w.recs {
		if r.ddr && (r.numBytes < minDialData || r.numBytes > maxDialData) {
			o.Violate("C16/dial-data-request-out-of-range", "%s was asked for %d bytes of dial data", r.name(), r.numBytes)
		}
		if r.ddrCount > 1 {
			o.Probe("second-dial-data-request")
		}
	}

	// ---- 1. dial-back streams ----------------------------------------------------------------
	for _, ev := range w.dbEvents {
		who := "victim V"
		if ev.client >= 0 {
			who = fmt.Sprintf("C%d", ev.client)
		}
		o.Logf("dial-back stream at %s on %s from %s at %v #%d nonce=%x (read=%v)", who, ev.local, ev.remotePeer, ev.at, ev.stamp, ev.nonce, ev.gotNonce)
		if ev.client < 0 {
			o.Violate("C16/dial-back-stream-to-other-peer/victim", "the victim received a dial-back stream on %s (nonce %x)", ev.local, ev.nonce)
			continue
		}
		if !ev.gotNonce {
			o.Probe("dial-back-stream-without-nonce")
			continue
		}
		r := w.byNonce[ev.nonce]
		if r == nil || r.plan.peer != ev.client {
			o.Violate("C16/dial-back-stream-to-other-peer/client", "C%d received a dial-back stream with nonce %x, which none of its requests carries", ev.client, ev.nonce)
			continue
		}
		if r.sentStamp == 0 || ev.stamp < r.sentStamp {
			o.Violate("C16/dial-back-before-request", "%s: dial-back at #%d before the request was sent (#%d)", r.name(), ev.stamp, r.sentStamp)
			continue
		}
		// The connection the stream arrived on must lead to an address named by a request of THIS client that is
		// in service (weaker reading, as in DESIGN.md: "an eligible address of one of its in-flight requests" — the
		// dialer host keeps one connection per peer, so concurrent requests of one peer share it).
		named := false
		for _, x := range w.recs {
			if x.plan.peer != ev.client || x.sentStamp == 0 || x.sentStamp > ev.stamp || (x.ended && ev.at > x.endAt+dialGrace) {
				continue
			}
			for _, e := range x.plan.entries {
				if e.ipport != "" && e.ipport == ev.local && e.cls != clsNever {
					named = true
					if x != r {
						o.Probe("dial-back-over-connection-of-sibling-request")
					}
				}
			}
		}
		if !named {
			o.Violate("C16/dial-back-on-unrequested-address", "%s: dial-back connection arrived on %s, which no request of C%d in service names as an eligible address", r.name(), ev.local, ev.client)
		}
		if c := w.clients[ev.client]; ev.local == key(c.altIP, 4001) {
			o.Probe("dial-back-on-second-ip")
		}
	}

	// ---- 2. every dial of the dialer host -----------------------------------------------------
	nDials := 0
	for _, d := range dials {
		if d.From != ipD {
			continue
		}
		nDials++
		o.Logf("dial by D to %s at %v #%d: %s", d.To, d.StartAt, d.Start, d.Outcome)
		sig = append(sig, "dial:"+d.To+":"+d.Outcome)
		host, _, _ := net.SplitHostPort(d.To)
		dip := net.ParseIP(host)
		type cand struct {
			r *reqRec
			e entry
		}
		var cands []cand
		onlyNever := true
		for _, r := range w.recs {
			if r.sentStamp == 0 || r.sentStamp > d.Start {
				continue
			}
			if r.ended && d.StartAt > r.endAt+dialGrace {
				continue
			}
			for _, e := range r.plan.entries {
				if e.ipport == d.To {
					cands = append(cands, cand{r, e})
					if e.cls != clsNever {
						onlyNever = false
					}
					break
				}
			}
		}
		if len(cands) == 0 {
			cls := "C16/dial-to-unrequested-address"
			if dip != nil && isPrivateIP(dip) {
				cls += "/private"
			}
			o.Violate(cls, "D dialled %s at %v (#%d) but no request in service names that address", d.To, d.StartAt, d.Start)
			continue
		}
		if onlyNever {
			o.Violate("C16/dial-to-ineligible-address", "D dialled %s at %v (#%d), named only as an ineligible entry (%s of %s)", d.To, d.StartAt, d.Start, cands[0].e.desc, cands[0].r.name())
			continue
		}
		justified, anyDDR := false, false
		var why []string
		for _, c := range cands {
			if c.e.cls == clsNever {
				continue
			}
			cip := net.ParseIP(w.clients[c.r.plan.peer].ip).String()
			if c.e.ip == cip {
				justified = true
				o.Probe("dial-same-ip")
				break
			}
			if c.r.ddr {
				anyDDR = true
				b := c.r.bytesBefore(d.Start)
				if b >= c.r.numBytes {
					justified = true
					o.Probe("dial-foreign-ip-after-dial-data")
					if host == ipV {
						o.Probe("victim-dialled-after-dial-data")
					}
					break
				}
				why = append(why, fmt.Sprintf("%s from %s: asked for %d bytes at #%d, client had started writes for %d bytes before #%d", c.r.name(), cip, c.r.numBytes, c.r.ddrStamp, b, d.Start))
			} else {
				why = append(why, fmt.Sprintf("%s from %s: no dial data was requested", c.r.name(), cip))
			}
		}
		if !justified {
			cls := "C16/amplification/dial-without-dial-data-request"
			if anyDDR {
				cls = "C16/amplification/dial-before-dial-data-complete"
			}
			o.Violate(cls, "D dialled %s at %v (#%d), an IP other than the requester's: %s", d.To, d.StartAt, d.Start, strings.Join(why, "; "))
		}
	}

	// ---- 3. requests without any public, dialable address ---------------------------------------
	for _, r := range w.recs {
		if r.sentStamp == 0 || !r.allNever() {
			continue
		}
		if r.resp && r.status == pb.DialResponse_E_DIAL_REFUSED {
			o.Probe("refused-no-eligible-address")
		}
		if (r.resp && r.status == pb.DialResponse_OK) || r.nonceSeen {
			o.Violate("C16/no-eligible-address-not-refused", "%s names no public dialable address (%d entries) but got %s", r.name(), len(r.plan.entries), r.outcome())
		}
	}

	// ---- 4. sliding one-minute windows over accepted requests -------------------------------------
	var acc []*reqRec
	for _, r := range w.recs {
		if r.accepted() {
			acc = append(acc, r)
		}
	}
	window := func(class string, limit int, set []*reqRec, dd bool) {
		worst := 0
		for _, j := range set {
			_, hiJ := j.acceptWindow()
			if dd {
				hiJ = j.ddrAt
			}
			var in []string
			for _, i := range set {
				loI, hiI := i.acceptWindow()
				if dd {
					hiI = i.ddrAt
				}
				if hiI <= hiJ && loI > hiJ-minute {
					in = append(in, fmt.Sprintf("%s[%v..%v]", i.name(), loI, hiI))
				}
			}
			if len(in) > worst {
				worst = len(in)
			}
			if len(in) > limit {
				o.Violate("C16/rate-limit-exceeded/"+class, "limit %d but %d accepted requests lie in the window (%v, %v]: %s", limit, len(in), hiJ-minute, hiJ, strings.Join(in, " "))
				return
			}
		}
		if worst == limit {
			o.Probe("window-full-" + class)
		}
	}
	window("global", w.lim.rpm, acc, false)
	for p := range w.clients {
		var set []*reqRec
		for _, r := range acc {
			if r.plan.peer == p {
				set = append(set, r)
			}
		}
		window("per-peer", w.lim.perPeer, set, false)
	}
	var ddSet []*reqRec
	for _, r := range acc {
		if r.ddr {
			ddSet = append(ddSet, r)
		}
	}
	window("dial-data", w.lim.dialData, ddSet, true)

	// ---- 5. requests of one peer surely in service at one stamp --------------------------------------
	maxOverlap := 0
	for p := range w.clients {
		type iv struct {
			lo, hi uint64
			r      *reqRec
		}
		var ivs []iv
		for _, r := range w.recs {
			if r.plan.peer != p || !r.ddr || r.finalStamp == 0 {
				continue
			}
			if !((r.resp && r.status == pb.DialResponse_OK) || r.nonceSeen) {
				continue
			}
			ivs = append(ivs, iv{r.ddrStamp, r.finalStamp, r})
		}
		for _, a := range ivs {
			var in []string
			for _, b := range ivs {
				if b.lo <= a.lo && a.lo <= b.hi {
					in = append(in, fmt.Sprintf("%s[#%d..#%d]", b.r.name(), b.lo, b.hi))
				}
			}
			if len(in) > maxOverlap {
				maxOverlap = len(in)
			}
			if len(in) > w.lim.maxConc {
				o.Violate("C16/concurrent-requests-exceeded", "limit %d but at stamp #%d the server was serving %s", w.lim.maxConc, a.lo, strings.Join(in, " "))
				break
			}
		}
	}
	if maxOverlap >= 2 {
		o.Probe("concurrent-requests-of-one-peer-in-service")
	}
	if maxOverlap == w.lim.maxConc {
		o.Probe("concurrency-at-limit")
	}

	// ---- 6. rejected although no limit can have been reached ------------------------------------------
	rejected := 0
	for _, r := range w.recs {
		if !(r.resp && r.status == pb.DialResponse_E_REQUEST_REJECTED) {
			continue
		}
		rejected++
		conc, glob, peer := 0, 0, 0
		for _, x := range w.recs {
			if x == r || x.startAt > r.respAt {
				continue
			}
			q := x.quiesceAt()
			if x.plan.peer == r.plan.peer && q >= r.startAt {
				conc++
			}
			if q > r.startAt-minute {
				glob++
				if x.plan.peer == r.plan.peer {
					peer++
				}
			}
		}
		needDD := false
		cip := net.ParseIP(w.clients[r.plan.peer].ip).String()
		for _, e := range r.plan.entries {
			if e.cls != clsNever && e.ip != cip {
				needDD = true
			}
		}
		if conc < w.lim.maxConc && glob < w.lim.rpm && peer < w.lim.perPeer && (!needDD || glob < w.lim.dialData) {
			o.Violate("C16/rejected-below-every-limit", "%s was rejected at %v although at most %d other requests of the peer can have been in service (limit %d) and at most %d (peer: %d) other requests can lie in its minute (limits %d, %d, dial-data %d)",
				r.name(), r.respAt, conc, w.lim.maxConc, glob, peer, w.lim.rpm, w.lim.perPeer, w.lim.dialData)
		} else {
			o.Probe("rejected-with-a-limit-possibly-reached")
		}
	}

	// ---- probes, signature ---------------------------------------------------------------------------
	responded := 0
	for _, r := range w.recs {
		if r.resp {
			responded++
		}
		if r.ddr {
			o.Probe("dial-data-requested")
			switch {
			case r.finalStamp == 0 && !r.nonceSeen && !(r.resp && r.status == pb.DialResponse_OK):
				o.Probe("dial-data-incomplete-no-dial")
			case r.finalStamp != 0 && r.resp && r.status == pb.DialResponse_OK:
				o.Probe("dial-data-complete-then-answer")
			}
			if r.endKind == "server-reset" {
				o.Probe("server-reset-in-dial-data-phase")
			}
		}
		if r.resp && r.status == pb.DialResponse_OK && r.dialStatus == pb.DialStatus_OK && r.nonceSeen {
			o.Probe("honest-flow-ok")
		}
		if len(r.plan.entries) >= 50 {
			o.Probe("long-address-list")
		}
		if r.plan.variant == varOversized && r.endKind == "server-reset" {
			o.Probe("oversized-request-reset")
		}
		if r.endKind == "server-reset" && r.ddr && r.finalStamp == 0 && r.endAt-r.startAt >= 14*time.Second {
			o.Probe("server-timed-out-waiting-for-dial-data")
		}
	}
	if rejected > 0 {
		o.Probe("request-rejected")
	}
	o.Sig = fmt.Sprintf("%+v|%s", w.lim, strings.Join(sig, "|"))
	o.Nontrivial = nDials >= 1 && responded >= 2
}
