package c16

import (
	"context"
	"fmt"
	"net"
	"sort"
	"strings"
	"time"

	"github.com/libp2p/go-libp2p/p2p/protocol/autonatv2/pb"

	"verifsim/simnet"
)

func contextTimeout(d time.Duration) (context.Context, context.CancelFunc) {
	return context.WithTimeout(context.Background(), d)
}

const (
	minute        = time.Minute
	dialGrace     = 30 * time.Second // a dial may start this long after the client saw its request end
	abandonSlack  = 60 * time.Second // the server is surely done with a request the client abandoned after this long
	minDialData   = 30000
	maxDialData   = 100000
	neverQuiesced = time.Duration(1 << 62)
)

func (r *reqRec) name() string { return fmt.Sprintf("R%d(C%d)", r.idx, r.plan.peer) }

// accepted: the server proceeded to ask for dial data, to answer OK (it dialled) or to dial back.
func (r *reqRec) accepted() bool {
	return r.ddr || (r.resp && r.status == pb.DialResponse_OK) || r.nonceSeen
}

// acceptWindow: the server's accept instant lies in [lo, hi].
func (r *reqRec) acceptWindow() (lo, hi time.Duration) {
	lo, hi = r.startAt, neverQuiesced
	if r.ddr && r.ddrAt < hi {
		hi = r.ddrAt
	}
	if r.resp && r.respAt < hi {
		hi = r.respAt
	}
	if r.nonceSeen && r.nonceAt < hi {
		hi = r.nonceAt
	}
	return
}

// quiesceAt: from this virtual instant on (strictly later) the server-side handler of the request has returned.
func (r *reqRec) quiesceAt() time.Duration {
	if !r.ended {
		return neverQuiesced
	}
	if r.serverEnded() {
		return r.endAt
	}
	return r.endAt + abandonSlack
}

func (r *reqRec) bytesBefore(stamp uint64) uint64 {
	var b uint64
	for _, x := range r.writes {
		if x.stamp < stamp && x.cum > b {
			b = x.cum
		}
	}
	return b
}

func (r *reqRec) allNever() bool {
	for _, e := range r.plan.entries {
		if e.cls != clsNever {
			return false
		}
	}
	return true
}

func (r *reqRec) outcome() string {
	s := r.endKind
	if r.openErr != "" {
		s += "(open)"
	}
	if r.ddr {
		s += fmt.Sprintf("+ddr[%d:%d wrote %d]", r.ddrAddrIdx, r.numBytes, r.cum)
	}
	if r.resp {
		s += fmt.Sprintf("+%s/%s@%d", r.status, r.dialStatus, r.addrIdx)
	}
	if r.nonceSeen {
		s += "+dialback"
	}
	return s
}

// dialRec is one dial attempt of the dialer host: a TCP dial from simnet's dial log or a QUIC Initial datagram seen by
// the UDP filter (every retransmission is a record of its own).
type dialRec struct {
	To      string // "ip:port" (TCP) or "udp/ip:port"
	Start   uint64
	StartAt time.Duration
	Outcome string
	udp     bool
}

func dialsOfD(tcp []simnet.DialRecord, udp []dialRec) []dialRec {
	var out []dialRec
	for _, d := range tcp {
		if d.From == ipD {
			out = append(out, dialRec{To: d.To, Start: d.Start, StartAt: d.StartAt, Outcome: d.Outcome})
		}
	}
	out = append(out, udp...)
	sort.SliceStable(out, func(i, j int) bool { return out[i].Start < out[j].Start })
	return out
}

// sameEndpoint: the local endpoint a dial-back connection arrived on is the endpoint an entry names — directly, or
// through the NAT's mapping (the entry names the public side, the connection arrives on the private socket).
func (w *world) sameEndpoint(entryKey, local string) bool {
	if entryKey == "" || local == "" {
		return false
	}
	if entryKey == local {
		return true
	}
	proto, k := "tcp ", entryKey
	if strings.HasPrefix(entryKey, "udp/") {
		proto, k = "udp ", entryKey[4:]
	}
	l := strings.TrimPrefix(local, "udp/")
	for _, m := range w.n.NATMappings() { // "udp 10.1.0.10:4001 -> 6.6.6.6:4001"
		if m == proto+l+" -> "+k {
			return true
		}
	}
	return false
}

func (w *world) evaluate(dials []dialRec, otherUDP []dialRec) {
	o := w.o
	var sig []string
	for _, r := range w.recs {
		o.Logf("%s: start %v #%d sent #%d end %v #%d: %s", r.name(), r.startAt, r.startStamp, r.sentStamp, r.endAt, r.endStamp, r.outcome())
		if r.ddr {
			o.Logf("   dial-data request read at %v #%d; dial-data bytes complete at write #%d (0 = never)", r.ddrAt, r.ddrStamp, r.finalStamp)
		}
		sig = append(sig, fmt.Sprintf("%d:%d:%s", r.plan.peer, r.plan.variant, r.outcome()))
	}

	// ---- 0. size of the dial-data request ---------------------------------------------------
	for _, r := range w.recs {
		if r.ddr && (r.numBytes < minDialData || r.numBytes > maxDialData) {
			o.Violate("C16/dial-data-request-out-of-range", "%s was asked for %d bytes of dial data", r.name(), r.numBytes)
		}
		if r.ddrCount > 1 {
			o.Probe("second-dial-data-request")
		}
	}

	// ---- 1. dial-back streams ----------------------------------------------------------------
	for _, ev := range w.dbEvents {
		who := "victim V"
		if ev.client >= 0 {
			who = fmt.Sprintf("C%d", ev.client)
		}
		o.Logf("dial-back stream at %s on %s from %s at %v #%d nonce=%x (read=%v)", who, ev.local, ev.remotePeer, ev.at, ev.stamp, ev.nonce, ev.gotNonce)
		if ev.client < 0 {
			o.Violate("C16/dial-back-stream-to-other-peer/victim", "the victim received a dial-back stream on %s (nonce %x)", ev.local, ev.nonce)
			continue
		}
		if !ev.gotNonce {
			o.Probe("dial-back-stream-without-nonce")
			continue
		}
		r := w.byNonce[ev.nonce]
		if r == nil || r.plan.peer != ev.client {
			o.Violate("C16/dial-back-stream-to-other-peer/client", "C%d received a dial-back stream with nonce %x, which none of its requests carries", ev.client, ev.nonce)
			continue
		}
		if r.sentStamp == 0 || ev.stamp < r.sentStamp {
			o.Violate("C16/dial-back-before-request", "%s: dial-back at #%d before the request was sent (#%d)", r.name(), ev.stamp, r.sentStamp)
			continue
		}
		// The connection the stream arrived on must lead to an address named by a request of THIS client that is
		// in service (weaker reading, as in DESIGN.md: "an eligible address of one of its in-flight requests" — the
		// dialer host keeps one connection per peer, so concurrent requests of one peer share it).
		named := false
		for _, x := range w.recs {
			if x.plan.peer != ev.client || x.sentStamp == 0 || x.sentStamp > ev.stamp || (x.ended && ev.at > x.endAt+dialGrace) {
				continue
			}
			for _, e := range x.plan.entries {
				if e.cls != clsNever && w.sameEndpoint(e.ipport, ev.local) {
					named = true
					if x != r {
						o.Probe("dial-back-over-connection-of-sibling-request")
					}
				}
			}
		}
		if !named {
			o.Violate("C16/dial-back-on-unrequested-address", "%s: dial-back connection arrived on %s, which no request of C%d in service names as an eligible address", r.name(), ev.local, ev.client)
		}
		if c := w.clients[ev.client]; c.altIP != "" && strings.TrimPrefix(ev.local, "udp/") == key(c.altIP, 4001) {
			o.Probe("dial-back-on-second-ip")
		}
		if strings.HasPrefix(ev.local, "udp/") {
			o.Probe("dial-back-over-quic-or-webtransport")
			if w.clients[ev.client].nat {
				o.Probe("dial-back-through-the-nat")
			}
		}
	}

	// ---- 2. every dial of the dialer host -----------------------------------------------------
	nDials := 0
	logged := map[string]int{}
	for _, d := range dials {
		if d.udp {
			// one trace line / signature element per destination, however many Initials were (re)transmitted
			logged[d.To]++
			if logged[d.To] == 1 {
				nDials++
				o.Logf("QUIC Initial from D to %s at %v #%d", d.To, d.StartAt, d.Start)
				sig = append(sig, "dial:"+d.To)
				o.Probe("quic-dial-by-dialer-host")
			}
		} else {
			nDials++
			o.Logf("dial by D to %s at %v #%d: %s", d.To, d.StartAt, d.Start, d.Outcome)
			sig = append(sig, "dial:"+d.To+":"+d.Outcome)
		}
		host, _, _ := net.SplitHostPort(strings.TrimPrefix(d.To, "udp/"))
		dip := net.ParseIP(host)
		type cand struct {
			r *reqRec
			e entry
		}
		var cands []cand
		onlyNever := true
		for _, r := range w.recs {
			if r.sentStamp == 0 || r.sentStamp > d.Start {
				continue
			}
			if r.ended && d.StartAt > r.endAt+dialGrace {
				continue
			}
			best := -1
			for i, e := range r.plan.entries {
				if e.ipport == d.To && (best < 0 || (r.plan.entries[best].cls == clsNever && e.cls != clsNever)) {
					best = i
				}
			}
			if best >= 0 {
				cands = append(cands, cand{r, r.plan.entries[best]})
				if r.plan.entries[best].cls != clsNever {
					onlyNever = false
				}
			}
		}
		if len(cands) == 0 {
			cls := "C16/dial-to-unrequested-address"
			if dip != nil && isPrivateIP(dip) {
				cls += "/private"
			}
			o.Violate(cls, "D dialled %s at %v (#%d) but no request in service names that address", d.To, d.StartAt, d.Start)
			continue
		}
		if onlyNever {
			o.Violate("C16/dial-to-ineligible-address", "D dialled %s at %v (#%d), named only as an ineligible entry (%s of %s)", d.To, d.StartAt, d.Start, cands[0].e.desc, cands[0].r.name())
			continue
		}
		justified, anyDDR := false, false
		var why []string
		for _, c := range cands {
			if c.e.cls == clsNever {
				continue
			}
			cip := net.ParseIP(w.clients[c.r.plan.peer].obsIP).String()
			if d.udp && logged[d.To] == 1 && strings.Contains(c.e.desc, "/webtransport") {
				o.Probe("dial-of-a-webtransport-address")
			}
			if c.e.ip == cip {
				justified = true
				o.Probe("dial-same-ip")
				if w.clients[c.r.plan.peer].nat {
					o.Probe("dial-to-the-nat-address-without-dial-data")
				}
				break
			}
			if c.r.ddr {
				anyDDR = true
				b := c.r.bytesBefore(d.Start)
				if b >= c.r.numBytes {
					justified = true
					o.Probe("dial-foreign-ip-after-dial-data")
					if host == ipV {
						o.Probe("victim-dialled-after-dial-data")
					}
					break
				}
				why = append(why, fmt.Sprintf("%s from %s: asked for %d bytes at #%d, client had started writes for %d bytes before #%d", c.r.name(), cip, c.r.numBytes, c.r.ddrStamp, b, d.Start))
			} else {
				why = append(why, fmt.Sprintf("%s from %s: no dial data was requested", c.r.name(), cip))
			}
		}
		if !justified {
			cls := "C16/amplification/dial-without-dial-data-request"
			if anyDDR {
				cls = "C16/amplification/dial-before-dial-data-complete"
			}
			o.Violate(cls, "D dialled %s at %v (#%d), an IP other than the requester's: %s", d.To, d.StartAt, d.Start, strings.Join(why, "; "))
		}
	}

	// ---- 2b. every other datagram of the dialer host goes to an endpoint some request named -----------------
	for _, d := range otherUDP {
		named := false
		for _, r := range w.recs {
			if r.sentStamp == 0 || r.sentStamp > d.Start {
				continue
			}
			for _, e := range r.plan.entries {
				if e.ipport == d.To && e.cls != clsNever {
					named = true
				}
			}
		}
		if !named {
			o.Violate("C16/datagram-to-unrequested-address", "D sent a datagram to %s at %v (#%d), an endpoint no request sent before names as an eligible address", d.To, d.StartAt, d.Start)
		}
	}

	// ---- 3. requests without any public, dialable address ---------------------------------------
	for _, r := range w.recs {
		if r.sentStamp == 0 || !r.allNever() {
			continue
		}
		if r.resp && r.status == pb.DialResponse_E_DIAL_REFUSED {
			o.Probe("refused-no-eligible-address")
		}
		if (r.resp && r.status == pb.DialResponse_OK) || r.nonceSeen {
			o.Violate("C16/no-eligible-address-not-refused", "%s names no public dialable address (%d entries) but got %s", r.name(), len(r.plan.entries), r.outcome())
		}
	}

	// ---- 4. sliding one-minute windows over accepted requests -------------------------------------
	var acc []*reqRec
	for _, r := range w.recs {
		if r.accepted() {
			acc = append(acc, r)
		}
	}
	window := func(class string, limit int, set []*reqRec, dd bool) {
		worst := 0
		for _, j := range set {
			_, hiJ := j.acceptWindow()
			if dd {
				hiJ = j.ddrAt
			}
			var in []string
			for _, i := range set {
				loI, hiI := i.acceptWindow()
				if dd {
					hiI = i.ddrAt
				}
				if hiI <= hiJ && loI > hiJ-minute {
					in = append(in, fmt.Sprintf("%s[%v..%v]", i.name(), loI, hiI))
				}
			}
			if len(in) > worst {
				worst = len(in)
			}
			if len(in) > limit {
				o.Violate("C16/rate-limit-exceeded/"+class, "limit %d but %d accepted requests lie in the window (%v, %v]: %s", limit, len(in), hiJ-minute, hiJ, strings.Join(in, " "))
				return
			}
		}
		if worst == limit {
			o.Probe("window-full-" + class)
		}
	}
	window("global", w.lim.rpm, acc, false)
	for p := range w.clients {
		var set []*reqRec
		for _, r := range acc {
			if r.plan.peer == p {
				set = append(set, r)
			}
		}
		window("per-peer", w.lim.perPeer, set, false)
	}
	var ddSet []*reqRec
	for _, r := range acc {
		if r.ddr {
			ddSet = append(ddSet, r)
		}
	}
	window("dial-data", w.lim.dialData, ddSet, true)

	// ---- 5. requests of one peer surely in service at one stamp --------------------------------------
	maxOverlap := 0
	for p := range w.clients {
		type iv struct {
			lo, hi uint64
			r      *reqRec
		}
		var ivs []iv
		for _, r := range w.recs {
			if r.plan.peer != p || !r.ddr || r.finalStamp == 0 {
				continue
			}
			if !((r.resp && r.status == pb.DialResponse_OK) || r.nonceSeen) {
				continue
			}
			ivs = append(ivs, iv{r.ddrStamp, r.finalStamp, r})
		}
		for _, a := range ivs {
			var in []string
			for _, b := range ivs {
				if b.lo <= a.lo && a.lo <= b.hi {
					in = append(in, fmt.Sprintf("%s[#%d..#%d]", b.r.name(), b.lo, b.hi))
				}
			}
			if len(in) > maxOverlap {
				maxOverlap = len(in)
			}
			if len(in) > w.lim.maxConc {
				o.Violate("C16/concurrent-requests-exceeded", "limit %d but at stamp #%d the server was serving %s", w.lim.maxConc, a.lo, strings.Join(in, " "))
				break
			}
		}
	}
	if maxOverlap >= 2 {
		o.Probe("concurrent-requests-of-one-peer-in-service")
	}
	if maxOverlap == w.lim.maxConc {
		o.Probe("concurrency-at-limit")
	}

	// ---- 6. rejected although no limit can have been reached ------------------------------------------
	rejected := 0
	for _, r := range w.recs {
		if !(r.resp && r.status == pb.DialResponse_E_REQUEST_REJECTED) {
			continue
		}
		rejected++
		conc, glob, peer := 0, 0, 0
		for _, x := range w.recs {
			if x == r || x.startAt > r.respAt {
				continue
			}
			q := x.quiesceAt()
			if x.plan.peer == r.plan.peer && q >= r.startAt {
				conc++
			}
			if q > r.startAt-minute {
				glob++
				if x.plan.peer == r.plan.peer {
					peer++
				}
			}
		}
		needDD := false
		cip := net.ParseIP(w.clients[r.plan.peer].obsIP).String()
		for _, e := range r.plan.entries {
			if e.cls != clsNever && e.ip != cip {
				needDD = true
			}
		}
		if conc < w.lim.maxConc && glob < w.lim.rpm && peer < w.lim.perPeer && (!needDD || glob < w.lim.dialData) {
			o.Violate("C16/rejected-below-every-limit", "%s was rejected at %v although at most %d other requests of the peer can have been in service (limit %d) and at most %d (peer: %d) other requests can lie in its minute (limits %d, %d, dial-data %d)",
				r.name(), r.respAt, conc, w.lim.maxConc, glob, peer, w.lim.rpm, w.lim.perPeer, w.lim.dialData)
		} else {
			o.Probe("rejected-with-a-limit-possibly-reached")
		}
	}

	// ---- probes, signature ---------------------------------------------------------------------------
	responded := 0
	for _, r := range w.recs {
		if r.resp {
			responded++
		}
		if r.ddr {
			o.Probe("dial-data-requested")
			switch {
			case r.finalStamp == 0 && !r.nonceSeen && !(r.resp && r.status == pb.DialResponse_OK):
				o.Probe("dial-data-incomplete-no-dial")
			case r.finalStamp != 0 && r.resp && r.status == pb.DialResponse_OK:
				o.Probe("dial-data-complete-then-answer")
			}
			if r.endKind == "server-reset" {
				o.Probe("server-reset-in-dial-data-phase")
			}
		}
		if r.resp && r.status == pb.DialResponse_OK && r.dialStatus == pb.DialStatus_OK && r.nonceSeen {
			o.Probe("honest-flow-ok")
		}
		if r.startAt == 0 && r.accepted() {
			o.Probe("request-accepted-at-time-zero-on-first-contact")
		}
		if len(r.plan.entries) >= 50 {
			o.Probe("long-address-list")
		}
		if r.plan.variant == varOversized && r.endKind == "server-reset" {
			o.Probe("oversized-request-reset")
		}
		if r.endKind == "server-reset" && r.ddr && r.finalStamp == 0 && r.endAt-r.startAt >= 14*time.Second {
			o.Probe("server-timed-out-waiting-for-dial-data")
		}
	}
	if rejected > 0 {
		o.Probe("request-rejected")
	}
	o.Sig = fmt.Sprintf("%+v|%s", w.lim, strings.Join(sig, "|"))
	o.Nontrivial = nDials >= 1 && responded >= 2
}
