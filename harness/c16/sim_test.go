//go:debug randseednop=0

// C16 — the AutoNAT v2 server cannot be used for amplification and obeys its rate limits.
//
// Full-stack, lock-level simulation. Real nodes on simnet (basic host, identify, swarm, TCP dial
// path, upgrader, Noise, multistream, yamux — all instrumented, plus the instrumented autonatv2 package; in the QUIC
// world also p2p/transport/quic + quicreuse + quic-go and, in part of the runs, p2p/transport/webtransport +
// webtransport-go + http3 over simnet's UDP model):
//
//	S  1.2.3.4:4001  the host the AutoNAT v2 service is started on (autonatv2.New(dialer, WithServerRateLimit(...)); Start(S.Host))
//	D  1.2.3.5       the service's dialer host, built the way libp2p.New builds it (config.makeAutoNATV2Host): a dial-only
//	                 swarm (no-delay dial ranker, read-only black-hole detector) under a BLANK host — no identify.
//	                 Every TCP dial-back is a logged simnet dial with From = 1.2.3.5, every UDP datagram it sends is seen
//	                 by the UDP filter (a datagram starting with a QUIC long-header Initial packet = a dial attempt).
//	V  9.9.9.9:4001  the amplification victim: a node that never talks to S and serves dial-back only to notice misuse
//	C0..C4  5.6.7.(10+i):4001, second listener on 7.7.(10+i).1:4001 (two clients may share an IP; a client may announce
//	                 V's address through identify)  byzantine clients (client_test.go)
//
// The first draw selects the stratum; 0-5 are the TCP world (everything above over TCP only), 6 is the QUIC world:
// S, V and the clients listen on TCP and /udp/4001/quic-v1 (second listeners too), in a third of the runs on
// /quic-v1/webtransport as well; D has the QUIC transport and in a third of the runs WebTransport; D's UDP black-hole
// counter is a shared counter in state Allowed (as on a host that has been dialling), absent, or fresh (the read-only
// detector then refuses UDP); each client reaches S over TCP or over QUIC (drawn), so that "the IP the request came
// from" is read from QUIC connections too; the first 0-3 clients sit behind ONE source NAT (n.SetNAT, public IP
// 6.6.6.6, private 10.1.0.(10+i):(4001+i)): S then observes 6.6.6.6 for all of them while they name their private
// address (never public: must not be dialled), the NAT's mapped endpoint (same IP as observed: no dial data; the QUIC
// dial-back really arrives through the mapping, the TCP one hangs like a dropped SYN) or a foreign IP (dial data);
// UDP loss (0/5/15 %), duplication and latencies are drawn and apply after the warm-up. Address lists of the QUIC world
// mix /tcp, /udp/../quic-v1, /quic-v1/webtransport with the node's CURRENT certhashes (dialable only if D has that
// transport: classified accordingly), webtransport without certhash, /quic-v1 on private IPs, DNS forms (/dns4, /dns,
// /dns6 + tcp or quic-v1, /dnsaddr: no transport claims them; a WebTransport-over-DNS form is NOT generated, the swarm
// would resolve it with the real resolver), kinds no transport claims (/ws, /tls/ws, /webrtc-direct, /p2p-circuit,
// draft-29 /quic), dead ports, other clients, S, garbage. Inside the QUIC world one of the scenarios 0, 1, 4, 5 runs.
// The statement's clauses and the oracles are the same in both worlds; the observed IP of a client is the NAT's.
//
// The clients speak /libp2p/autonat/2/dial-request raw. One run = a stratum (general mix | concurrency |
// one tight per-minute limit: global, per-peer, dial-data | slot accounting), a drawn configuration of the four
// limits, a population of 2-5 clients and 1-14 requests launched at drawn virtual instants (gaps 0 .. 75 s, so
// that bursts, concurrent requests of one peer and the edges of the one-minute window occur), each with a drawn
// address list (own / own IP dead port / own second IP / victim / other client / S / dead public IPv4+IPv6 /
// private / no transport / not a multiaddr / D's IP / own or foreign /p2p suffix; length 0, 1-4, 50-52, 120),
// a drawn request shape (normal, wrong first message, half a request then pause then rest or reset,
// oversized), a drawn dial-data script (correct exact/overshooting, short by 1..n-150 bytes, tiny
// messages, varied message sizes incl. 8186 B, frames that are not protobuf, HOLLOW frames whose protobuf
// length fields announce 1000..16000 data bytes while the frame carries 0..1000 of them, a TRUNCATED LAST MESSAGE
// (complete messages until about what one more message of 206..8192 bytes would carry is owed — exactly that, 100 or
// 3000 less, 1 or 2000 more, or 1 byte — then the outer length prefix of that message and only 1, 2, 100, half or
// all-but-one bytes of its body, then CloseWrite while the response is still read), early close/reset, a
// message of more than 8192 B, pauses before / in the middle), a drawn dial-back handler (answer, delayed
// answer, reset, close without answer) and a drawn stage at which the client resets the request stream (never |
// when the dial-back nonce arrives, before the dial-back is answered — the server's response write then fails |
// right after the dial-back was answered | after the request | after the write that completed the dial data).
// The slot-accounting stratum is a scenario with drawn details: one peer keeps limit-1 requests in service
// (held 6 s in the dial-data phase), lets 1-2 further requests fail at a drawn stage (the four reset stages,
// dial-back reset / unanswered, abort in the dial-data phase), then opens limit+1 new requests.
//
// Warm-up and cold start. By default every client connects to S and lets identify complete before its first request
// (loss-free in the QUIC world), as a long-running client would. The LAST draw of the workload tape makes a third of
// the runs cold for all clients and a sixth for the even-numbered ones: the first request of a cold client is its first
// contact with S — connection set-up, identify, non-lazy protocol negotiation, the NAT mapping and UDP loss all happen
// under the request (or under several concurrent first requests), and it may start at virtual time 0. No oracle depends
// on the warm-up. The other first uses were cold already: no request is sent before the experiment (the limiter's first
// window and the server's first request are drawn ones), the dialer host has no contact with anybody before its first
// dial-back (its first dial may be refused, blackholed, answered by the wrong peer, reset by the dial-back handler), and
// its UDP black-hole counter is fresh in an eighth of the QUIC-world runs. The harness calls nothing on the code under
// test to observe it during a run (responses, simnet's dial log and the UDP filter are the observations; the dialer's
// peerstore is read once, after the last request and 40 virtual seconds, with pstoremem's read-only Addrs).
//
// Dial-data bytes are counted ON THE WIRE of the raw client: a well-formed DialDataResponse frame is credited with
// its data length, every other frame (not protobuf, hollow) with the number of bytes really written.
//
// math/rand's global source (dial-data size, wait before the dial) is pinned per run from the tape
// (randseednop=0 + rand.Seed); the oracles do not depend on it: the requested size is read from the
// server's DialDataRequest.
//
// Oracles (classes), all evaluated after the run from stamped histories and simnet's dial log:
//
//	C16/dial-to-unrequested-address[/private]   a dial of D whose target appears in no request that was sent before
//	                                            the dial started and ended (client-observed) at most 30 virtual
//	                                            seconds before it.  Weaker reading: the statement ties a dial to "the
//	                                            client's request"; a dial already queued in the dialer's swarm may start
//	                                            after the client saw the request end, so a grace period is allowed and
//	                                            ANY peer's request justifies the target.
//	C16/dial-to-ineligible-address              ... appears only as an entry that is surely not public+dialable
//	C16/datagram-to-unrequested-address         any other UDP datagram of D to an endpoint that no request sent before it names
//	C16/amplification/dial-without-dial-data-request, C16/amplification/dial-before-dial-data-complete
//	                                            no candidate request justifies the dial: for each candidate the target IP
//	                                            differs from the client's IP and the client had not STARTED writes
//	                                            carrying >= the requested number of dial-data bytes before the dial's
//	                                            start stamp (bytes are credited when the write starts = weakest;
//	                                            well-formed DialDataResponse frames are credited with their data length,
//	                                            frames that are not protobuf with their full length on the wire)
//	C16/dial-data-request-out-of-range          DialDataRequest.NumBytes outside [30000, 100000]
//	C16/dial-back-stream-to-other-peer/{victim,client}
//	                                            the victim, or a client none of whose requests carries the nonce, received a
//	                                            dial-back stream
//	C16/dial-back-on-unrequested-address        the dial-back connection arrived on an address that no request of that client
//	                                            in service names (DESIGN reading: "an eligible address of one of ITS in-flight
//	                                            requests" — the dialer keeps one connection per peer, see observation 2)
//	C16/no-eligible-address-not-refused         a request whose entries are all surely ineligible got status OK or a dial-back
//	                                            (weaker reading: a DialDataRequest alone is not counted as "not refused")
//	C16/rate-limit-exceeded/{global,per-peer,dial-data}
//	                                            more accepted requests than the limit whose accept instants surely lie in
//	                                            one half-open window (t-60s, t].  "Accepted" = the server asked for dial
//	                                            data, answered status OK or dialled back (E_DIAL_REFUSED answers are not
//	                                            counted = weaker).  The accept instant of a request is only known to lie in
//	                                            [client started opening the stream, first evidence seen by the client];
//	                                            a set is reported only if max(upper) - min(lower) < 60 s.
//	C16/concurrent-requests-exceeded            more than the configured number of requests of one peer surely in service at
//	                                            one stamp: a request is surely in service from the stamp at which the client
//	                                            read its DialDataRequest to the stamp at which the client started the write
//	                                            that completed the dial data, provided the server afterwards answered OK or
//	                                            dialled back (so its handler was alive before and after).
//	C16/rejected-below-every-limit              E_REQUEST_REJECTED although, counting EVERY request ever sent that could still
//	                                            be in service / in the last minute (any outcome, with 60 s slack for requests
//	                                            the client abandoned), no configured limit can have been reached.  This is the
//	                                            converse reading of "obeys its limits" (a limiter whose in-flight counter leaks
//	                                            serves fewer than the configured number); it is kept apart in its own class.
//
// Sensitivity. Mutations of the instrumented overlay copy of server.go, one at a time, 8 workers x <= 40 s
// search each (all caught, by all 8 workers unless noted; "t" = seconds until the fastest .. the slowest worker
// had found AND minimised (4 s cap) its first violation on a machine shared with other jobs; a few workers
// needed 70-320 s more, spent in common.minimise copying long schedule tapes after its budget was exhausted):
//
//	dial although getDialData failed (error ignored)            amplification/dial-before-dial-data-complete   t 11..23
//	readDialData returns after the first >=100 B message        amplification/dial-before-dial-data-complete   t 7..13
//	policy compares the observed IP with itself (never data)    amplification/dial-without-dial-data-request   t 3..7
//	policy inverted (data only for the same IP)                 amplification/dial-without-dial-data-request   t 2..15
//	remain starts at numBytes/2                                 amplification/dial-before-dial-data-complete   t 5..10
//	remain -= len(msg) (framing counted as dial data)           amplification/dial-before-dial-data-complete   t 5..13
//	loop ends at remain > 1 (one byte fewer accepted)           amplification/dial-before-dial-data-complete   t 6..19
//	every valid address of the request handed to the dialer     amplification/*, dial-to-unrequested-address   t 4..16
//	cleanup drops one extra live global entry                   rejected-below-every-limit, rate-limit-exceeded/global   t 10..23
//	tumbling instead of sliding window                          rate-limit-exceeded/per-peer, /global          t 10..24
//	cleanup drops one extra live per-peer entry                 rate-limit-exceeded/per-peer                   t 8..22
//	cleanup drops one extra live dial-data entry                rate-limit-exceeded/dial-data                  t 9..28
//	window of 50 s                                              rate-limit-exceeded/global, /per-peer          t 6..19
//	global limit off by one (> for >=)                          rate-limit-exceeded/global                     t 1..5
//	per-peer limit off by one                                   rate-limit-exceeded/per-peer                   t 2..12
//	dial-data limit off by one                                  rate-limit-exceeded/dial-data                  t 9..20
//	dial-data limiter not consulted                             rate-limit-exceeded/dial-data                  t 8..16
//	concurrent limit off by one                                 concurrent-requests-exceeded                   t 11..25
//	inProgressReqs never incremented                            concurrent-requests-exceeded                   t 11..28
//	CompleteRequest never called                                rejected-below-every-limit                     t 4..13
//	private addresses not skipped                               dial-to-ineligible-address, no-eligible-address-not-refused   t 6..38
//	CanDial not consulted                                       no-eligible-address-not-refused                t 6..45
//	NumBytes = 100 + rand (below 30000)                         dial-data-request-out-of-range                 t 5..11
//	dial-back carries the previous request's nonce              dial-back-stream-to-other-peer/client          t 6..15 (6 of 8 workers)
//
// Second-round seeded changes (whole trees via VERIF_REPO, ./check C16 quick, 45 s, 8 workers; all 8 workers report):
//
//	readDialData trusts the ANNOUNCED data length of a frame    amplification/dial-before-dial-data-complete   (hollow frames: asked 97515 B,
//	                                                            84 B written, D dials the foreign address)     first report after <= 25 runs/worker
//	slot released before the response write + again by the      concurrent-requests-exceeded                   (slot-accounting stratum: B held,
//	guarded defer when that write fails                         A reset at the nonce, then C, D, E: B, C, D served with limit 2)
//
// Third round (QUIC world; mutations of the overlay copy of server.go, 8 workers, first..slowest report in seconds):
//
//	policy compares the dial IP with the connection's LOCAL address     amplification/dial-without-dial-data-request   t 3..7
//	                                                                    (a client names S's own IP: no data asked), rejected-below-every-limit
//	no dial data for /udp addresses                                     amplification/dial-without-dial-data-request   t 3..4  (QUIC Initial to a foreign IP)
//	private /quic-v1 addresses treated as dialable                      dial-to-ineligible-address, no-eligible-address-not-refused   t 4..21
//	limiter keyed by the observed IP instead of the peer id             rejected-below-every-limit (two clients behind the NAT)       t 2..8
//	policy also compares ports                                          amplification/dial-without-dial-data-request   t 1..3
//
// Fourth round seeded change (VERIF_REPO tree, 45 s, 8 workers, all 8 report within 25 runs each): msgReader.ReadMsg
// returns the full declared-length buffer when the stream ends mid-message -> amplification/dial-before-dial-data-complete
// (truncated last message: asked 97515 B, 89333 B written incl. 2 bytes of a message announced as 8192, CloseWrite, D
// dials the foreign address).
//
// Unchanged tree: 0 violations over 15959 runs (seed 1) + 7330 runs (seed 77) + the quick tier (first round); after the
// second-round strengthening a 240 s x 8 workers soak and the quick tier are clean; ./check selftest identical.
//
// Observations on the unchanged tree (none is a violation of the statement for the shipped configuration; recorded
// for DESIGN.md by the lead):
//
//  1. API hazard when the dialerHost passed to autonatv2.New runs identify (a basic host instead of the blank host
//     libp2p.New gives it; C16_BASIC_DIALER=1 builds that world, the registered check never sets it).
//     server.dialBack dials Connect(AddrInfo{ID: p}) = every address the dialer's peerstore holds for p, and its cleanup
//     (ClosePeer; ClearAddrs; RemovePeer) races with identify's asynchronous netNotifiee.Disconnected, which reads
//     Addrs(p) — the listen addresses the client ANNOUNCED — before ClearAddrs and re-adds them with
//     RecentlyConnectedAddrTTL (15 min) after it.  The next dial-back for that peer then dials addresses no request
//     named, without dial data, and answers OK/OK for an address it did not dial.  Minimised history
//     (finding-identify-dialer.replay.json; clean without the env var): C1 = 5.6.7.11 with second listener
//     7.7.11.1.  R0 of C1 names only /ip4/7.7.11.1/tcp/4001, is asked for 32304 B, writes 32768 B, D dials
//     7.7.11.1:4001 at 2.99 s, dial-back delivered, cleanup.  R5 of C1 names only /ip4/7.7.11.1/tcp/4001 again, is
//     asked for 55610 B, writes 57344 B, and at 4.56 s D dials 5.6.7.11:4001 — named by no request, learnt through
//     identify during R0's connection — and delivers R5's nonce there; R5 is answered OK/OK@0.
//     Classes C16/dial-to-unrequested-address and C16/dial-back-on-unrequested-address.  A one-line mitigation would
//     be ClearAddrs(p) before AddAddr in dialBack.
//  2. Two concurrent requests of one peer share the dialer's single connection and peerstore entry: C1's R1 names
//     5.6.7.11:4999 (nobody listens), R2 names 5.6.7.11:4001 at the same instant; D dials :4001 once, R1's nonce is
//     delivered over that connection and R1 is answered OK/OK@0 for the dead address.  The statement does not speak
//     about the truthfulness of the answer (the real client rejects it through areAddrsConsistent); the probe
//     dial-back-over-connection-of-sibling-request counts these.
package c16

import (
	"fmt"
	"math/rand"
	"net"
	"os"
	"sort"
	"strings"
	"testing"
	"time"

	"github.com/libp2p/go-libp2p/core/host"
	"github.com/libp2p/go-libp2p/core/peer"
	"github.com/libp2p/go-libp2p/core/peerstore"
	basichost "github.com/libp2p/go-libp2p/p2p/host/basic"
	blankhost "github.com/libp2p/go-libp2p/p2p/host/blank"
	"github.com/libp2p/go-libp2p/p2p/net/swarm"
	"github.com/libp2p/go-libp2p/p2p/protocol/autonatv2"
	ma "github.com/multiformats/go-multiaddr"
	"github.com/multiformats/go-multibase"
	mh "github.com/multiformats/go-multihash"

	"verifsim/harness/common"
	"verifsim/simhost"
	"verifsim/simnet"
	"verifsim/simrand"
	"verifsim/simrt"
)

func TestSim(t *testing.T) { common.Main(t, common.Harness{Property: "C16", Run: run}) }

const (
	ipS   = "1.2.3.4"
	ipD   = "1.2.3.5"
	ipV   = "9.9.9.9"
	ipNAT = "6.6.6.6" // public IP of the NAT that some clients of the QUIC world sit behind
)

// a well-formed certhash component for WebTransport / WebRTC addresses of endpoints that have no such listener
var fakeCerthash = func() string {
	h, err := mh.Sum([]byte("verifsim c16"), mh.SHA2_256, -1)
	if err != nil {
		panic(err)
	}
	s, err := multibase.Encode(multibase.Base64url, h)
	if err != nil {
		panic(err)
	}
	return s
}()

// qworld = the configuration of the QUIC world (stratum 6 of the first draw)
type qworld struct {
	on        bool
	dWT       bool // the dialer host has the WebTransport transport
	nodesWT   bool // clients and the victim listen on WebTransport too
	blackHole int  // the dialer's UDP black-hole counter: 0 shared counter in state Allowed, 1 detector off, 2 fresh counter (read-only => UDP refused)
	drop, dup int  // UDP loss / duplication per mille after the warm-up
	ulat      bool
	natN      int // clients 0..natN-1 sit behind ONE NAT
}

type limits struct{ rpm, perPeer, dialData, maxConc int }

type world struct {
	o        *common.Outcome
	n        *simnet.Net
	lim      limits
	S, D, V  *simhost.Node
	clients  []*client
	recs     []*reqRec
	byNonce  map[uint64]*reqRec
	dbEvents []dbEvent
	done     int

	q        qworld
	warm     bool               // warm-up phase: no UDP loss
	udpInit  []dialRec          // every QUIC Initial datagram the dialer host sent
	udpOther map[string]dialRec // the first other datagram of the dialer host per destination
}

func key(ip string, port int) string {
	return net.JoinHostPort(net.ParseIP(ip).String(), fmt.Sprint(port))
}

func udpEntry(ip string, port int, suffix string, cls int) entry {
	ipv := "ip4"
	if p := net.ParseIP(ip); p != nil && p.To4() == nil {
		ipv = "ip6"
	}
	s := fmt.Sprintf("/%s/%s/udp/%d%s", ipv, ip, port, suffix)
	return entry{raw: ma.StringCast(s).Bytes(), desc: s, ip: net.ParseIP(ip).String(), ipport: "udp/" + key(ip, port), cls: cls}
}

func tcpEntry(ipv string, ip string, port int, suffix string, cls int, dialable bool) entry {
	s := fmt.Sprintf("/%s/%s/tcp/%d%s", ipv, ip, port, suffix)
	e := entry{raw: ma.StringCast(s).Bytes(), desc: s, ip: net.ParseIP(ip).String(), cls: cls}
	if dialable {
		e.ipport = key(ip, port)
	}
	return e
}

func otherEntry(s string, ip string) entry {
	return entry{raw: ma.StringCast(s).Bytes(), desc: s, ip: net.ParseIP(ip).String(), cls: clsNever}
}

var privateIPs = []string{"10.0.0.7", "192.168.1.5", "127.0.0.1", "172.16.3.4", "169.254.1.1"}
var privateIP6s = []string{"::1", "fd00::1", "fe80::1"}
var malformed = [][]byte{{}, {0xff}, {0x04, 0x01, 0x02}, {0x06, 0x0f}, {0x04, 5, 6, 7, 8, 0x06}, {0xa5, 0x03, 0x01}}

var gaps = []time.Duration{0, 100 * time.Millisecond, time.Second, 5 * time.Second, 14 * time.Second, 30 * time.Second, 45 * time.Second,
	60*time.Second - time.Millisecond, 60 * time.Second, 75 * time.Second}
var holds = []time.Duration{0, 300 * time.Millisecond, 2 * time.Second, 6 * time.Second, 16 * time.Second}
var variedSizes = []int{4096, 100, 127, 128, 129, 1000, 5000, 8186}
var tinySizes = []int{0, 1, 50, 99}
var garbageSizes = []int{4102, 106, 8192}

// profile = the weights of one stratum
type profile struct {
	maxPeers, minReq, maxReq int
	peerBias                 int     // >0: a request comes from C0 unless a 1-in-peerBias draw says otherwise
	entry                    [14]int // kinds of drawEntry
	gap                      [10]int // index into gaps
	variant                  [5]int
	length                   [5]int // 1 | 2-4 | 0 | 50-52 | 120 entries
	dd                       [9]int
	holdBefore               [5]int // index into holds
	reset                    [5]int // stage at which the client resets the request stream (resetNever ...)
}

// entry kinds of the QUIC world (drawEntryQ): general mix, and the scenarios that want addresses needing dial data
var qMix = [18]int{2, 3, 2, 1, 3, 3, 1, 2, 2, 1, 3, 1, 2, 2, 1, 1, 1, 1}
var qForeign = [18]int{1, 1, 0, 0, 5, 4, 2, 0, 2, 0, 0, 0, 0, 0, 1, 0, 1, 1}

var hollowAnnounced = []int{8000, 8192, 4096, 1000, 16000}
var hollowCarried = []int{0, 0, 10, 150, 1000}

var profiles = []profile{
	{maxPeers: 5, minReq: 1, maxReq: 14,
		entry:   [14]int{3, 4, 3, 3, 1, 1, 1, 3, 2, 2, 1, 1, 1, 1},
		gap:     [10]int{8, 2, 3, 3, 2, 3, 2, 1, 2, 1},
		variant: [5]int{14, 1, 1, 1, 1}, length: [5]int{8, 6, 1, 2, 1},
		dd: [9]int{6, 5, 2, 3, 1, 2, 1, 3, 3}, holdBefore: [5]int{8, 2, 2, 1, 1}, reset: [5]int{16, 1, 1, 1, 1}},
	{maxPeers: 2, minReq: 2, maxReq: 8, peerBias: 4,
		entry:   [14]int{1, 1, 5, 5, 1, 1, 1, 0, 0, 0, 0, 0, 0, 0},
		gap:     [10]int{10, 3, 2, 1, 0, 0, 0, 0, 0, 0},
		variant: [5]int{1, 0, 0, 0, 0}, length: [5]int{6, 1, 0, 0, 0},
		dd: [9]int{10, 2, 0, 1, 1, 1, 0, 1, 1}, holdBefore: [5]int{2, 4, 4, 1, 0}, reset: [5]int{10, 2, 2, 1, 1}},
	{maxPeers: 3, minReq: 3, maxReq: 14,
		entry:   [14]int{1, 8, 1, 2, 0, 1, 0, 1, 0, 0, 0, 0, 0, 0},
		gap:     [10]int{4, 1, 2, 3, 4, 4, 3, 2, 3, 2},
		variant: [5]int{20, 0, 1, 0, 0}, length: [5]int{8, 2, 0, 0, 0},
		dd: [9]int{4, 2, 0, 0, 0, 6, 0, 0, 0}, holdBefore: [5]int{10, 1, 1, 0, 0}, reset: [5]int{1, 0, 0, 0, 0}},
	{maxPeers: 3, minReq: 3, maxReq: 14, peerBias: 3,
		entry:   [14]int{1, 8, 1, 2, 0, 1, 0, 1, 0, 0, 0, 0, 0, 0},
		gap:     [10]int{4, 1, 2, 3, 4, 4, 3, 2, 3, 2},
		variant: [5]int{20, 0, 1, 0, 0}, length: [5]int{8, 2, 0, 0, 0},
		dd: [9]int{4, 2, 0, 0, 0, 6, 0, 0, 0}, holdBefore: [5]int{10, 1, 1, 0, 0}, reset: [5]int{1, 0, 0, 0, 0}},
	{maxPeers: 3, minReq: 3, maxReq: 14,
		entry:   [14]int{0, 2, 4, 6, 1, 1, 0, 0, 0, 0, 0, 0, 0, 0},
		gap:     [10]int{4, 1, 2, 3, 4, 4, 3, 2, 3, 2},
		variant: [5]int{1, 0, 0, 0, 0}, length: [5]int{8, 2, 0, 0, 0},
		dd: [9]int{3, 2, 0, 0, 0, 8, 0, 2, 2}, holdBefore: [5]int{10, 1, 0, 0, 0}, reset: [5]int{1, 0, 0, 0, 0}},
	// 5 = slot accounting: the draws below are overridden by the role of each request
	{maxPeers: 2, minReq: 4, maxReq: 4,
		entry:   [14]int{1, 0, 0, 0, 0, 0, 0, 0, 0, 0, 0, 0, 0, 0},
		gap:     [10]int{1, 0, 0, 0, 0, 0, 0, 0, 0, 0},
		variant: [5]int{1, 0, 0, 0, 0}, length: [5]int{1, 0, 0, 0, 0},
		dd: [9]int{1, 0, 0, 0, 0, 0, 0, 0, 0}, holdBefore: [5]int{1, 0, 0, 0, 0}, reset: [5]int{1, 0, 0, 0, 0}},
}

// C16_BASIC_DIALER=1 gives the service a basic host (identify) as its dialer host instead of the blank host that
// libp2p.New gives it; used to reproduce the finding described at the top of this file.
var basicDialer = os.Getenv("C16_BASIC_DIALER") != ""

func isPrivateIP(ip net.IP) bool {
	return ip.IsPrivate() || ip.IsLoopback() || ip.IsLinkLocalUnicast() || ip.IsUnspecified()
}

func run(t *testing.T, tape *simrt.Tape) *common.Outcome {
	g := simrt.Gen{S: tape.G}
	o := &common.Outcome{}
	w := &world{o: o, byNonce: map[uint64]*reqRec{}}

	// ---- configuration -------------------------------------------------------------------
	// The stratum is drawn first: 0 = general mix; 1 = concurrency (generous per-minute limits, bursts of one
	// peer's requests that need dial data and are held before the data is sent); 2, 3, 4 = windows (ONE tight
	// per-minute limit — global, per-peer, dial-data — the others generous; many cheap requests over minutes);
	// 5 = slot accounting: one peer keeps limit-1 requests in service (held in the dial-data phase), lets 1-2
	// further requests FAIL at a drawn stage (reset when the dial-back arrives / after it was answered / after the
	// request / after the dial data / in the dial-data phase, dial-back reset or unanswered), then opens limit+1
	// new requests while the first ones are still in service.
	// 6 = the QUIC world (appended, so that small first draws keep their meaning): everybody has the real QUIC
	// transport over simnet's UDP model, part of the runs WebTransport too; some clients sit behind one NAT; one of the
	// scenarios 0, 1, 4, 5 above is then drawn inside it.
	stratum := g.Weighted(3, 2, 1, 1, 1, 2, 5)
	if stratum == 6 {
		w.q = qworld{on: true}
		stratum = []int{0, 1, 4, 5}[g.Weighted(4, 2, 1, 2)]
		w.q.dWT = g.Chance(1, 3)
		w.q.nodesWT = g.Chance(1, 3)
		w.q.blackHole = g.Weighted(6, 1, 1)
		w.q.drop = []int{0, 0, 50, 150}[g.Int(4)]
		w.q.dup = []int{0, 30}[g.Int(2)]
		w.q.ulat = g.Chance(1, 3)
		w.q.natN = g.Weighted(2, 2, 2, 1)
	}
	pf := profiles[stratum]
	nHeld, nFail, nFollow := 0, 0, 0
	switch stratum {
	case 5:
		w.lim = limits{rpm: 14, perPeer: 12, dialData: 10, maxConc: g.Range(2, 3)}
		nHeld, nFail, nFollow = w.lim.maxConc-1, g.Range(1, 2), w.lim.maxConc+1
	case 1:
		w.lim = limits{rpm: 12, perPeer: 8, dialData: 8, maxConc: g.Range(1, 3)}
	case 2:
		w.lim = limits{rpm: g.Range(1, 3), perPeer: 8, dialData: 8, maxConc: 3}
	case 3:
		w.lim = limits{rpm: 10, perPeer: g.Range(1, 3), dialData: 8, maxConc: 3}
	case 4:
		w.lim = limits{rpm: 10, perPeer: 8, dialData: g.Range(1, 3), maxConc: 3}
	default:
		w.lim = limits{rpm: g.Range(2, 9), perPeer: g.Range(1, 5), dialData: g.Range(1, 4), maxConc: g.Range(1, 3)}
	}
	nPeers := g.Range(2, pf.maxPeers)
	shareIP := g.Chance(1, 4)
	mode := []simnet.LinkMode{simnet.Whole, simnet.Fragment}[g.Int(2)]
	var lat []time.Duration
	if g.Chance(1, 4) {
		lat = []time.Duration{0, 0, time.Millisecond, 20 * time.Millisecond}
	}
	seed := int64(g.Int(1 << 16))
	nReq := g.Range(pf.minReq, pf.maxReq)
	if stratum == 5 {
		nReq = nHeld + nFail + nFollow
	}

	idOf := func(seed int) peer.ID {
		id, err := peer.IDFromPrivateKey(simhost.DetKey(seed))
		if err != nil {
			panic(err)
		}
		return id
	}
	idV := idOf(3)
	cl := make([]*client, nPeers)
	for i := range cl {
		cl[i] = &client{idx: i, ip: fmt.Sprintf("5.6.7.%d", 10+i), port: 4001, altIP: fmt.Sprintf("7.7.%d.1", 10+i)}
	}
	if w.q.on {
		if w.q.natN > nPeers {
			w.q.natN = nPeers
		}
		for i, c := range cl {
			c.viaQUIC = g.Bool()
			if i < w.q.natN { // behind the NAT: private IP, a port of its own (so that the port-preserving mapping is known)
				c.nat, c.ip, c.port, c.altIP, c.obsIP = true, fmt.Sprintf("10.1.0.%d", 10+i), 4001+i, "", ipNAT
			}
		}
		shareIP = shareIP && !cl[0].nat && !cl[1].nat
	}
	if shareIP {
		cl[1].ip, cl[1].port = cl[0].ip, 4002
	}
	for _, c := range cl {
		if !c.nat {
			c.obsIP = c.ip
		}
	}
	// byzantine identify: the client announces the victim's address as one of its own listen addresses
	// (what a peer announces through identify is under its control)
	for _, c := range cl {
		c.announceVictim = g.Chance(1, 3)
	}
	w.clients = cl
	var announce []int
	for _, c := range cl {
		if c.announceVictim {
			announce = append(announce, c.idx)
		}
	}
	o.Logf("stratum %d limits: global=%d per-peer=%d dial-data=%d concurrent-per-peer=%d; %d clients shareIP=%v announce-victim=%v link=%d latencies=%v randseed=%d",
		stratum, w.lim.rpm, w.lim.perPeer, w.lim.dialData, w.lim.maxConc, nPeers, shareIP, announce, mode, lat != nil, seed)
	if w.q.on {
		var via []string
		for _, c := range cl {
			v := "tcp"
			if c.viaQUIC {
				v = "quic"
			}
			if c.nat {
				v += fmt.Sprintf("+nat(%s:%d)", c.ip, c.port)
			}
			via = append(via, v)
		}
		o.Logf("QUIC world: dialer has webtransport=%v, nodes listen on webtransport=%v, dialer's UDP black-hole counter=%d, udp drop=%d dup=%d latencies=%v; clients reach S via %v (NAT public IP %s)",
			w.q.dWT, w.q.nodesWT, w.q.blackHole, w.q.drop, w.q.dup, w.q.ulat, via, ipNAT)
	}

	wtCls := clsNever // a WebTransport address is dialable only if the dialer host has that transport
	if w.q.dWT {
		wtCls = clsYes
	}
	drawEntryQ := func(c *client) entry {
		wts := qMix
		if stratum == 1 || stratum == 4 {
			wts = qForeign
		}
		switch g.Weighted(wts[:]...) {
		case 0: // own TCP address at the observed IP (behind the NAT: no port forwarding, the dial hangs)
			return tcpEntry("ip4", c.obsIP, c.port, "", clsYes, true)
		case 1: // own QUIC address at the observed IP (behind the NAT: the mapped endpoint)
			return udpEntry(c.obsIP, c.port, "/quic-v1", clsYes)
		case 2:
			return tcpEntry("ip4", c.obsIP, 4999, "", clsYes, true)
		case 3:
			return udpEntry(c.obsIP, 4999, "/quic-v1", clsYes)
		case 4: // own second IP
			if c.altIP != "" {
				if g.Bool() {
					return udpEntry(c.altIP, 4001, "/quic-v1", clsYes)
				}
				return tcpEntry("ip4", c.altIP, 4001, "", clsYes, true)
			}
			return udpEntry(ipV, 4001, "/quic-v1", clsYes)
		case 5:
			return udpEntry(ipV, 4001, "/quic-v1", clsYes)
		case 6:
			return tcpEntry("ip4", ipV, 4001, "", clsYes, true)
		case 7:
			e := udpEntry(c.obsIP, c.port, "/quic-v1/webtransport", wtCls)
			e.lazy, e.desc = lazyOwnWT, e.desc+"/certhash/<own, current>"
			return e
		case 8:
			e := udpEntry(ipV, 4001, "/quic-v1/webtransport", wtCls)
			e.lazy, e.desc = lazyVictimWT, e.desc+"/certhash/<victim's, current>"
			return e
		case 9: // WebTransport without a certhash: the transport claims it, the dial cannot succeed
			cls := clsNever
			if w.q.dWT {
				cls = clsMaybe
			}
			return udpEntry(ipV, 4001, "/quic-v1/webtransport", cls)
		case 10: // the client's own private address
			if c.nat {
				if g.Bool() {
					return udpEntry(c.ip, c.port, "/quic-v1", clsNever)
				}
				return tcpEntry("ip4", c.ip, c.port, "", clsNever, true)
			}
			return udpEntry("10.0.0.7", 4001, "/quic-v1", clsNever)
		case 11:
			return udpEntry([]string{"192.168.1.5", "127.0.0.1", "172.16.3.4", "fd00::1"}[g.Int(4)], 4001, "/quic-v1", clsNever)
		case 12: // DNS forms: no transport of the dialer host claims them (no WebTransport-over-DNS form: that one would be resolved)
			k := g.Int(5)
			s := []string{"/dns4/example.com/tcp/4001", "/dns/example.com/udp/4001/quic-v1", "/dns6/example.com/tcp/4001", "/dnsaddr/example.com", "/dns4/localhost/tcp/4001"}[k]
			cls := clsMaybe
			if k == 4 {
				cls = clsNever
			}
			return entry{raw: ma.StringCast(s).Bytes(), desc: s, cls: cls}
		case 13: // kinds no transport of the dialer host claims
			s := []string{
				fmt.Sprintf("/ip4/%s/tcp/%d/ws", c.obsIP, c.port),
				fmt.Sprintf("/ip4/%s/udp/%d/webrtc-direct/certhash/%s", c.obsIP, c.port, fakeCerthash),
				fmt.Sprintf("/ip4/%s/udp/4001/quic-v1/p2p/%s/p2p-circuit", ipV, idV),
				fmt.Sprintf("/ip4/%s/udp/%d/quic", c.obsIP, c.port),
				fmt.Sprintf("/ip4/%s/tcp/%d/tls/ws", ipV, 4001),
			}[g.Int(5)]
			return entry{raw: ma.StringCast(s).Bytes(), desc: s, cls: clsNever}
		case 14:
			return udpEntry("8.8.4.4", 4001, "/quic-v1", clsYes)
		case 15:
			b := malformed[g.Int(len(malformed))]
			return entry{raw: b, desc: fmt.Sprintf("raw:%x", b), cls: clsNever}
		case 16:
			oc := cl[(c.idx+1+g.Int(nPeers-1))%nPeers]
			return udpEntry(oc.obsIP, oc.port, "/quic-v1", clsYes)
		}
		return udpEntry(ipS, 4001, "/quic-v1", clsYes)
	}

	drawEntry := func(c *client) entry {
		if w.q.on {
			return drawEntryQ(c)
		}
		switch g.Weighted(pf.entry[:]...) {
		case 0:
			return tcpEntry("ip4", c.ip, c.port, "", clsYes, true)
		case 1: // own IP, nobody listens: the cheapest accepted request
			return tcpEntry("ip4", c.ip, 4999, "", clsYes, true)
		case 2: // own second IP: foreign to the observed address, but really ours
			return tcpEntry("ip4", c.altIP, 4001, "", clsYes, true)
		case 3:
			return tcpEntry("ip4", ipV, 4001, "", clsYes, true)
		case 4:
			oc := cl[(c.idx+1+g.Int(nPeers-1))%nPeers]
			return tcpEntry("ip4", oc.ip, oc.port, "", clsYes, true)
		case 5:
			return tcpEntry("ip4", "8.8.4.4", 4001, "", clsYes, true)
		case 6:
			return tcpEntry("ip4", ipS, 4001, "", clsYes, true)
		case 7:
			if g.Chance(1, 4) {
				return tcpEntry("ip6", privateIP6s[g.Int(len(privateIP6s))], 4001, "", clsNever, true)
			}
			return tcpEntry("ip4", privateIPs[g.Int(len(privateIPs))], 4001, "", clsNever, true)
		case 8: // no transport for it on the dialer host
			switch g.Int(4) {
			case 0:
				return otherEntry(fmt.Sprintf("/ip4/%s/udp/4001/quic-v1", c.ip), c.ip)
			case 1:
				return otherEntry(fmt.Sprintf("/ip4/%s/udp/4001/quic-v1/webtransport", ipV), ipV)
			case 2:
				return tcpEntry("ip4", c.ip, c.port, "/ws", clsNever, false)
			}
			return tcpEntry("ip4", ipV, 4001, "/p2p/"+idV.String()+"/p2p-circuit", clsNever, false)
		case 9:
			b := malformed[g.Int(len(malformed))]
			return entry{raw: b, desc: fmt.Sprintf("raw:%x", b), cls: clsNever}
		case 10: // the dialer host's own IP (with C16_BASIC_DIALER its listen address, which a swarm refuses to dial)
			return tcpEntry("ip4", ipD, 4001, "", clsMaybe, true)
		case 11:
			return tcpEntry("ip4", c.ip, c.port, "/p2p/"+idOf(10+c.idx).String(), clsYes, true)
		case 12:
			return tcpEntry("ip4", c.ip, c.port, "/p2p/"+idV.String(), clsMaybe, true)
		}
		return tcpEntry("ip6", "2001:4860:4860::8888", 4001, "", clsYes, true)
	}
	drawFiller := func() entry {
		switch g.Int(3) {
		case 0:
			return tcpEntry("ip4", privateIPs[g.Int(len(privateIPs))], 4001, "", clsNever, true)
		case 1:
			b := malformed[g.Int(len(malformed))]
			return entry{raw: b, desc: fmt.Sprintf("raw:%x", b), cls: clsNever}
		}
		if w.q.on {
			return udpEntry("10.0.0.7", 4001, "/quic-v1", clsNever)
		}
		return otherEntry("/ip4/8.8.4.4/udp/4001/quic-v1", "8.8.4.4")
	}

	plans := make([]*reqPlan, nReq)
	for j := range plans {
		p := &reqPlan{}
		p.peer = g.Int(nPeers)
		if pf.peerBias > 0 && !g.Chance(1, pf.peerBias) {
			p.peer = 0
		}
		p.gap = gaps[g.Weighted(pf.gap[:]...)]
		p.variant = g.Weighted(pf.variant[:]...)
		p.partHold = holds[g.Int(len(holds))]
		c := cl[p.peer]
		switch g.Weighted(pf.length[:]...) {
		case 0:
			p.entries = []entry{drawEntry(c)}
		case 1:
			for k, n := 0, g.Range(2, 4); k < n; k++ {
				p.entries = append(p.entries, drawEntry(c))
			}
		case 2: // empty list
		case 3: // around the number of addresses a server inspects (the statement allows any length)
			f := drawFiller()
			for k, n := 0, g.Range(49, 51); k < n; k++ {
				p.entries = append(p.entries, f)
			}
			p.entries = append(p.entries, drawEntry(c))
		case 4:
			f := drawFiller()
			for k := 0; k < 119; k++ {
				p.entries = append(p.entries, f)
			}
			p.entries = append(p.entries, drawEntry(c))
		}
		if p.variant == varOversized {
			f := tcpEntry("ip4", "10.0.0.7", 4001, "", clsNever, true)
			for len(p.entries) < 1100 {
				p.entries = append(p.entries, f)
			}
		}
		d := &p.dd
		d.mode = g.Weighted(pf.dd[:]...)
		d.exact = g.Bool()
		d.deltaIdx = g.Int(len(shortDeltas))
		d.sizeA = variedSizes[g.Int(len(variedSizes))]
		d.sizeB = variedSizes[g.Int(len(variedSizes))]
		d.count = g.Int(6)
		d.holdBefore = holds[g.Weighted(pf.holdBefore[:]...)]
		d.holdMid = holds[g.Weighted(10, 1, 1, 1, 1)]
		d.after = g.Int(3)
		switch d.mode {
		case ddTiny:
			d.sizeA, d.count = tinySizes[d.sizeA%len(tinySizes)], 1+d.count*6
		case ddGarbage:
			d.sizeA = garbageSizes[d.sizeA%len(garbageSizes)]
		case ddTooLarge:
			d.sizeB = d.sizeB % 7
		}
		p.dbHold = holds[g.Weighted(10, 2, 2, 1, 0)]
		p.dbReply = g.Weighted(8, 1, 1)
		p.resetAt = g.Weighted(pf.reset[:]...)
		if d.mode == ddHollow {
			d.sizeA, d.sizeB = hollowAnnounced[d.sizeA%len(hollowAnnounced)], hollowCarried[d.sizeB%len(hollowCarried)]
		}
		if d.mode == ddTruncated {
			l := truncLens[d.sizeA%len(truncLens)]
			d.sizeA, d.sizeB = l, []int{1, 2, l / 2, l - 1, 100}[d.sizeB%5]
		}
		if stratum == 5 {
			// the role of the request in the slot-accounting scenario overrides what was drawn above
			p.peer, p.variant, p.gap, p.dbReply, p.resetAt = 0, varNormal, 0, 0, resetNever
			c := cl[0]
			foreign := func() []entry {
				if w.q.on {
					viaUDP := g.Bool()
					if g.Chance(1, 3) || c.altIP == "" {
						if viaUDP {
							return []entry{udpEntry(ipV, 4001, "/quic-v1", clsYes)}
						}
						return []entry{tcpEntry("ip4", ipV, 4001, "", clsYes, true)}
					}
					if viaUDP {
						return []entry{udpEntry(c.altIP, 4001, "/quic-v1", clsYes)}
					}
					return []entry{tcpEntry("ip4", c.altIP, 4001, "", clsYes, true)}
				}
				if g.Chance(1, 3) {
					return []entry{tcpEntry("ip4", ipV, 4001, "", clsYes, true)}
				}
				return []entry{tcpEntry("ip4", c.altIP, 4001, "", clsYes, true)}
			}
			*d = ddPlan{mode: ddCorrect, exact: g.Bool()}
			switch {
			case j < nHeld: // kept in service for 6 s
				p.entries, d.holdBefore, p.dbHold = foreign(), holds[3], 0
			case j < nHeld+nFail: // fails at a drawn stage
				if j == nHeld {
					p.gap = []time.Duration{300 * time.Millisecond, time.Second}[g.Int(2)]
				}
				p.entries = []entry{tcpEntry("ip4", c.ip, c.port, "", clsYes, true)}
				if w.q.on && (c.nat || g.Bool()) {
					p.entries = []entry{udpEntry(c.obsIP, c.port, "/quic-v1", clsYes)}
				}
				if g.Chance(1, 4) {
					p.entries = foreign()
				}
				p.dbHold = []time.Duration{300 * time.Millisecond, 0, 2 * time.Second}[g.Int(3)]
				p.partHold = []time.Duration{0, 100 * time.Millisecond}[g.Int(2)]
				switch k := g.Int(7); k {
				case 0, 1, 2, 3:
					p.resetAt = 1 + k
				case 4:
					p.dbReply = 1
				case 5:
					p.dbReply = 2
				case 6:
					p.entries, d.mode, d.count, d.after = foreign(), ddAbort, g.Int(3), 2
				}
			default: // the newcomers
				if j == nHeld+nFail {
					p.gap = time.Second
				}
				p.entries, d.holdBefore, p.dbHold = foreign(), holds[2], 0
			}
		}
		plans[j] = p
		r := &reqRec{idx: j, plan: p, nonce: uint64(0xA000 + j)}
		w.recs = append(w.recs, r)
		w.byNonce[r.nonce] = r
		var ds []string
		for k, e := range p.entries {
			if k >= 3 && k < len(p.entries)-1 {
				if k == 3 {
					ds = append(ds, fmt.Sprintf("... %d more like #0 ...", len(p.entries)-4))
				}
				continue
			}
			ds = append(ds, e.desc)
		}
		o.Logf("plan R%d: +%v client C%d %s addrs(%d)=[%s] %s dial-back: hold=%v reply=%d", j, p.gap, p.peer, variantNames[p.variant], len(p.entries),
			strings.Join(ds, " "), d, p.dbHold, p.dbReply)
		if p.resetAt != resetNever {
			o.Logf("      the client resets the request stream %s", resetNames[p.resetAt])
		}
	}

	// Cold start (drawn LAST, so that earlier tapes keep their meaning; 0 = warm): 0 = every client connects to S and
	// identify completes before the first request, without UDP loss (the requests of a long-running client); 1 = no
	// client does: the first request of each client IS its first contact with S (connection set-up, identify, protocol
	// negotiation and — in the QUIC world — UDP loss and the creation of the NAT mapping all happen under the request,
	// possibly under several concurrent requests), and the first request may start at virtual time 0; 2 = only the
	// clients with an odd index are warmed up. No oracle needs the warm-up.
	cold := g.Weighted(3, 2, 1)
	if cold != 0 {
		o.Logf("cold start: mode %d (1 = no client is connected to S before its first request, 2 = only odd clients are)", cold)
	}
	// crypto/rand (QUIC connection ids, TLS randoms, certificate keys) is a function of the run, too
	restore := simrand.Install(uint64(seed) + 7)
	defer restore()
	maxSteps := 1000000
	if w.q.on {
		maxSteps = 4000000
	}
	var nodes []*simhost.Node
	res := simrt.Run(t, simrt.Config{MaxSteps: maxSteps, IdleLimit: 24 * time.Hour, TraceCap: 2000}, tape.S, func() {
		rand.Seed(seed)
		n := simnet.New(tape.S, simnet.Config{Mode: mode, Latencies: lat})
		w.n = n
		if w.q.on {
			ucfg := simnet.UDPConfig{DropPermille: w.q.drop, DupPermille: w.q.dup}
			if w.q.ulat {
				ucfg.Latencies = []time.Duration{0, time.Millisecond, 15 * time.Millisecond}
			}
			n.SetUDP(ucfg)
			w.warm, w.udpOther = true, map[string]dialRec{}
			// ground truth for UDP: every datagram the dialer host sends. A datagram that starts with a long-header
			// Initial packet (QUIC v1: 0b1100....) is a dial attempt, retransmissions included.
			n.SetUDPFilter(func(from, to *net.UDPAddr, data []byte) simnet.UDPVerdict {
				if from.IP.String() == ipD {
					rec := dialRec{To: "udp/" + key(to.IP.String(), to.Port), Start: simrt.Stamp(), StartAt: simrt.Now(), Outcome: "initial", udp: true}
					if len(data) > 0 && data[0]&0xf0 == 0xc0 {
						w.udpInit = append(w.udpInit, rec)
					} else if _, ok := w.udpOther[rec.To]; !ok {
						rec.Outcome = "datagram"
						w.udpOther[rec.To] = rec
					}
				}
				if w.warm {
					return simnet.UDPSure // the warm-up is not part of the experiment: no loss
				}
				return simnet.UDPPass
			})
			for _, c := range cl {
				if c.nat {
					n.SetNAT(c.ip, ipNAT)
				}
			}
		}
		mk := func(seed int, ip string, port int, extra ...ma.Multiaddr) *simhost.Node {
			var ho *basichost.HostOpts
			if len(extra) > 0 {
				ho = &basichost.HostOpts{AddrsFactory: func(a []ma.Multiaddr) []ma.Multiaddr { return append(append([]ma.Multiaddr(nil), a...), extra...) }}
			}
			nd, err := simhost.New(n, simhost.Opts{Key: simhost.DetKey(seed), IP: ip, Port: port, Security: "noise", WithHost: true, HostOpts: ho,
				QUIC: w.q.on, WebTransport: w.q.on && w.q.nodesWT})
			if err != nil {
				o.Trouble = "node: " + err.Error()
				return nil
			}
			nodes = append(nodes, nd)
			return nd
		}
		closeAll := func() {
			for i := len(nodes) - 1; i >= 0; i-- {
				nodes[i].Close()
			}
		}
		w.S, w.V = mk(1, ipS, 4001), mk(3, ipV, 4001)
		// The dialer host, built the way libp2p.New builds it (config.makeAutoNATV2Host): a dial-only swarm with
		// the no-delay dial ranker and a read-only black-hole detector under a BLANK host — no identify, so its
		// peerstore learns nothing about a client but what dialBack puts there.
		var dialer host.Host
		if basicDialer {
			// Not the shipped configuration (see the finding recorded at the top of this file): a basic host,
			// whose identify service fills the dialer's peerstore with whatever the client announces.
			if w.D = mk(2, ipD, 4001); w.D != nil {
				dialer = w.D.Host
			}
		} else {
			sopts := []swarm.Option{swarm.WithDialRanker(swarm.NoDelayDialRanker), swarm.WithReadOnlyBlackHoleDetector()}
			if w.q.on {
				// libp2p.New hands the dialer the main host's black-hole counters (read-only). A host that has been dialling
				// over UDP for a while has its counter in state Allowed; a fresh one makes the read-only detector refuse UDP.
				switch w.q.blackHole {
				case 0:
					ctr := &swarm.BlackHoleSuccessCounter{N: 4, MinSuccesses: 1, Name: "UDP"}
					for i := 0; i < 4; i++ {
						ctr.RecordResult(true)
					}
					sopts = append(sopts, swarm.WithUDPBlackHoleSuccessCounter(ctr))
				case 1:
					sopts = append(sopts, swarm.WithUDPBlackHoleSuccessCounter(nil))
				}
			}
			nd, err := simhost.New(n, simhost.Opts{Key: simhost.DetKey(2), IP: ipD, Security: "noise", SwarmOpts: sopts,
				QUIC: w.q.on, WebTransport: w.q.on && w.q.dWT})
			if err != nil {
				o.Trouble = "dialer node: " + err.Error()
			} else {
				nodes = append(nodes, nd)
				w.D = nd
				if bh := blankhost.NewBlankHost(nd.Swarm, blankhost.WithEventBus(nd.Bus)); bh != nil {
					dialer = bh
				}
			}
		}
		if w.S == nil || dialer == nil || w.V == nil {
			if o.Trouble == "" {
				o.Trouble = "could not build the server side"
			}
			closeAll()
			return
		}
		an, err := autonatv2.New(dialer, autonatv2.WithServerRateLimit(w.lim.rpm, w.lim.perPeer, w.lim.dialData, w.lim.maxConc))
		if err == nil {
			err = an.Start(w.S.Host)
		}
		if err != nil {
			o.Trouble = "autonatv2: " + err.Error()
			closeAll()
			return
		}
		defer func() {
			an.Close() // also closes the dialer host
			closeAll()
		}()
		w.V.Host.SetStreamHandler(autonatv2.DialBackProtocol, w.dialBackHandler(-1))
		for _, c := range cl {
			if c.announceVictim {
				extra := []ma.Multiaddr{ma.StringCast("/ip4/" + ipV + "/tcp/4001")}
				if w.q.on {
					extra = append(extra, ma.StringCast("/ip4/"+ipV+"/udp/4001/quic-v1"))
				}
				c.node = mk(10+c.idx, c.ip, c.port, extra...)
			} else {
				c.node = mk(10+c.idx, c.ip, c.port)
			}
			if c.node == nil {
				return
			}
			if c.altIP != "" {
				if err := c.node.Swarm.Listen(ma.StringCast(fmt.Sprintf("/ip4/%s/tcp/4001", c.altIP))); err != nil {
					o.Trouble = "second listener: " + err.Error()
					return
				}
				if w.q.on {
					if err := c.node.Swarm.Listen(ma.StringCast(fmt.Sprintf("/ip4/%s/udp/4001/quic-v1", c.altIP))); err != nil {
						o.Trouble = "second QUIC listener: " + err.Error()
						return
					}
				}
			}
			c.node.Host.SetStreamHandler(autonatv2.DialBackProtocol, w.dialBackHandler(c.idx))
		}
		// warm-up: every client connects to S (over TCP, or over QUIC in the QUIC world if drawn so) and identify
		// completes, so that the requests themselves start from an established connection (as a real client's would)
		if cold == 1 {
			w.warm = false // UDP loss from the first datagram on
		}
		for _, c := range cl {
			sAddr := w.S.Addr
			if c.viaQUIC {
				sAddr = w.S.QAddr
			}
			c.node.PS.AddAddrs(w.S.ID, []ma.Multiaddr{sAddr}, peerstore.PermanentAddrTTL)
			if cold == 1 || (cold == 2 && c.idx%2 == 0) {
				o.Probe("cold-client")
				continue
			}
			ctx, cancel := contextTimeout(30 * time.Second)
			err := c.node.Host.Connect(ctx, peer.AddrInfo{ID: w.S.ID, Addrs: []ma.Multiaddr{sAddr}})
			cancel()
			if err != nil {
				o.Trouble = fmt.Sprintf("warm-up connect of C%d failed: %v", c.idx, err)
				return
			}
		}
		if cold != 1 {
			simrt.WaitIdle()
			simrt.TimeSleep(time.Second)
			simrt.WaitIdle()
		}
		warmDials := len(n.Dials())
		w.warm = false

		// ---- the arrival pattern -------------------------------------------------------------
		for j, r := range w.recs {
			if r.plan.gap > 0 {
				simrt.TimeSleep(r.plan.gap)
			}
			r := r
			simrt.GoNamed(fmt.Sprintf("req%d", j), func() { w.doRequest(r) })
		}
		for i := 0; w.done < len(w.recs); i++ {
			if i > 200 {
				o.Trouble = fmt.Sprintf("only %d of %d requests finished after 200 virtual seconds", w.done, len(w.recs))
				return
			}
			simrt.TimeSleep(time.Second)
		}
		// past every server-side timeout of the last request
		simrt.WaitIdle()
		simrt.TimeSleep(40 * time.Second)
		simrt.WaitIdle()

		for _, c := range cl {
			// evidence for dial-to-unrequested-address findings: dialBack is meant to forget the peer afterwards
			if a := w.D.PS.Addrs(c.node.ID); len(a) > 0 {
				var as []string
				for _, x := range a {
					as = append(as, x.String())
				}
				sort.Strings(as)
				o.Logf("40 s after the last request the dialer host's peerstore still holds addresses of C%d: %v", c.idx, as)
				o.Probe("dialer-peerstore-retains-client-addresses")
			}
		}
		var others []dialRec
		for _, d := range w.udpOther {
			others = append(others, d)
		}
		sort.Slice(others, func(i, j int) bool { return others[i].Start < others[j].Start })
		w.evaluate(dialsOfD(n.Dials()[warmDials:], w.udpInit), others)
	})
	o.Sched = res
	o.Virtual = res.Virtual
	if w.q.on && w.n != nil {
		o.Probe("quic-world")
		for _, k := range []string{"udp-lost", "udp-duplicated", "udp-delayed"} {
			if v := w.n.UDPCounts()[k]; v > 0 {
				if o.Faults == nil {
					o.Faults = map[string]int{}
				}
				o.Faults[k] += v
			}
		}
	}
	if w.q.on && w.n != nil && os.Getenv("C16_TRACEQ") != "" {
		fmt.Fprintf(os.Stderr, "TRACEQ steps=%d udp=%v nat=%v\n%s\n", res.Steps, w.n.UDPCounts(), w.n.NATMappings(), strings.Join(o.Trace, "\n"))
	}
	if res.Panic != "" {
		o.Violate("C16/panic", "%s", res.Panic)
	}
	if (res.Stuck || res.StepLimit) && o.Trouble == "" {
		o.Trouble = fmt.Sprintf("stuck=%v steplimit=%v steps=%d", res.Stuck, res.StepLimit, res.Steps)
	}
	for _, gr := range res.Residue {
		if strings.Contains(gr, "verifsim/simnet.") { // a pump task in its latency sleep: the simulator's own
			continue
		}
		o.Probe("goroutines-left-after-close")
		if os.Getenv("C16_DEBUG") != "" {
			fmt.Fprintf(os.Stderr, "RESIDUE %s\n", gr)
		}
	}
	return o
}
