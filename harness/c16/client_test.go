package c16

// Byzantine AutoNAT v2 clients: real simhost nodes that speak /libp2p/autonat/2/dial-request raw
// (varint-delimited pb.Message frames written by hand) and serve /libp2p/autonat/2/dial-back.

import (
	"context"
	"encoding/binary"
	"errors"
	"fmt"
	"io"
	"net"
	"os"
	"time"

	"github.com/libp2p/go-libp2p/core/network"
	"github.com/libp2p/go-libp2p/p2p/protocol/autonatv2"
	"github.com/libp2p/go-libp2p/p2p/protocol/autonatv2/pb"
	"github.com/libp2p/go-msgio/pbio"
	ma "github.com/multiformats/go-multiaddr"
	"google.golang.org/protobuf/proto"

	"verifsim/simhost"
	"verifsim/simrt"
)

// ---- address entries -----------------------------------------------------------------------

// eligibility of a request entry, known BY CONSTRUCTION of the simulated world (never computed
// with the library functions the server uses)
const (
	clsNever = iota // surely not "public and dialable": private/loopback/link-local IP, no transport for it, not a multiaddr
	clsYes          // public IPv4/IPv6 + TCP: the dialer host has a transport for it
	clsMaybe        // the statement does not say (the dialer's own listen address, /p2p/ component of another peer)
)

type entry struct {
	raw    []byte
	desc   string
	ip     string // canonical IP of the entry ("" = none)
	ipport string // endpoint a dial of this entry would go to: "ip:port" for TCP (simnet's dial key), "udp/ip:port" for QUIC / WebTransport; "" = none
	cls    int
	lazy   int // WebTransport addresses carry certhashes that exist only once the nodes run: resolved when the request is sent
}

const (
	lazyNone     = iota
	lazyOwnWT    // the client's own WebTransport address (at the IP S observes) with its current certhashes
	lazyVictimWT // the victim's WebTransport address with its current certhashes
)

// ---- plans ---------------------------------------------------------------------------------

const (
	varNormal = iota
	varWrongFirst
	varPartialComplete
	varPartialReset
	varOversized
)

var variantNames = []string{"normal", "wrong-first-message", "partial-then-complete", "partial-then-reset", "oversized-request"}

const (
	ddCorrect = iota
	ddShort
	ddTiny
	ddVaried
	ddGarbage
	ddAbort
	ddTooLarge
	ddHollow    // frames whose protobuf length fields announce more dial data than the frame carries
	ddTruncated // complete messages, then a last message whose OUTER length prefix announces more than follows, then CloseWrite
)

var ddNames = []string{"correct", "short", "tiny", "varied", "garbage", "abort", "too-large-message", "hollow", "truncated-last-message"}

// truncated last message: announced message lengths, and how much is still owed when it starts, relative to what the
// complete message would have carried (0 = the truncated message would just complete the requirement)
var truncLens = []int{8192, 4102, 1000, 206}
var truncOwed = []int{0, 0, -100, 1, 2000, -3000}

// stages at which the client resets the REQUEST stream (besides the dial-data scripts that abort)
const (
	resetNever         = iota
	resetAtNonce       // when the dial-back nonce arrives, before the dial-back is answered (the server's response write fails)
	resetAfterDialBack // right after the dial-back was answered (races with the response write)
	resetAfterRequest  // after the whole request was written (and partHold)
	resetAfterDialData // after the write that completed the dial data, before the response is read
)

var resetNames = []string{"never", "at-nonce", "after-dial-back-answer", "after-request", "after-dial-data"}

type ddPlan struct {
	mode       int
	exact      bool // correct: trim the last message so that the total is exactly the requested number
	deltaIdx   int  // short: how many bytes are withheld
	sizeA      int  // varied/tiny/garbage: message sizes
	sizeB      int
	count      int // tiny: number of messages; abort/too-large: messages sent before
	holdBefore time.Duration
	holdMid    time.Duration
	after      int // short/tiny: 0 keep reading, 1 CloseWrite then read, 2 Reset; abort: 0/1 Close, 2 Reset
	// hollow: sizeA = announced data length, sizeB = bytes really carried, exact = the outer (oneof) length is
	// consistent with the frame (only the data length lies)
	// truncated: sizeA = announced length of the last message, sizeB = bytes of its body that really follow (1..sizeA-1),
	// deltaIdx = index into truncOwed
}

func (p ddPlan) String() string {
	return fmt.Sprintf("dd=%s exact=%v delta#%d sizes=%d/%d count=%d hold=%v/%v after=%d", ddNames[p.mode], p.exact, p.deltaIdx, p.sizeA, p.sizeB, p.count, p.holdBefore, p.holdMid, p.after)
}

type reqPlan struct {
	peer     int
	gap      time.Duration
	variant  int
	partHold time.Duration
	entries  []entry
	dd       ddPlan
	dbHold   time.Duration // dial-back handler: pause before answering
	dbReply  int           // 0 answer DialBackResponse, 1 reset, 2 close without answer
	resetAt  int           // stage at which the client resets the request stream
}

// ---- records -------------------------------------------------------------------------------

type wr struct {
	stamp uint64
	cum   uint64 // credited dial-data bytes once this write has STARTED
}

type reqRec struct {
	idx   int
	plan  *reqPlan
	nonce uint64

	startAt    time.Duration
	startStamp uint64
	sentStamp  uint64 // first byte of the request handed to the stream
	openErr    string

	ddr        bool
	ddrAt      time.Duration
	ddrStamp   uint64
	numBytes   uint64
	ddrAddrIdx uint32
	ddrCount   int

	writes     []wr
	cum        uint64
	finalStamp uint64 // stamp of the write start that reached numBytes (0 = never)

	resp       bool
	respAt     time.Duration
	respStamp  uint64
	status     pb.DialResponse_ResponseStatus
	dialStatus pb.DialStatus
	addrIdx    uint32

	ended    bool
	endAt    time.Duration
	endStamp uint64
	endKind  string

	nonceSeen  bool
	nonceAt    time.Duration
	nonceStamp uint64

	stream network.Stream
}

// clientReset resets the request stream from whatever task is running (request task or dial-back handler).
func (w *world) clientReset(r *reqRec) {
	if r.ended || r.stream == nil {
		return
	}
	w.o.Fault("request-reset-" + resetNames[r.plan.resetAt])
	r.end("client-reset")
	r.stream.Reset()
}

func (r *reqRec) end(kind string) {
	if r.ended {
		return
	}
	r.ended, r.endKind, r.endAt, r.endStamp = true, kind, simrt.Now(), simrt.Stamp()
}

// serverEnded: the end of the request was observed as an action of the SERVER (its response, its
// reset, its close) — after it the server-side handler only runs its deferred calls.
func (r *reqRec) serverEnded() bool {
	switch r.endKind {
	case "response", "server-reset", "server-eof":
		return true
	}
	return false
}

type dbEvent struct {
	client     int // -1 = victim
	nonce      uint64
	gotNonce   bool
	at         time.Duration
	stamp      uint64
	local      string // local IP:port of the connection the stream arrived on
	remoteIsD  bool
	remotePeer string
}

type client struct {
	idx     int
	ip      string // the node's IP (private when behind the NAT)
	port    int
	altIP   string // second listener on another public IP ("" = none)
	obsIP   string // the IP S observes on the client's connections (= ip unless behind the NAT)
	nat     bool
	viaQUIC bool // the client's connection to S is a QUIC connection
	node    *simhost.Node

	announceVictim bool
}

// ---- wire helpers ---------------------------------------------------------------------------

func frame(msg []byte) []byte {
	out := binary.AppendUvarint(make([]byte, 0, len(msg)+3), uint64(len(msg)))
	return append(out, msg...)
}

func mustMarshal(m proto.Message) []byte {
	b, err := proto.Marshal(m)
	if err != nil {
		panic(err)
	}
	return b
}

// ddFrame is one well-formed DialDataResponse frame with n data bytes.
func ddFrame(n int) []byte {
	data := make([]byte, n)
	for i := range data {
		data[i] = byte(i)
	}
	return frame(mustMarshal(&pb.Message{Msg: &pb.Message_DialDataResponse{DialDataResponse: &pb.DialDataResponse{Data: data}}}))
}

// hollowFrame is a DialDataResponse frame that ANNOUNCES declared data bytes in its protobuf headers but carries
// only payload of them: tag(4,bytes) len | tag(1,bytes) len(declared) | payload.
func hollowFrame(declared, payload int, outerConsistent bool) []byte {
	inner := binary.AppendUvarint([]byte{0x0a}, uint64(declared))
	for i := 0; i < payload; i++ {
		inner = append(inner, byte(i))
	}
	claim := len(inner)
	if !outerConsistent {
		claim = len(inner) - payload + declared
	}
	msg := binary.AppendUvarint([]byte{0x22}, uint64(claim))
	return frame(append(msg, inner...))
}

func garbageFrame(msgLen int) []byte {
	msg := make([]byte, msgLen)
	for i := range msg {
		msg[i] = 0xaa
	}
	return frame(msg)
}

func classifyReadErr(err error) string {
	var se *network.StreamError
	if errors.As(err, &se) {
		if se.Remote {
			return "server-reset"
		}
		return "local-reset"
	}
	if errors.Is(err, network.ErrReset) {
		return "server-reset"
	}
	var ne net.Error
	if errors.Is(err, os.ErrDeadlineExceeded) || (errors.As(err, &ne) && ne.Timeout()) {
		return "client-timeout"
	}
	if errors.Is(err, io.EOF) || errors.Is(err, io.ErrUnexpectedEOF) {
		return "server-eof"
	}
	return "read-error"
}

// resolveLazy fills in a WebTransport entry: the listen address of the node as its swarm advertises it now (with the
// current certhashes), moved to the IP/port under which the request names it. A node without a WebTransport listener
// gets a made-up certhash (the address is then still a well-formed WebTransport address of that endpoint).
func (w *world) resolveLazy(c *client, e *entry) {
	node, ip, port := c.node, c.obsIP, c.port
	if e.lazy == lazyVictimWT {
		node, ip, port = w.V, ipV, 4001
	}
	base := fmt.Sprintf("/ip4/%s/udp/%d/quic-v1", ip, port)
	a := ma.StringCast(base + "/webtransport/certhash/" + fakeCerthash)
	if wt := node.WTAddr(); wt != nil {
		_, tail := ma.SplitFunc(wt, func(c ma.Component) bool { return c.Protocol().Code == ma.P_WEBTRANSPORT })
		if tail != nil {
			a = ma.StringCast(base).Encapsulate(tail)
		}
	}
	e.raw, e.lazy = a.Bytes(), lazyNone
}

// endpointKey: "ip:port" for TCP addresses, "udp/ip:port" for anything over UDP, "" otherwise.
func endpointKey(a ma.Multiaddr) string {
	if a == nil {
		return ""
	}
	ip, err := a.ValueForProtocol(ma.P_IP4)
	if err != nil {
		if ip, err = a.ValueForProtocol(ma.P_IP6); err != nil {
			return ""
		}
	}
	var port int
	if v, err := a.ValueForProtocol(ma.P_TCP); err == nil {
		fmt.Sscan(v, &port)
		return key(ip, port)
	}
	if v, err := a.ValueForProtocol(ma.P_UDP); err == nil {
		fmt.Sscan(v, &port)
		return "udp/" + key(ip, port)
	}
	return ""
}

// ---- the request --------------------------------------------------------------------------------

const clientDeadline = 45 * time.Second

func (w *world) doRequest(r *reqRec) {
	defer func() { w.done++ }()
	c := w.clients[r.plan.peer]
	r.startAt, r.startStamp = simrt.Now(), simrt.Stamp()
	ctx, cancel := context.WithTimeout(context.Background(), 20*time.Second)
	s, err := c.node.Host.NewStream(ctx, w.S.ID, autonatv2.DialProtocol)
	cancel()
	if err != nil {
		r.openErr = err.Error()
		r.end("open-failed")
		return
	}
	s.SetDeadline(time.Now().Add(clientDeadline))
	r.stream = s

	addrs := make([][]byte, len(r.plan.entries))
	for i := range r.plan.entries {
		if r.plan.entries[i].lazy != lazyNone {
			w.resolveLazy(c, &r.plan.entries[i])
		}
		addrs[i] = r.plan.entries[i].raw
	}
	req := frame(mustMarshal(&pb.Message{Msg: &pb.Message_DialRequest{DialRequest: &pb.DialRequest{Addrs: addrs, Nonce: r.nonce}}}))
	r.sentStamp = simrt.Stamp()
	if r.plan.variant != varNormal {
		w.o.Fault("request-" + variantNames[r.plan.variant])
	}
	switch r.plan.variant {
	case varWrongFirst:
		_, err = s.Write(ddFrame(200))
	case varPartialComplete, varPartialReset:
		h := len(req) / 2
		if _, err = s.Write(req[:h]); err == nil {
			simrt.TimeSleep(r.plan.partHold)
			if r.plan.variant == varPartialReset {
				r.end("client-reset")
				s.Reset()
				return
			}
			_, err = s.Write(req[h:])
		}
	default:
		_, err = s.Write(req)
	}
	if err != nil {
		r.end("write-failed")
		s.Reset()
		return
	}
	if r.plan.resetAt == resetAfterRequest {
		simrt.TimeSleep(r.plan.partHold)
		w.clientReset(r)
		return
	}

	rd := pbio.NewDelimitedReader(s, 1<<16)
	for {
		var m pb.Message
		if err := rd.ReadMsg(&m); err != nil {
			r.end(classifyReadErr(err))
			s.Reset()
			return
		}
		switch {
		case m.GetDialDataRequest() != nil:
			r.ddrCount++
			if r.ddr {
				r.end("second-dial-data-request")
				s.Reset()
				return
			}
			r.ddr, r.ddrAt, r.ddrStamp = true, simrt.Now(), simrt.Stamp()
			r.numBytes, r.ddrAddrIdx = m.GetDialDataRequest().GetNumBytes(), m.GetDialDataRequest().GetAddrIdx()
			if w.sendDialData(r, s) {
				return
			}
		case m.GetDialResponse() != nil:
			r.resp, r.respAt, r.respStamp = true, simrt.Now(), simrt.Stamp()
			r.status, r.dialStatus, r.addrIdx = m.GetDialResponse().GetStatus(), m.GetDialResponse().GetDialStatus(), m.GetDialResponse().GetAddrIdx()
			r.end("response")
			s.Close()
			return
		default:
			r.end("unexpected-message")
			s.Reset()
			return
		}
	}
}

var shortDeltas = []func(n int) int{
	func(n int) int { return 1 },
	func(n int) int { return 2 },
	func(n int) int { return 100 },
	func(n int) int { return 4097 },
	func(n int) int { return n / 2 },
	func(n int) int { return n - 150 },
}

// sendDialData plays the dial-data script. It returns true when the client ended the stream itself.
func (w *world) sendDialData(r *reqRec, s network.Stream) bool {
	p := r.plan.dd
	n := int(r.numBytes)
	if r.numBytes > 200000 { // an absurd request is a finding of its own; do not try to satisfy it
		n = 200000
	}
	// the script: a list of frames with the dial-data bytes each is credited with
	type step struct {
		frame  []byte
		credit int
	}
	cache := map[int][]byte{}
	dd := func(k int) step {
		f, ok := cache[k]
		if !ok {
			f = ddFrame(k)
			cache[k] = f
		}
		return step{f, k}
	}
	var steps []step
	fill := func(total, chunk int, exact bool) {
		for sent := 0; sent < total; {
			k := chunk
			if exact && total-sent < k {
				k = total - sent
			}
			steps = append(steps, dd(k))
			sent += k
		}
	}
	switch p.mode {
	case ddCorrect:
		fill(n, 4096, p.exact)
	case ddShort:
		d := shortDeltas[p.deltaIdx](n)
		if d < 1 {
			d = 1
		}
		if d > n {
			d = n
		}
		fill(n-d, 4096, true)
	case ddTiny:
		for i := 0; i < p.count; i++ {
			steps = append(steps, dd(p.sizeA))
		}
	case ddVaried:
		for sent, i := 0, 0; sent < n; i++ {
			k := p.sizeA
			if i%2 == 1 {
				k = p.sizeB
			}
			steps = append(steps, dd(k))
			sent += k
		}
	case ddGarbage:
		// frames that are not protobuf at all: credited with their full length on the wire
		f := garbageFrame(p.sizeA)
		for sent := 0; sent < n+64; sent += p.sizeA - 6 {
			steps = append(steps, step{f, len(f)})
		}
	case ddAbort:
		for i := 0; i < p.count; i++ {
			steps = append(steps, dd(4096))
		}
	case ddTooLarge:
		for i := 0; i < p.count; i++ {
			steps = append(steps, dd(4096))
		}
		steps = append(steps, dd(8187+p.sizeB)) // message of more than 8192 bytes
		fill(n, 4096, false)
	case ddTruncated:
		// complete well-formed messages until only what the last message would carry (+/- truncOwed) is owed ...
		full := ddFrame(p.sizeA - 6) // a well-formed frame whose message is sizeA bytes long (sizeA >= 206)
		owed := p.sizeA - 6 + truncOwed[p.deltaIdx]
		if owed < 1 {
			owed = 1
		}
		if owed > n {
			owed = n
		}
		for left := n - owed; left > 0; {
			k := 4096
			if left < k+100 { // no message below the server's minimum size
				k = left
			}
			if k > 8186 {
				k = 8186
			}
			steps = append(steps, dd(k))
			left -= k
		}
		// ... then the length prefix of the last message and only sizeB bytes of its body: credited with what is written
		prefix := len(full) - p.sizeA
		cut := prefix + p.sizeB
		if cut >= len(full) {
			cut = len(full) - 1
		}
		steps = append(steps, step{full[:cut], cut})
	case ddHollow:
		// as many frames as a server that believes the announced lengths would need; credited with what is
		// really written (the whole frame)
		f := hollowFrame(p.sizeA, p.sizeB, p.exact)
		for announced := 0; announced < n; announced += p.sizeA {
			steps = append(steps, step{f, len(f)})
		}
	}

	if p.mode != ddCorrect {
		w.o.Fault("dial-data-" + ddNames[p.mode])
	}
	if p.holdBefore > 0 || p.holdMid > 0 {
		w.o.Fault("dial-data-paused")
	}
	if p.holdBefore > 0 {
		simrt.TimeSleep(p.holdBefore)
	}
	for i, st := range steps {
		if p.holdMid > 0 && i == len(steps)/2 && i > 0 {
			simrt.TimeSleep(p.holdMid)
		}
		stamp := simrt.Stamp()
		r.cum += uint64(st.credit)
		r.writes = append(r.writes, wr{stamp, r.cum})
		if r.finalStamp == 0 && r.cum >= r.numBytes {
			r.finalStamp = stamp
		}
		if _, err := s.Write(st.frame); err != nil {
			// the server gave up on us (reset) or the deadline passed: fall through to reading
			break
		}
	}
	switch p.mode {
	case ddTruncated:
		s.CloseWrite() // half-close in the middle of the message; the response (if any) is still read
	case ddShort, ddTiny:
		switch p.after {
		case 1:
			s.CloseWrite()
		case 2:
			r.end("client-reset")
			s.Reset()
			return true
		}
	case ddAbort:
		if p.after == 2 {
			r.end("client-reset")
			s.Reset()
		} else {
			r.end("client-close")
			s.Close()
		}
		return true
	}
	if r.plan.resetAt == resetAfterDialData {
		w.clientReset(r)
		return true
	}
	return false
}

// ---- dial-back service of a client ---------------------------------------------------------------

func (w *world) dialBackHandler(ci int) network.StreamHandler {
	return func(s network.Stream) {
		ev := dbEvent{client: ci, at: simrt.Now(), remotePeer: s.Conn().RemotePeer().ShortString(), remoteIsD: s.Conn().RemotePeer() == w.D.ID}
		ev.local = endpointKey(s.Conn().LocalMultiaddr())
		s.SetDeadline(time.Now().Add(10 * time.Second))
		var m pb.DialBack
		if err := pbio.NewDelimitedReader(s, 1024).ReadMsg(&m); err != nil {
			ev.stamp = simrt.Stamp()
			w.dbEvents = append(w.dbEvents, ev)
			s.Reset()
			return
		}
		ev.gotNonce, ev.nonce, ev.stamp, ev.at = true, m.GetNonce(), simrt.Stamp(), simrt.Now()
		w.dbEvents = append(w.dbEvents, ev)
		var plan *reqPlan
		if r := w.byNonce[ev.nonce]; r != nil && ci >= 0 && r.plan.peer == ci && r.sentStamp != 0 && r.sentStamp < ev.stamp {
			if !r.nonceSeen {
				r.nonceSeen, r.nonceAt, r.nonceStamp = true, ev.at, ev.stamp
			}
			plan = r.plan
			if plan.resetAt == resetAtNonce {
				w.clientReset(r)
			}
		}
		if plan != nil && plan.dbHold > 0 {
			simrt.TimeSleep(plan.dbHold)
		}
		reply := 0
		if plan != nil {
			reply = plan.dbReply
		}
		if plan != nil && plan.dbHold > 0 {
			w.o.Fault("dial-back-answer-delayed")
		}
		switch reply {
		case 1:
			w.o.Fault("dial-back-stream-reset")
			s.Reset()
		case 2:
			w.o.Fault("dial-back-closed-without-answer")
			s.Close()
		default:
			if err := pbio.NewDelimitedWriter(s).WriteMsg(&pb.DialBackResponse{}); err != nil {
				s.Reset()
				return
			}
			s.Close()
			if plan != nil && plan.resetAt == resetAfterDialBack {
				w.clientReset(w.byNonce[ev.nonce])
			}
		}
	}
}
