# orchestrator configuration of the C16 check (loaded by tools/props.py)
from stack import FULL_STACK, FULL_DEPS, QUIC_STACK, QUIC_DEPS, WT_STACK, WT_DEPS

SPEC = dict(
    pkg="./harness/c16",
    instrument=FULL_STACK + QUIC_STACK + WT_STACK + ["./p2p/protocol/autonatv2"],
    deps=FULL_DEPS + QUIC_DEPS + WT_DEPS,
    level="exploration",
    level_text=("seeded search over populations of byzantine AutoNAT v2 clients (real nodes speaking the dial-request protocol "
                "raw) x arrival patterns over virtual minutes x request shapes x dial-data scripts x schedules against the real "
                "autonatv2 server (New/Start, WithServerRateLimit) with its dialer host built as libp2p.New builds it (dial-only "
                "swarm under a blank host) on the simulated network; every dial-back is a logged simnet dial; oracles over "
                "stamped histories. Sampling, not proof."),
    level_note=("trusted: testing/synctest, the overlay rewrite, simnet's TCP model, the harness's by-construction "
                "classification of request entries (public+TCP / surely ineligible / undetermined); math/rand's global source "
                "is pinned per run (randseednop=0); not simulated: WebRTC dial-backs, resolvable DNS addresses "
                "(DNS forms are only offered where no transport claims them), NAT kinds other than an endpoint-independent source NAT; a dialer host that runs identify is outside the "
                "registered check (development knob C16_BASIC_DIALER, see the observations at the top of sim_test.go)"),
    technique="deterministic simulation: byzantine protocol clients against the real server on simnet, dial log + stamped byte counts",
    design_ref="DESIGN.md section 6 (C16)",
    quick_s=60, thorough_s=600,
    rule=("one run = one tape: world (TCP only | QUIC world: QUIC everywhere, WebTransport on the dialer and/or the nodes in a "
          "third of the runs each, dialer's UDP black-hole counter allowed|absent|fresh, clients reach S over TCP or QUIC, the "
          "first 0-3 clients behind one source NAT, UDP loss 0|5|15 %, duplication, latencies; address lists then mix tcp, "
          "quic-v1, webtransport with current certhashes, private quic-v1, DNS forms, ws / webrtc-direct / p2p-circuit / "
          "draft-29 quic); stratum (general mix | concurrency: generous per-minute limits, bursts of one peer's held "
          "dial-data requests | one tight per-minute limit: global, per-peer or dial-data | slot accounting: one peer keeps "
          "limit-1 requests in service, lets 1-2 more fail at a drawn stage, then opens limit+1 new ones), limits (global 1-14, "
          "per-peer 1-12, dial-data 1-10 per minute, 1-3 concurrent per peer), 2-5 clients (optionally two on one IP, optionally announcing the "
          "victim's address through identify), link chunking whole|fragmented, optional latencies, 1-14 requests at drawn gaps "
          "(0..75 s) each with a drawn client, address list (14 entry kinds, length 0|1|2-4|50-52|120), request shape (normal | "
          "wrong first message | half a request then pause then rest or reset | oversized), dial-data script (correct | short "
          "by 1..n-150 | tiny messages | varied sizes | non-protobuf frames | hollow frames announcing more data than they "
          "carry | truncated last message (outer length prefix announces more than follows, then CloseWrite) at drawn points "
          "of the owed amount | early close/reset | message > 8192 B; pauses before/in the middle), dial-back handler (answer | delayed | "
          "reset | close) and request-stream reset stage (never | at the dial-back nonce | after the dial-back answer | after "
          "the request | after the dial data); dial-data bytes are counted on the wire of the raw client; cold start drawn last (all clients warmed up | none: the first "
          "request is the first contact with S, from virtual time 0, under UDP loss | only odd clients); faults_fired counts the byzantine "
          "behaviours that were actually executed; non-trivial = the dialer host dialled at least once and at least two "
          "requests were answered; distinct = distinct (limits, per-request outcome incl. requested/written dial-data bytes "
          "and statuses, dial log, schedule hash)"),
    probes=["dial-same-ip", "dial-foreign-ip-after-dial-data", "victim-dialled-after-dial-data", "dial-back-on-second-ip",
            "refused-no-eligible-address", "request-rejected", "rejected-with-a-limit-possibly-reached",
            "window-full-global", "window-full-per-peer", "window-full-dial-data",
            "concurrent-requests-of-one-peer-in-service", "concurrency-at-limit",
            "dial-data-requested", "dial-data-incomplete-no-dial", "dial-data-complete-then-answer",
            "server-reset-in-dial-data-phase", "server-timed-out-waiting-for-dial-data", "honest-flow-ok",
            "long-address-list", "oversized-request-reset", "dial-back-over-connection-of-sibling-request",
            "quic-world", "quic-dial-by-dialer-host", "dial-of-a-webtransport-address", "dial-back-over-quic-or-webtransport",
            "dial-back-through-the-nat", "dial-to-the-nat-address-without-dial-data",
            "cold-client", "request-accepted-at-time-zero-on-first-contact"],
    real=["ALL of the following run as tasks of the seeded scheduler (instrumented)",
          "p2p/protocol/autonatv2 server through New/Start with WithServerRateLimit (rate limiter, amplification policy, "
          "getDialData/readDialData, dialBack) and its client half on S",
          "dialer host D: real swarm (dial-only, NoDelayDialRanker, read-only black-hole detector), tcp dial path, upgrader, "
          "noise, multistream, yamux, pstoremem under p2p/host/blank as in config.makeAutoNATV2Host; in the QUIC world also the real "
          "QUIC transport (quicreuse, quic-go) and optionally WebTransport (webtransport-go, http3) on every node",
          "service host S, 2-5 client nodes and the victim node: basic host, identify, swarm, tcp, upgrader, noise, multistream, "
          "yamux, pstoremem, eventbus - the clients' protocol logic is the harness's byzantine script"],
    stubs=["wire: simnet TCP model (dial log = ground truth of what was dialled and when), simnet UDP model with source NAT "
           "(UDP filter = ground truth of every datagram the dialer host sends)",
           "byzantine clients: hand-written dial-request speakers and dial-back handlers on real nodes"],
    assume=["virtual clock of testing/synctest", "math/rand global source seeded per run (GODEBUG randseednop=0)",
            "a client's connection to S comes from its node IP, or from the NAT's public IP for clients behind simnet's source NAT",
            "crypto/rand pinned per run (simrand)", "a datagram of the dialer host that starts with a QUIC v1 long-header Initial packet is a dial attempt",
            "the dialer host does not run identify (the configuration libp2p.New ships)"],
)
