package c01

import (
	"testing"

	"verifsim/harness/common"
	"verifsim/simrt"
)

func runUpgrader(t *testing.T, tape *simrt.Tape, g simrt.Gen, o *common.Outcome) { runPipe(t, tape, g, o) }
func runSwarm(t *testing.T, tape *simrt.Tape, g simrt.Gen, o *common.Outcome)    { runPipe(t, tape, g, o) }
