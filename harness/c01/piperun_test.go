package c01

import (
	"fmt"
	"strings"
	"testing"
	"time"

	"verifsim/harness/common"
	"verifsim/simnet"
	"verifsim/simrt"
	"verifsim/simsync"
)

// Stratum "pipe": the real security transports on the two ends of a raw simulated TCP connection.

const (
	pkConfig = iota // no adversary: configuration matrix (key types x roles x expectation x prologue)
	pkWire          // one edit of one handshake frame
	pkSplice        // two concurrent sessions, a frame exchanged / sessions re-paired
	pkReplay        // frames recorded from an earlier session injected into a later one
	pkByz           // Byzantine peer instead of an honest one
	pkReuse         // ONE Noise SessionTransport (WithSessionOptions called once) serves a sequence of 2-4 handshakes in drawn roles
)

var pkNames = []string{"config", "wire", "splice", "replay", "byzantine", "reuse"}

// reuse kind: what the owner of the reused SessionTransport does in one step
const (
	ruInboundAnon  = iota // SecureInbound naming nobody
	ruInboundNamed        // SecureInbound naming a peer
	ruOutbound            // SecureOutbound
)

var ruNames = []string{"inbound-anonymous", "inbound-named", "outbound"}

type reuseStep struct {
	role    int
	named   int   // exMatch: the peer that really shows up; exOther: somebody else (the peer that shows up is an impostor with its own valid key)
	partner ident // the honest process at the other end
}

var wireKinds = []int{edFlip, edDup, edDrop, edTruncFix, edTruncRaw, edExtendFix, edExtendRaw, edCut}

type pipeCfg struct {
	kind   int
	tls    bool
	mode   simnet.LinkMode
	ip, rp party
	// second session (splice)
	ip2, rp2 party
	twin     bool
	ed       edit
	byz      byzPlan
	// reuse
	owner party
	steps []reuseStep
}

func drawParties(g simrt.Gen, tls bool, slotI, slotR int, forceCompat bool) (party, party) {
	ip := party{id: ident{g.Int(nKeyTypes), slotI}, tls: tls}
	rp := party{id: ident{g.Int(nKeyTypes), slotR}, tls: tls}
	ip.expect = []int{exMatch, exOther, exEmpty}[g.Weighted(6, 2, 1)]
	rp.expect = []int{exEmpty, exMatch, exOther}[g.Weighted(4, 3, 2)]
	if !tls && g.Bool() {
		ip.session, rp.session = true, true
		switch g.Weighted(4, 3, 1, 1) {
		case prEqual:
			ip.prologue, rp.prologue = []byte("certhash-aa"), []byte("certhash-aa")
		case prDifferent:
			ip.prologue, rp.prologue = []byte("certhash-aa"), []byte("certhash-bb")
		case prOneSided:
			if g.Bool() {
				ip.prologue = []byte("certhash-aa")
			} else {
				rp.prologue = []byte("certhash-aa")
			}
		}
		ip.noCheck = g.Chance(1, 4)
		rp.noCheck = g.Chance(1, 4)
		if g.Bool() {
			ip.early, rp.early = "early-from-I", "early-from-R"
		}
	}
	if forceCompat {
		ip.prologue = rp.prologue
		if ip.expect != exMatch && !ip.noCheck && !(tls && ip.expect == exEmpty) {
			ip.expect = exMatch
		}
		if rp.expect == exOther && !rp.noCheck {
			rp.expect = exEmpty
		}
	}
	return ip, rp
}

func drawFrame(g simrt.Gen, tls bool) (dir, idx int) {
	if !tls {
		f := g.Int(3) // message 1, 2, 3
		return f % 2, f / 2
	}
	f := g.Int(10)
	if f < 4 {
		return 0, f
	}
	return 1, f - 4
}

// frameVarLen: does the length of the frame depend on crypto randomness?
func frameVarLen(tls bool, ip, rp party, dir, idx int) bool {
	if tls {
		return true
	}
	if dir == 0 && idx == 0 {
		return false
	}
	if dir == 1 {
		return varLen(rp.id.typ)
	}
	return varLen(ip.id.typ)
}

func drawPipe(g simrt.Gen) pipeCfg {
	var c pipeCfg
	c.kind = g.Weighted(2, 10, 3, 3, 5, 3)
	c.tls = g.Bool()
	switch c.kind {
	case pkConfig:
		c.ip, c.rp = drawParties(g, c.tls, slotI, slotR, false)
		if g.Bool() {
			// a second, concurrent, undisturbed session in which one party is the same process (same transport
			// object) talking to somebody else
			c.twin = true
			c.ip2, c.rp2 = drawParties(g, c.tls, slotI2, slotR2, false)
			if g.Bool() {
				c.rp2 = c.rp
			} else {
				c.ip2 = c.ip
			}
			c.ip2.session, c.rp2.session = c.ip.session, c.rp.session
			if !c.ip.session {
				c.ip2.prologue, c.rp2.prologue, c.ip2.noCheck, c.rp2.noCheck, c.ip2.early, c.rp2.early = nil, nil, false, false, "", ""
			}
		}
	case pkWire:
		c.ip, c.rp = drawParties(g, c.tls, slotI, slotR, g.Chance(3, 4))
		c.ed.kind = wireKinds[g.Weighted(10, 2, 1, 2, 2, 2, 2, 1)]
		c.ed.dir, c.ed.idx = drawFrame(g, c.tls)
		c.ed.pos = g.Int(1 << 16)
		c.ed.mask = byte(1 + g.Int(255))
		c.ed.k = g.Int(1 << 12)
		c.ed.varLen = frameVarLen(c.tls, c.ip, c.rp, c.ed.dir, c.ed.idx)
	case pkSplice:
		reroute := g.Chance(1, 3)
		c.ip, c.rp = drawParties(g, c.tls, slotI, slotR, !reroute)
		c.ip2, c.rp2 = drawParties(g, c.tls, slotI2, slotR2, !reroute)
		if g.Bool() {
			// same identities (and configuration) in both sessions: the strongest splice
			c.ip2, c.rp2 = c.ip, c.rp
		}
		// both sessions speak the same dialect
		c.ip2.session, c.rp2.session = c.ip.session, c.rp.session
		if !c.ip.session {
			c.ip2.prologue, c.rp2.prologue, c.ip2.noCheck, c.rp2.noCheck, c.ip2.early, c.rp2.early = nil, nil, false, false, "", ""
		}
		if reroute {
			c.ed.kind = edReroute
			for _, p := range []*party{&c.ip, &c.rp, &c.ip2, &c.rp2} {
				switch g.Weighted(3, 2, 2) {
				case 0:
					p.expect = exCross
				case 1:
					p.expect = exEmpty
				case 2:
					p.expect = exMatch
				}
			}
			if c.ip.session && g.Bool() {
				c.ip.prologue, c.rp.prologue, c.ip2.prologue, c.rp2.prologue = nil, nil, nil, nil
			}
		} else {
			c.ed.kind = edSwap
			c.ed.dir, c.ed.idx = drawFrame(g, c.tls)
		}
	case pkReplay:
		c.ip, c.rp = drawParties(g, c.tls, slotI, slotR, true)
		c.ed.kind = []int{edReplay, edReplayDir}[g.Weighted(3, 1)]
		c.ed.dir, c.ed.idx = drawFrame(g, c.tls)
	case pkByz:
		c.byz = drawByz(g, c.tls)
	case pkReuse:
		c.tls = false
		c.owner = party{id: ident{g.Int(nKeyTypes), slotI}, session: true}
		if g.Bool() {
			c.owner.prologue = []byte("certhash-aa")
		}
		c.owner.noCheck = g.Chance(1, 4)
		if g.Bool() {
			c.owner.early = "early-from-O"
		}
		n := 2 + g.Int(3)
		for i := 0; i < n; i++ {
			st := reuseStep{role: g.Int(3), named: []int{exMatch, exOther}[g.Int(2)]}
			st.partner = ident{g.Int(nKeyTypes), []int{slotR, slotI2, slotR2, slotM}[i]}
			c.steps = append(c.steps, st)
		}
	}
	// link chunking: fragmenting modes only when every length on the wire is a function of the tape
	c.mode = simnet.Whole
	det := !c.tls && !varLen(c.ip.id.typ) && !varLen(c.rp.id.typ)
	if c.kind == pkSplice || c.twin {
		det = det && !varLen(c.ip2.id.typ) && !varLen(c.rp2.id.typ)
	}
	if c.kind == pkByz {
		det = !c.tls && !varLen(c.byz.honest.id.typ) && !varLen(c.byz.typ)
	}
	if c.kind == pkReuse {
		det = !varLen(c.owner.id.typ)
		for _, st := range c.steps {
			det = det && !varLen(st.partner.typ)
		}
	}
	if det {
		c.mode = []simnet.LinkMode{simnet.Whole, simnet.Fragment, simnet.Tiny}[g.Weighted(3, 3, 1)]
	}
	return c
}

func runPipe(t *testing.T, tape *simrt.Tape, g simrt.Gen, o *common.Outcome) {
	c := drawPipe(g)
	o.Logf("stratum=pipe kind=%s proto=%s link=%d", pkNames[c.kind], protoName(c.tls), c.mode)
	sig := fmt.Sprintf("pipe|%s|%s|%d|", pkNames[c.kind], protoName(c.tls), c.mode)
	var sessions []*session
	var byzRes *byzResult

	res := simrt.Run(t, simrt.Config{MaxSteps: 300000, IdleLimit: time.Hour, TraceCap: 20000}, tape.S, func() {
		n := simnet.New(tape.S, simnet.Config{Mode: c.mode})
		var wg simsync.WaitGroup
		env := &pipeEnv{o: o, n: n, wg: &wg}
		defer func() {
			for _, cn := range n.Conns() {
				cn.Close()
			}
		}()
		switch c.kind {
		case pkConfig, pkWire:
			s, err := env.start("", c.ip, c.rp, c.ed, ident{}, ident{})
			if err != nil {
				o.Trouble = err.Error()
				return
			}
			sessions = append(sessions, s)
			if c.twin {
				s2, err := env.start("twin", c.ip2, c.rp2, edit{}, ident{}, ident{})
				if err != nil {
					o.Trouble = err.Error()
					return
				}
				sessions = append(sessions, s2)
			}
			env.launch(sessions...)
			wg.Wait()
			markMustFail(s)
		case pkSplice:
			a, err := env.start("a", c.ip, c.rp, c.ed, c.ip2.id, c.rp2.id)
			if err != nil {
				o.Trouble = err.Error()
				return
			}
			b, err := env.start("b", c.ip2, c.rp2, c.ed, c.ip.id, c.rp.id)
			if err != nil {
				o.Trouble = err.Error()
				return
			}
			a.m.other, b.m.other = b.m, a.m
			if c.ed.kind == edReroute {
				a.I.truth, a.I.partner = c.rp2.id, b.R
				a.R.truth, a.R.partner = c.ip2.id, b.I
				b.I.truth, b.I.partner = c.rp.id, a.R
				b.R.truth, b.R.partner = c.ip.id, a.I
				for _, x := range []*side{a.I, a.R, b.I, b.R} {
					x.keepOpen = true
				}
			}
			sessions = append(sessions, a, b)
			env.launch(a, b)
			wg.Wait()
			if c.ed.kind == edSwap {
				markMustFail(a)
				markMustFail(b)
			}
		case pkReplay:
			first, err := env.start("old", c.ip, c.rp, edit{}, ident{}, ident{})
			if err != nil {
				o.Trouble = err.Error()
				return
			}
			sessions = append(sessions, first)
			env.launch(first)
			wg.Wait()
			second, err := env.start("new", c.ip, c.rp, c.ed, ident{}, ident{})
			if err != nil {
				o.Trouble = err.Error()
				return
			}
			second.m.replay = first.m.rec
			sessions = append(sessions, second)
			env.launch(second)
			wg.Wait()
			markMustFail(second)
		case pkByz:
			byzRes = runByz(env, c.byz)
		case pkReuse:
			env.reuse = true
			for i, st := range c.steps {
				op := c.owner
				pp := party{id: st.partner, session: true, prologue: c.owner.prologue}
				if c.owner.early != "" {
					pp.early = "early-from-P"
				}
				ip, rp := pp, op
				switch st.role {
				case ruInboundAnon:
					rp.expect, ip.expect = exEmpty, exMatch
				case ruInboundNamed:
					rp.expect, ip.expect = st.named, exMatch
				case ruOutbound:
					ip, rp = op, pp
					ip.expect, rp.expect = st.named, exEmpty
				}
				s, err := env.start(fmt.Sprintf("%d", i+1), ip, rp, edit{}, ident{}, ident{})
				if err != nil {
					o.Trouble = err.Error()
					return
				}
				own := s.R
				if st.role == ruOutbound {
					own = s.I
				}
				if own.edh != nil {
					own.edh.got, own.edh.n = nil, 0 // the handler object is the transport's: what it holds is from the previous handshake
				}
				sessions = append(sessions, s)
				env.launch(s)
				wg.Wait()
			}
		}
		simrt.WaitIdle()
	})
	o.Sched = res
	o.Virtual = res.Virtual

	for _, s := range sessions {
		s.log(o)
		if s.m.trouble != "" && o.Trouble == "" {
			o.Trouble = "mallory: " + s.m.trouble
		}
		what := fmt.Sprintf("%s/%s session %q, %s", pkNames[c.kind], protoName(c.tls), s.name, s.m.ed)
		if c.kind == pkReuse {
			what = fmt.Sprintf("reuse/noise: ONE SessionTransport of {%s} serves in turn %s; handshake %s", c.owner.id, reuseDesc(c), s.name)
		}
		judge(o, s, what)
		adversary := s.m.ed.kind != edNone
		if !adversary {
			judgeControl(o, s, what)
		}
		sig += fmt.Sprintf("%s:%s|%s|%s|%s>%s,%s|fired=%v;", s.name, s.I.p, s.R.p, s.m.ed, s.I.outcome(), s.R.outcome(), s.I.mustFail+s.R.mustFail, s.m.fired)
		if s.m.restored() {
			o.Probe("truncation-restored-by-following-bytes")
		}
		if s.m.fired {
			o.Fault(fmt.Sprintf("wire-%s-%s", protoName(c.tls), edNames[s.m.ed.kind]))
			if s.m.ed.kind != edReroute {
				o.Probe(fmt.Sprintf("edit-%s-%s#%d", protoName(c.tls), []string{"I>R", "R>I"}[s.m.ed.dir], s.m.ed.idx))
			}
			if s.m.ed.kind == edFlip {
				// which quarter of the frame the flipped byte lies in (header flips of random-length frames count as quarter 0)
				o.Probe(fmt.Sprintf("flip-%s-%s#%d-quarter%d", protoName(c.tls), []string{"I>R", "R>I"}[s.m.ed.dir], s.m.ed.idx, s.m.quart))
			}
			o.Nontrivial = true
		}
		// reach probes
		for _, x := range []*side{s.I, s.R} {
			if x.errKind == "mismatch" {
				o.Probe("peer-id-mismatch-" + protoName(c.tls) + "-" + roleName(x.init))
				o.Nontrivial = true
			}
			if x.mustFail != "" && x.errKind == "timeout" {
				o.Probe("altered-ends-in-timeout")
			}
			if x.hsOK && !x.dataOK && s.m.fired && x.mustFail == "" {
				o.Probe("sender-completes-while-receiver-refuses")
			}
		}
		if prologueMismatch(s.I.p, s.R.p) && !s.I.hsOK && !s.R.hsOK {
			o.Probe("prologue-mismatch-refused")
			o.Nontrivial = true
		}
		if s.m.ed.kind == edReroute && s.I.hsOK && s.I.dataOK {
			o.Probe("rerouted-session-completes-with-true-identity")
		}
		if s.I.edh != nil && s.I.hsOK && s.R.hsOK {
			o.Probe("early-data-delivered")
		}
		if s.name == "twin" && s.I.hsOK && s.R.hsOK && sessions[0].I.hsOK && sessions[0].R.hsOK {
			o.Probe("concurrent-sessions-of-one-transport-complete")
		}
		if !adversary && s.I.hsOK && s.R.hsOK {
			o.Probe("clean-" + protoName(c.tls) + "-" + keyTypeNames[s.I.p.id.typ] + "-" + keyTypeNames[s.R.p.id.typ])
		}
	}
	if c.kind == pkReuse {
		o.Logf("one SessionTransport of {%s} reused for: %s", c.owner, reuseDesc(c))
		anonBefore := false
		for i, st := range c.steps {
			if i < len(sessions) {
				own := sessions[i].R
				if st.role == ruOutbound {
					own = sessions[i].I
				}
				if st.role != ruInboundAnon && anonBefore {
					o.Probe("reused-session-transport-named-after-anonymous")
					if st.named == exOther && own.errKind == "mismatch" {
						o.Probe("reused-session-transport-refuses-impostor-after-anonymous")
					}
				}
				if own.hsOK {
					o.Probe("reused-session-transport-" + ruNames[st.role] + "-completes")
				}
			}
			anonBefore = anonBefore || st.role == ruInboundAnon
		}
		if len(sessions) >= 2 {
			o.Nontrivial = true
		}
	}
	if byzRes != nil {
		byzRes.judge(o, c.byz)
		sig += byzRes.sig
	}
	o.Sig = sig
	finish(o, res, "pipe")
}

func finish(o *common.Outcome, res simrt.Result, stratum string) {
	if res.Panic != "" {
		o.Violate("C01/panic/"+stratum, "%s", res.Panic)
	}
	if (res.Stuck || res.StepLimit) && o.Trouble == "" {
		o.Trouble = fmt.Sprintf("%s: stuck=%v steplimit=%v", stratum, res.Stuck, res.StepLimit)
	}
	if len(res.Residue) > 0 && o.Trouble == "" {
		o.Trouble = fmt.Sprintf("%s: goroutines left after the run: %v", stratum, res.Residue)
	}
}

func reuseDesc(c pipeCfg) string {
	var l []string
	for i, st := range c.steps {
		x := fmt.Sprintf("%d:%s", i+1, ruNames[st.role])
		if st.role != ruInboundAnon {
			x += "(names " + exNames[st.named] + ")"
		}
		l = append(l, x+" with "+st.partner.String())
	}
	return strings.Join(l, ", ")
}
