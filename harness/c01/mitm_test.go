package c01

import (
	"encoding/binary"
	"fmt"

	"verifsim/simnet"
	"verifsim/simrt"
)

// Mallory: a frame-aware man in the middle on top of simnet's chunk hook. Chunks are arbitrary
// fragments of the byte stream, so bytes are buffered per direction until a whole frame of the
// protocol spoken on the wire is available; the planned edit is applied to handshake frame #idx of
// one direction and everything else is forwarded unchanged, in order.
//
// Framings: Noise = 2-byte big-endian length + body (handshake messages 1-3 and transport
// messages alike); TLS = record header (type, 2 version bytes, 2 length bytes) + body;
// multistream-select = uvarint length + line ending in '\n'.

const (
	frNoise = iota
	frTLS
	frMSS
)

const (
	edNone      = iota
	edFlip      // XOR one byte of the frame (length fields of frames whose length depends on crypto randomness: +-delta, see flip)
	edTruncFix  // cut the tail of the body, length field corrected
	edTruncRaw  // cut the tail of the frame, length field untouched
	edExtendFix // append junk to the body, length field corrected
	edExtendRaw // junk bytes follow the (unaltered) frame
	edDrop      // frame never delivered
	edDup       // frame delivered twice
	edSwap      // frame exchanged with the same frame of a second concurrent session
	edReroute   // EVERY frame of both directions is delivered to the other session (sessions re-paired)
	edReplay    // frame replaced by the same frame recorded from an earlier session
	edReplayDir // every handshake frame of the direction replaced by the recorded ones
	edSubst     // multistream: line replaced by another well-formed line
	edCut       // the head of the frame is delivered, then the connection is torn down
	nEdKinds
)

var edNames = [nEdKinds]string{"none", "flip", "trunc-fix", "trunc-raw", "extend-fix", "extend-raw", "drop", "dup", "swap", "reroute", "replay", "replay-dir", "subst", "cut"}

type edit struct {
	kind   int
	dir    int  // 0 = initiator -> responder, 1 = responder -> initiator
	idx    int  // handshake frame index within the direction (TLS: dummy ChangeCipherSpec records are not counted)
	pos    int  // raw position draw
	mask   byte // XOR mask (non-zero)
	k      int  // raw amount draw
	varLen bool // the frame's length depends on crypto randomness (see flip)
	subst  string
}

func (e edit) String() string {
	if e.kind == edNone {
		return "no wire edit"
	}
	d := "I>R"
	if e.dir == 1 {
		d = "R>I"
	}
	s := fmt.Sprintf("%s frame %s#%d", edNames[e.kind], d, e.idx)
	switch e.kind {
	case edFlip:
		s += fmt.Sprintf(" pos-draw=%d mask=%02x", e.pos, e.mask)
	case edTruncFix, edTruncRaw, edExtendFix, edExtendRaw, edCut:
		s += fmt.Sprintf(" amount-draw=%d", e.k)
	case edSubst:
		s += fmt.Sprintf(" with %q", e.subst)
	case edReroute:
		s = "reroute all frames to the other session"
	}
	return s
}

type region struct {
	off, n int
	got    []byte
}

type dirState struct {
	buf     []byte // honest bytes not yet parsed into a frame
	seen    int    // stream offset: bytes that went through the hook in this direction
	idx     int    // next handshake frame index
	raw     bool   // framing lost (or not wanted any more): forward verbatim
	holding bool   // a frame was given away to the other session: queue what follows until its replacement arrives
	queue   []byte
	inj     []region // byte ranges of the stream that Mallory wrote herself (already edited: forwarded verbatim)
}

type mitm struct {
	name     string
	framing  int
	ed       edit
	d        [2]dirState
	send     [2]*simnet.Conn // endpoint whose Write feeds direction i (for injection)
	other    *mitm           // second session (swap / reroute)
	replay   [2][][]byte     // frames recorded from an earlier session
	rec      [2][][]byte     // handshake frames seen in this session (originals)
	swapIn   []byte          // the other session's frame, waiting for ours to be sent
	tailWant []byte          // trunc-raw / cut: the bytes that were removed from the end of the frame ...
	tailGot  []byte          // ... and the bytes that followed in the stream instead
	quart    int             // flip: quarter of the frame that was hit (0..3), for coverage probes
	fired    bool
	note     string // what exactly was done (lengths may depend on crypto randomness: trace only, never signature)
	trouble  string
}

func newMitm(name string, framing int, ed edit, d, l *simnet.Conn) *mitm {
	m := &mitm{name: name, framing: framing, ed: ed}
	m.send[0], m.send[1] = d, l
	d.SetHook(m.hook)
	return m
}

func (m *mitm) hdrLen() int {
	if m.framing == frTLS {
		return 5
	}
	return 2
}

// nextFrame returns the length of the first complete frame in b, 0 if more bytes are needed, -1 if
// b does not look like a frame of the expected protocol.
func (m *mitm) nextFrame(b []byte) int {
	switch m.framing {
	case frNoise:
		if len(b) < 2 {
			return 0
		}
		n := 2 + int(binary.BigEndian.Uint16(b))
		if len(b) < n {
			return 0
		}
		return n
	case frTLS:
		if len(b) < 5 {
			if len(b) > 0 && (b[0] < 20 || b[0] > 23) {
				return -1
			}
			return 0
		}
		if b[0] < 20 || b[0] > 23 {
			return -1
		}
		n := 5 + int(binary.BigEndian.Uint16(b[3:5]))
		if n > 5+16384+256 {
			return -1
		}
		if len(b) < n {
			return 0
		}
		return n
	case frMSS:
		l, k := binary.Uvarint(b)
		if k == 0 {
			if len(b) >= 2 {
				return -1
			}
			return 0
		}
		if k < 0 || l == 0 || l > 200 {
			return -1
		}
		n := k + int(l)
		if len(b) < n {
			return 0
		}
		if b[n-1] != '\n' || (b[k] != '/' && string(b[k:n]) != "na\n") {
			return -1
		}
		return n
	}
	return -1
}

// hook is called by the delivering pump task for every chunk; pumps are released one at a time by
// the scheduler, so calls never overlap.
func (m *mitm) hook(toDialer bool, chunk []byte) []byte {
	dir := 0
	if toDialer {
		dir = 1
	}
	ds := &m.d[dir]
	var out []byte
	for len(chunk) > 0 {
		if len(ds.inj) > 0 && ds.seen >= ds.inj[0].off {
			r := &ds.inj[0]
			n := r.off + r.n - ds.seen
			if n > len(chunk) {
				n = len(chunk)
			}
			r.got = append(r.got, chunk[:n]...)
			ds.seen += n
			chunk = chunk[n:]
			if ds.seen == r.off+r.n {
				// a frame Mallory injected herself (it came from the other session) is complete
				got := r.got
				ds.inj = ds.inj[1:]
				switch {
				case m.ed.kind != edSwap:
					out = append(out, got...)
				case ds.holding:
					// our own frame was already given away: the replacement takes its place, then what queued up behind
					ds.holding = false
					out = append(out, got...)
					out = append(out, ds.queue...)
					ds.queue = nil
				default:
					// our own frame has not been sent yet: keep the replacement until it is
					m.swapIn = got
				}
			}
			continue
		}
		n := len(chunk)
		if len(ds.inj) > 0 && ds.inj[0].off-ds.seen < n {
			n = ds.inj[0].off - ds.seen
		}
		ds.buf = append(ds.buf, chunk[:n]...)
		ds.seen += n
		chunk = chunk[n:]
		out = append(out, m.drain(dir)...)
	}
	return out
}

func (m *mitm) emit(dir int, b []byte) []byte {
	ds := &m.d[dir]
	if m.tailWant != nil && dir == m.ed.dir && len(m.tailGot) < len(m.tailWant) {
		m.tailGot = append(m.tailGot, b...)
	}
	if ds.holding {
		ds.queue = append(ds.queue, b...)
		return nil
	}
	return b
}

func (m *mitm) drain(dir int) []byte {
	ds := &m.d[dir]
	var out []byte
	for {
		if ds.raw {
			out = append(out, m.emit(dir, ds.buf)...)
			ds.buf = nil
			return out
		}
		n := m.nextFrame(ds.buf)
		if n == 0 {
			return out
		}
		if n < 0 {
			ds.raw = true
			continue
		}
		f := append([]byte(nil), ds.buf[:n]...)
		ds.buf = ds.buf[n:]
		out = append(out, m.onFrame(dir, f)...)
	}
}

// inject makes b appear in direction dir of this session (written through the sending endpoint, so
// that the direction's pump delivers it); the hook forwards the range verbatim.
func (m *mitm) inject(dir int, b []byte) bool {
	c := m.send[dir]
	off := c.Stats().BytesOut
	m.d[dir].inj = append(m.d[dir].inj, region{off: off, n: len(b)})
	if _, err := c.Write(b); err != nil {
		m.d[dir].inj = m.d[dir].inj[:len(m.d[dir].inj)-1]
		return false
	}
	return true
}

func (m *mitm) onFrame(dir int, f []byte) []byte {
	ds := &m.d[dir]
	e := m.ed
	if e.kind == edReroute {
		if m.other == nil {
			m.trouble = "reroute without a second session"
			return m.emit(dir, f)
		}
		if len(m.rec[dir]) < 8 {
			m.rec[dir] = append(m.rec[dir], f)
		}
		if m.other.inject(dir, f) {
			m.fired = true
			m.note = "every frame delivered to session " + m.other.name
		}
		return nil
	}
	if m.framing == frTLS && f[0] == 20 {
		// dummy ChangeCipherSpec: ignored by TLS 1.3, not handshake data (never edited, never counted)
		return m.emit(dir, f)
	}
	idx := ds.idx
	ds.idx++
	if len(m.rec[dir]) < 8 {
		m.rec[dir] = append(m.rec[dir], f)
	}
	if e.kind == edReplayDir && dir == e.dir {
		if idx < len(m.replay[dir]) {
			m.fired = true
			m.note = fmt.Sprintf("replaced every frame of the direction by the recorded ones (so far %d)", idx+1)
			return m.emit(dir, m.replay[dir][idx])
		}
		return m.emit(dir, f)
	}
	if e.kind == edNone || dir != e.dir || idx != e.idx || m.fired {
		return m.emit(dir, f)
	}
	switch e.kind {
	case edSwap:
		if m.other == nil {
			m.trouble = "swap without a second session"
			return m.emit(dir, f)
		}
		m.fired = true
		m.note = fmt.Sprintf("gave frame (%d bytes) to session %s", len(f), m.other.name)
		if !m.other.inject(dir, f) {
			m.note += " (its sender had already closed: dropped there)"
		}
		if m.swapIn != nil {
			rep := m.swapIn
			m.swapIn = nil
			m.note += fmt.Sprintf(" and delivered that session's frame (%d bytes) in its place", len(rep))
			return m.emit(dir, rep)
		}
		// what follows in this direction waits for the replacement coming from the other session
		ds.holding = true
		return nil
	case edReplay:
		if idx >= len(m.replay[dir]) {
			return m.emit(dir, f)
		}
		m.fired = true
		m.note = fmt.Sprintf("replaced frame (%d bytes) by the recorded one (%d bytes)", len(f), len(m.replay[dir][idx]))
		return m.emit(dir, m.replay[dir][idx])
	}
	g, note := m.apply(f, idx)
	if note == "" {
		return m.emit(dir, f)
	}
	m.fired = true
	m.note = note
	out := m.emit(dir, g)
	if (e.kind == edTruncRaw || e.kind == edCut) && len(g) < len(f) {
		m.tailWant = f[len(g):]
	}
	return out
}

// restored: after a truncation that left the length field alone, the receiver completes the frame
// with whatever bytes follow in the stream. If those happen to equal the bytes that were cut (one byte:
// 1 in 256 — ciphertext is random), the receiver has consumed exactly the frame its partner sent: it
// received nothing altered (what lost its head is the FOLLOWING frame).
func (m *mitm) restored() bool {
	return m.tailWant != nil && len(m.tailGot) >= len(m.tailWant) && string(m.tailGot[:len(m.tailWant)]) == string(m.tailWant)
}

var junk = []byte{0xa5, 0x5a, 0xc3, 0x3c, 0x0f, 0xf0, 0x99, 0x66, 0xa5, 0x5a, 0xc3, 0x3c, 0x0f, 0xf0, 0x99, 0x66}

// setLen rewrites the length field of frame f to n (body length).
func (m *mitm) setLen(f []byte, n int) []byte {
	switch m.framing {
	case frNoise:
		binary.BigEndian.PutUint16(f, uint16(n))
		return f
	case frTLS:
		binary.BigEndian.PutUint16(f[3:5], uint16(n))
		return f
	}
	// multistream: re-encode the uvarint
	_, k := binary.Uvarint(f)
	var v [binary.MaxVarintLen64]byte
	w := binary.PutUvarint(v[:], uint64(n))
	return append(append([]byte(nil), v[:w]...), f[k:]...)
}

func (m *mitm) split(f []byte) (hdr int, body []byte) {
	if m.framing == frMSS {
		_, k := binary.Uvarint(f)
		return k, f[k:]
	}
	h := m.hdrLen()
	return h, f[h:]
}

// amount is the number of body bytes a truncation removes: 1..len(body) when the frame's length is a
// function of the tape, 1..16 otherwise — how many bytes are missing decides whether the receiver
// stalls or swallows what follows, which must not depend on a random length.
func (m *mitm) amount(bodyLen, idx int) int {
	det := !m.ed.varLen || (m.framing == frTLS && idx == 0) // ClientHello / ServerHello have a fixed layout
	if det && m.framing == frTLS && m.ed.dir == 1 {
		// ServerHello is followed by more records: what a raw truncation removes is refilled from them. Staying inside
		// the trailing key-share bytes keeps the message's structure intact whatever the refill contains.
		return 1 + m.ed.k%32
	}
	if det {
		return 1 + m.ed.k%bodyLen
	}
	n := 1 + m.ed.k%16
	if n > bodyLen {
		n = bodyLen
	}
	return n
}

// rawCut adjusts the number of bytes a truncation WITHOUT length correction removes so that the first
// removed byte cannot be the first byte of whatever frame follows in the stream (0x00: length prefix of
// a short Noise frame; 0x14..0x17: TLS record types). Otherwise the receiver, which completes the frame
// with the bytes that follow, would in 1 of 256 runs re-assemble exactly the original frame and
// legitimately proceed (see restored) — an outcome decided by random ciphertext, not by the tape.
func rawCut(f []byte, bodyLen, n int) int {
	bad := func(b byte) bool { return b == 0 || (b >= 0x14 && b <= 0x17) }
	if bad(f[len(f)-n]) {
		if n < bodyLen {
			n++
		} else if n > 1 {
			n--
		}
	}
	return n
}

// apply performs the single-frame edits. It returns the bytes to forward and a description; an
// empty description means the edit was not applicable (nothing fired).
func (m *mitm) apply(f []byte, idx int) ([]byte, string) {
	e := m.ed
	hdr, body := m.split(f)
	switch e.kind {
	case edFlip:
		return m.flip(f, idx)
	case edTruncFix:
		if len(body) == 0 {
			return nil, ""
		}
		n := m.amount(len(body), idx)
		g := append([]byte(nil), f[:len(f)-n]...)
		g = m.setLen(g, len(body)-n)
		return g, fmt.Sprintf("cut %d of %d body bytes, length field corrected", n, len(body))
	case edTruncRaw:
		if len(body) == 0 {
			return nil, ""
		}
		n := rawCut(f, len(body), m.amount(len(body), idx))
		return append([]byte(nil), f[:len(f)-n]...), fmt.Sprintf("cut %d of %d body bytes, length field untouched", n, len(body))
	case edCut:
		if len(body) == 0 {
			return nil, ""
		}
		n := rawCut(f, len(body), m.amount(len(body), idx))
		// the sender's endpoint is closed by a task of its own (the hook runs under the connection's lock):
		// the receiver sees the head of the frame, then EOF
		c := m.send[e.dir]
		simrt.GoNamed("cut", func() { c.Close() })
		return append([]byte(nil), f[:len(f)-n]...), fmt.Sprintf("delivered all but the last %d of %d body bytes, then closed the connection", n, len(body))
	case edExtendFix:
		n := 1 + e.k%len(junk)
		g := append(append([]byte(nil), f...), junk[:n]...)
		g = m.setLen(g, len(body)+n)
		return g, fmt.Sprintf("appended %d junk bytes to the %d-byte body, length field corrected", n, len(body))
	case edExtendRaw:
		n := 1 + e.k%len(junk)
		return append(append([]byte(nil), f...), junk[:n]...), fmt.Sprintf("%d junk bytes follow the unaltered frame", n)
	case edDrop:
		return []byte{}, fmt.Sprintf("dropped frame (%d bytes)", len(f))
	case edDup:
		return append(append([]byte(nil), f...), f...), fmt.Sprintf("delivered frame (%d bytes) twice", len(f))
	case edSubst:
		g := append([]byte{0}, e.subst...)
		g = m.setLen(g, len(e.subst))
		return g, fmt.Sprintf("replaced line %q by %q", string(body), e.subst)
	}
	_ = hdr
	return nil, ""
}

// flip alters one byte.
//
// Frames whose length is a function of the tape (Noise with Ed25519/RSA identities, multistream
// lines): byte pos%len is XORed with the mask — every byte of the frame including its length
// prefix is reachable.
//
// Frames whose length depends on crypto randomness (DER ECDSA signatures inside; every TLS record):
// which byte is hit must not decide the shape of the run, otherwise runs would not replay. The
// position draw therefore selects header or body first; body bytes (AEAD ciphertext, or the fixed
// layout of ClientHello/ServerHello) are XORed at offset draw%bodyLen; the length field is changed
// by +-1..3, +256 or halved (ClientHello / ServerHello: cut down to the handshake header) instead of XORed (an XOR would make the record longer or shorter depending on
// the random length). TLS: the two legacy-version bytes of the first record of each direction are
// excluded — crypto/tls accepts any value below 0x1000 there before a version is negotiated, TLS 1.3
// leaves them unauthenticated (RFC 8446 5.1), so changing them is not an alteration of handshake data.
func (m *mitm) flip(f []byte, idx int) ([]byte, string) {
	e := m.ed
	g := append([]byte(nil), f...)
	if m.framing == frMSS || (m.framing == frNoise && !e.varLen) {
		p := e.pos % len(g)
		g[p] ^= e.mask
		m.quart = 4 * p / len(g)
		return g, fmt.Sprintf("flipped byte %d of %d (mask %02x)", p, len(g), e.mask)
	}
	hdr, body := m.split(f)
	if e.pos%8 == 0 || len(body) == 0 {
		h := (e.pos / 8) % hdr
		if m.framing == frTLS && (h == 1 || h == 2) && idx > 0 {
			g[h] ^= e.mask
			return g, fmt.Sprintf("flipped record header byte %d (mask %02x)", h, e.mask)
		}
		if m.framing == frTLS && h <= 2 {
			g[0] ^= e.mask
			return g, fmt.Sprintf("flipped record type byte (mask %02x)", e.mask)
		}
		// length field
		cur := len(body)
		d := 1 + (e.pos/256)%3
		var nl int
		switch (e.pos / 64) % 4 {
		case 0:
			nl = cur + d
		case 1:
			nl = cur - d
		case 2:
			nl = cur + 256
		default:
			nl = cur / 2
		}
		if m.framing == frTLS && idx == 0 && nl < cur {
			// ClientHello / ServerHello travel in the clear: after a shortened record the receiver parses the left-over
			// bytes as the next record header. Keeping exactly the 4-byte handshake header makes the left-over start
			// with the fixed legacy_version bytes (an invalid record type) instead of random key-share bytes.
			nl = 4
		}
		if nl < 0 {
			nl = 0
		}
		if nl > 0xffff {
			nl = 0xffff
		}
		g = m.setLen(g, nl)
		return g, fmt.Sprintf("length field %d -> %d", cur, nl)
	}
	p := (e.pos / 8) % len(body)
	mask := e.mask
	if m.framing == frTLS && idx == 0 && e.dir == 0 {
		p, mask = mlkemSafe(body, p, mask)
	}
	g[hdr+p] ^= mask
	m.quart = 4 * (hdr + p) / len(g)
	return g, fmt.Sprintf("flipped body byte %d of %d (mask %02x)", p, len(body), mask)
}

// mlkemSafe adjusts a flip inside the ML-KEM-768 encapsulation key of a ClientHello (hybrid key share
// X25519MLKEM768, group 0x11ec). That key is a sequence of 12-bit coefficients which the server
// rejects at once when one is >= 3329 and otherwise accepts (the handshake then fails later, on the
// client): whether a flipped bit crosses that bound depends on the random key, so the shape of the run
// would not be a function of the tape. The flip is moved to the nearest (mask, byte) that keeps all
// coefficients in range; the altered key share is still received and must still be refused.
func mlkemSafe(body []byte, p int, mask byte) (int, byte) {
	start, n := mlkemRegion(body)
	if n == 0 || p < start || p >= start+n {
		return p, mask
	}
	ok := func(q int, mk byte) bool {
		t := start + (q-start)/3*3
		var b [3]byte
		copy(b[:], body[t:t+3])
		b[q-t] ^= mk
		c1 := int(b[0]) | int(b[1]&0x0f)<<8
		c2 := int(b[1]>>4) | int(b[2])<<4
		return c1 < 3329 && c2 < 3329
	}
	for q := p; q < start+n; q++ {
		if ok(q, mask) {
			return q, mask
		}
		for bit := 0; bit < 8; bit++ {
			if mk := byte(1) << bit; ok(q, mk) {
				return q, mk
			}
		}
	}
	return p, mask
}

// mlkemRegion locates the polynomial part (1152 bytes) of an ML-KEM-768 encapsulation key inside the
// key_share extension of a ClientHello handshake message (record body).
func mlkemRegion(b []byte) (int, int) {
	// handshake header(4) version(2) random(32)
	p := 4 + 2 + 32
	if len(b) < p+1 || b[0] != 1 {
		return 0, 0
	}
	p += 1 + int(b[p]) // session id
	if len(b) < p+2 {
		return 0, 0
	}
	p += 2 + int(binary.BigEndian.Uint16(b[p:])) // cipher suites
	if len(b) < p+1 {
		return 0, 0
	}
	p += 1 + int(b[p]) // compression methods
	if len(b) < p+2 {
		return 0, 0
	}
	end := p + 2 + int(binary.BigEndian.Uint16(b[p:]))
	p += 2
	if end > len(b) {
		return 0, 0
	}
	for p+4 <= end {
		typ := binary.BigEndian.Uint16(b[p:])
		l := int(binary.BigEndian.Uint16(b[p+2:]))
		p += 4
		if p+l > end {
			return 0, 0
		}
		if typ == 51 { // key_share
			q := p + 2
			for q+4 <= p+l {
				grp := binary.BigEndian.Uint16(b[q:])
				kl := int(binary.BigEndian.Uint16(b[q+2:]))
				q += 4
				if q+kl > p+l {
					return 0, 0
				}
				if grp == 0x11ec && kl == 1184+32 {
					return q, 1152
				}
				q += kl
			}
			return 0, 0
		}
		p += l
	}
	return 0, 0
}
