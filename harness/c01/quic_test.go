package c01

import (
	"context"
	"fmt"
	mrand "math/rand"
	"net"
	"testing"
	"time"

	"github.com/libp2p/go-libp2p/core/crypto"
	"github.com/libp2p/go-libp2p/core/network"
	"github.com/libp2p/go-libp2p/core/peer"
	"github.com/libp2p/go-libp2p/core/peerstore"
	ma "github.com/multiformats/go-multiaddr"
	manet "github.com/multiformats/go-multiaddr/net"

	"verifsim/harness/common"
	"verifsim/simhost"
	"verifsim/simnet"
	"verifsim/simrt"
	"verifsim/simsync"
)

// Stratum "quic": real nodes with the real QUIC transport (p2p/transport/quic, quicreuse, quic-go; all
// instrumented) over simnet's UDP model. QUIC authenticates with the same libp2p TLS identity code
// (Identity.ConfigForPeer, PubKeyFromCertChain) but its own plumbing: the dialer attributes the peer it
// asked for, the listener re-derives the peer from the certificate chain, and the hole-punch path
// (Dial with a simultaneous-connect "server" context) returns a connection that the transport's OWN
// LISTENER accepted.
//
//	wrong-peer   A dials peer P at an address where a node with another key (Q) listens
//	punch-wrong  A punches towards (address X, peer P); meanwhile Q — a node with another key that owns
//	             address X — dials A from X. The pending Dial must never return Q's connection, and Q's
//	             legitimate inbound connection must reach A's swarm
//	punch-right  the same with the right peer P at X: the punch succeeds
//	control      A dials the node under its true ID
//
// each through Swarm.DialPeer and directly at the transport (Swarm.TransportForDialing(addr).Dial), with
// drawn UDP faults (loss <= 30 %, duplication, reordering, a partition that heals). Identity oracles hold
// under any fault; "must succeed / must be visible" is asserted in fault-free runs only, plus one fresh
// dial of the true peer after the faults stopped.

const (
	qkWrongPeer = iota
	qkPunchWrong
	qkPunchRight
	qkControl
)

var qkNames = []string{"wrong-peer", "punch-wrong", "punch-right", "control"}

const (
	qfNone = iota
	qfLossy
	qfPartition
)

var qfNames = []string{"none", "lossy", "partition"}

type quicNode struct {
	nd     *simhost.Node
	id     ident
	closed bool
}

func (q *quicNode) Close() {
	if !q.closed {
		q.closed = true
		q.nd.Close()
	}
}

// connView is what a connection reports about its remote end.
type connView struct {
	peer peer.ID
	key  crypto.PubKey
	addr string // remote UDP address
}

func viewOf(c interface {
	RemotePeer() peer.ID
	RemotePublicKey() crypto.PubKey
	RemoteMultiaddr() ma.Multiaddr
}) connView {
	return connView{peer: c.RemotePeer(), key: c.RemotePublicKey(), addr: udpKey(c.RemoteMultiaddr())}
}

type quicWorld struct {
	o     *common.Outcome
	what  string
	truth map[string]ident // UDP address -> the process that owns the socket (nodes dial from their listen port)
}

// judgeConn: clause 1 for one connection object, wherever it came from. dir says which end reports.
func (w *quicWorld) judgeConn(v connView, dir, where string) {
	derived, err := derive(v.key)
	switch {
	case err != nil:
		w.o.Violate("C01/remote-key-missing/quic/"+dir, "%s: %s: a connection from %s has no usable RemotePublicKey() (%v)", w.what, where, v.addr, err)
		return
	case derived != v.peer:
		w.o.Violate("C01/remote-peer-not-derived-from-key/quic/"+dir, "%s: %s: connection reports RemotePeer()=%s but RemotePublicKey() derives %s", w.what, where, nameOf(v.peer), nameOf(derived))
		return
	}
	if t, ok := w.truth[v.addr]; ok {
		if v.peer != pidOf(t) {
			w.o.Violate("C01/wrong-identity/quic/"+dir, "%s: %s: connection with %s reports remote peer %s; the process that owns that address and completed the TLS handshake is %s", w.what, where, v.addr, nameOf(v.peer), t)
		}
	} else {
		w.o.Probe("quic-conn-from-unknown-address")
	}
}

func (w *quicWorld) auditSwarm(n *quicNode, name string) {
	for _, c := range n.nd.Swarm.Conns() {
		dir := "outbound"
		if c.Stat().Direction == network.DirInbound {
			dir = "inbound"
		}
		w.judgeConn(viewOf(c), dir, "swarm of "+name)
	}
}

// udpKey is "ip:port" of a /ip4/../udp/../quic-v1 address.
func udpKey(a ma.Multiaddr) string {
	_, hostport, err := manet.DialArgs(a)
	if err != nil {
		return "?" + a.String()
	}
	return hostport
}

func runQUIC(t *testing.T, tape *simrt.Tape, g simrt.Gen, o *common.Outcome) {
	kind := g.Weighted(3, 4, 2, 1)
	atTransport := g.Bool()
	aID := ident{g.Int(nKeyTypes), slotI}
	qID := ident{g.Int(nKeyTypes), slotR} // the node that really owns address X (wrong-peer / punch-wrong / control)
	pID := ident{g.Int(nKeyTypes), slotV} // the peer A asks for
	faults := g.Weighted(5, 3, 2)
	drop := []int{30, 120, 300}[g.Int(3)]
	dup := []int{0, 50}[g.Int(2)]
	lats := [][]time.Duration{nil, {0, time.Millisecond, 15 * time.Millisecond}, {0, 5 * time.Millisecond, 80 * time.Millisecond, 400 * time.Millisecond}}[g.Int(3)]
	heal := []time.Duration{300 * time.Millisecond, 2 * time.Second, 8 * time.Second}[g.Int(3)]
	delay := []time.Duration{20 * time.Millisecond, 0, 300 * time.Millisecond, 2 * time.Second}[g.Int(4)] // when the other node dials in, relative to the start of the punch
	rebuilt := (kind == qkWrongPeer || kind == qkPunchWrong) && g.Chance(1, 4)                            // P really lived at X, went away, Q took the address over
	seed := uint64(g.Int(1 << 16))
	// who lives at X
	xID := qID
	if kind == qkPunchRight {
		xID = pID
	}
	target := pID
	if kind == qkControl {
		target = qID
	}
	level := "swarm"
	if atTransport {
		level = "transport"
	}
	fdesc := qfNames[faults]
	switch faults {
	case qfLossy:
		fdesc = fmt.Sprintf("lossy(drop=%d/1000 dup=%d/1000 latencies=%v)", drop, dup, lats)
	case qfPartition:
		fdesc = fmt.Sprintf("partition healing after %v", heal)
	}
	o.Logf("stratum=quic kind=%s level=%s A=%s X-owner=%s dialled=%s faults=%s other-dials-after=%v rebuilt=%v", qkNames[kind], level, aID, xID, target, fdesc, delay, rebuilt)
	w := &quicWorld{o: o, truth: map[string]ident{}}
	w.what = fmt.Sprintf("quic %s at %s level: A=%s, address X is owned by %s, A asks for %s, faults %s", qkNames[kind], level, aID, xID, target, fdesc)

	// RSA keys come from the real crypto/rand once per process: build them before the run's deterministic stream is installed
	for _, id := range []ident{aID, qID, pID} {
		keyOf(id)
	}
	restore := installRand(seed)
	defer restore()

	var n *simnet.Net
	dialRes, otherRes, afterRes := "", "", ""
	faultFree := faults == qfNone

	res := simrt.Run(t, simrt.Config{MaxSteps: 3_000_000, IdleLimit: 24 * time.Hour, TraceCap: 20000}, tape.S, func() {
		// the hole-punch loop draws its pauses from math/rand's global source: seeded per run (go:debug randseednop=0)
		mrand.Seed(int64(seed) + 1)
		n = simnet.New(tape.S, simnet.Config{})
		mk := func(id ident, ip string) (*quicNode, error) {
			nd, err := simhost.New(n, simhost.Opts{Key: keyOf(id), IP: ip, Port: 4001, QUIC: true, NoTCPListen: true})
			if err != nil {
				return nil, err
			}
			return &quicNode{nd: nd, id: id}, nil
		}
		a, err := mk(aID, "10.3.0.1")
		if err != nil {
			o.Trouble = "node A: " + err.Error()
			return
		}
		defer a.Close()
		if rebuilt {
			old, err := mk(pID, "10.3.0.2")
			if err != nil {
				o.Trouble = "node P: " + err.Error()
				return
			}
			old.Close()
			simrt.TimeSleep(time.Second)
		}
		x, err := mk(xID, "10.3.0.2")
		if err != nil {
			o.Trouble = "node at X: " + err.Error()
			return
		}
		defer x.Close()
		X := x.nd.QAddr
		w.truth[udpKey(a.nd.QAddr)] = aID
		w.truth[udpKey(X)] = xID
		a.nd.PS.AddAddrs(pidOf(target), []ma.Multiaddr{X}, peerstore.PermanentAddrTTL)
		x.nd.PS.AddAddrs(a.nd.ID, []ma.Multiaddr{a.nd.QAddr}, peerstore.PermanentAddrTTL)

		// faults
		start := time.Now()
		switch faults {
		case qfLossy:
			n.SetUDP(simnet.UDPConfig{DropPermille: drop, DupPermille: dup, Latencies: lats})
		case qfPartition:
			n.SetUDPFilter(func(from, to *net.UDPAddr, _ []byte) simnet.UDPVerdict {
				if time.Since(start) < heal {
					return simnet.UDPDrop
				}
				return simnet.UDPPass
			})
		}

		// judgeDial: what a Dial for `target` handed out
		judgeDial := func(v connView, how string) {
			w.judgeConn(v, "outbound", how)
			if v.peer != pidOf(target) {
				class := "C01/dial-returned-wrong-peer/quic/" + level
				if kind == qkPunchWrong || kind == qkPunchRight {
					class = "C01/quic-holepunch-returned-wrong-peer/" + level
				}
				o.Violate(class, "%s: %s for %s returned a connection whose RemotePeer() is %s", w.what, how, nameOf(pidOf(target)), nameOf(v.peer))
			}
		}
		var held []interface{ Close() error } // transport-level connections are ours to close
		dial := func(ctx context.Context, how string) bool {
			if atTransport {
				tp := a.nd.Swarm.TransportForDialing(X)
				if tp == nil {
					o.Trouble = "no transport for " + X.String()
					return false
				}
				c, err := tp.Dial(ctx, X, pidOf(target))
				if err != nil {
					return false
				}
				held = append(held, c)
				judgeDial(viewOf(c), how)
				return true
			}
			c, err := a.nd.Swarm.DialPeer(ctx, pidOf(target))
			if err != nil {
				return false
			}
			judgeDial(viewOf(c), how)
			return true
		}

		switch kind {
		case qkWrongPeer, qkControl:
			ctx, cancel := context.WithTimeout(context.Background(), 30*time.Second)
			ok := dial(ctx, "Dial")
			cancel()
			dialRes = map[bool]string{true: "connected", false: "refused"}[ok]
		case qkPunchWrong, qkPunchRight:
			var wg simsync.WaitGroup
			wg.Add(2)
			simrt.GoNamed("punch", func() {
				defer wg.Done()
				ctx, cancel := context.WithTimeout(context.Background(), 20*time.Second)
				defer cancel()
				ok := dial(network.WithSimultaneousConnect(ctx, false, "hole-punching"), "hole-punching Dial")
				dialRes = map[bool]string{true: "connected", false: "refused"}[ok]
			})
			simrt.GoNamed("other", func() {
				defer wg.Done()
				if delay > 0 {
					simrt.TimeSleep(delay)
				}
				ctx, cancel := context.WithTimeout(context.Background(), 20*time.Second)
				defer cancel()
				c, err := x.nd.Swarm.DialPeer(ctx, a.nd.ID)
				if err != nil {
					otherRes = "refused"
					return
				}
				otherRes = "connected"
				w.judgeConn(viewOf(c), "outbound", "DialPeer(A) by the node at X")
			})
			wg.Wait()
		}

		// faults stop; everything in flight settles
		n.SetUDP(simnet.UDPConfig{})
		n.SetUDPFilter(nil)
		simrt.WaitIdle()
		simrt.TimeSleep(2 * time.Second)
		simrt.WaitIdle()

		// ---- audit ------------------------------------------------------------------------------
		w.auditSwarm(a, "A")
		w.auditSwarm(x, "the node at X")
		if target != xID {
			// nobody holds P's key in this world
			if cs := a.nd.Swarm.ConnsToPeer(pidOf(target)); len(cs) > 0 {
				o.Violate("C01/swarm-lists-conn-to-unauthenticated-peer/quic", "%s: afterwards A's swarm lists %d connection(s) to %s", w.what, len(cs), nameOf(pidOf(target)))
			}
			if a.nd.Swarm.Connectedness(pidOf(target)) == network.Connected {
				o.Violate("C01/swarm-connected-to-unauthenticated-peer/quic", "%s: afterwards Connectedness(%s) is Connected", w.what, nameOf(pidOf(target)))
			}
		}
		if faultFree {
			switch kind {
			case qkControl:
				if dialRes != "connected" {
					o.Violate("C01/honest-handshake-refused/quic/"+level, "%s: no faults, yet dialing the node under its true ID failed", w.what)
				}
			case qkPunchRight:
				// the punch was registered before the right peer dialed in from X (delay > 0 of virtual time)
				if delay > 0 && dialRes != "connected" {
					o.Violate("C01/quic-holepunch-refused-right-peer/"+level, "%s: no faults, the right peer dialed in from X %v after the punch started (other side: %s), yet the hole-punching Dial failed", w.what, delay, otherRes)
				}
			case qkPunchWrong:
				// Q is an honest node with its own identity: its connection is none of the punch's business
				if otherRes == "connected" && len(a.nd.Swarm.ConnsToPeer(x.nd.ID)) == 0 {
					o.Violate("C01/quic-holepunch-swallowed-inbound-connection/"+level, "%s: no faults; %s dialed A from X and its DialPeer succeeded, but A's swarm lists no connection to it (hole-punching Dial for %s: %s)", w.what, xID, nameOf(pidOf(target)), dialRes)
				}
				if otherRes != "connected" {
					o.Violate("C01/honest-handshake-refused/quic/inbound-during-punch", "%s: no faults, yet the DialPeer(A) of the honest node at X failed", w.what)
				}
			}
		} else {
			// liveness after the faults stopped: a fresh dial of the true owner of X completes
			tp := a.nd.Swarm.TransportForDialing(X)
			ctx, cancel := context.WithTimeout(context.Background(), 30*time.Second)
			c, err := tp.Dial(ctx, X, x.nd.ID)
			cancel()
			if err != nil {
				afterRes = "refused"
				o.Violate("C01/honest-handshake-refused/quic/after-faults-stopped", "%s: 2 s after the faults stopped a fresh Dial of the true owner of X failed: %v", w.what, err)
			} else {
				afterRes = "connected"
				held = append(held, c)
				v := viewOf(c)
				w.judgeConn(v, "outbound", "Dial after the faults stopped")
				if v.peer != x.nd.ID {
					o.Violate("C01/dial-returned-wrong-peer/quic/transport", "%s: Dial after the faults stopped returned %s", w.what, nameOf(v.peer))
				}
				simrt.WaitIdle()
				w.auditSwarm(x, "the node at X")
			}
		}
		for _, c := range held {
			c.Close()
		}
		for _, c := range a.nd.Swarm.Conns() {
			c.Close()
		}
		simrt.WaitIdle()
		a.Close()
		x.Close()
		simrt.TimeSleep(10 * time.Second)
	})
	o.Sched, o.Virtual = res, res.Virtual
	o.Logf("dial: %s; node at X dialing A: %s; fresh dial after faults: %s", dialRes, otherRes, afterRes)
	counts := map[string]int{}
	if n != nil {
		counts = n.UDPCounts()
		o.Logf("udp: %v", counts)
	}
	for _, k := range []string{"udp-lost", "udp-duplicated", "udp-delayed", "udp-filtered"} {
		if counts[k] > 0 {
			o.Fault("quic-" + k)
		}
	}
	o.Nontrivial = kind != qkControl || !faultFree
	o.Probe(fmt.Sprintf("quic-%s-%s-%s", qkNames[kind], level, dialRes))
	if kind == qkPunchWrong && otherRes == "connected" && dialRes == "refused" {
		o.Probe("quic-intruder-during-punch-accepted-as-itself")
	}
	if !faultFree && afterRes == "connected" {
		o.Probe("quic-fresh-dial-after-faults")
	}
	o.Sig = fmt.Sprintf("quic|%s|%s|%s|%s|%s|%s|%v|%v|%d|%s|%s|%s|%v", qkNames[kind], level, aID, qID, pID, fdesc, delay, rebuilt, seed, dialRes, otherRes, afterRes, counts)
	if res.Panic != "" {
		o.Violate("C01/panic/quic", "%s", res.Panic)
	}
	if (res.Stuck || res.StepLimit) && o.Trouble == "" {
		o.Trouble = fmt.Sprintf("quic: stuck=%v steplimit=%v %s", res.Stuck, res.StepLimit, res.Deadlock)
	}
	if len(res.Residue) > 0 {
		o.Probe("quic-residue")
	}
}
