package c01

import (
	"context"
	"crypto/ecdsa"
	"crypto/elliptic"
	"crypto/rand"
	"crypto/tls"
	"crypto/x509"
	"crypto/x509/pkix"
	"encoding/asn1"
	"encoding/binary"
	"fmt"
	"io"
	"math/big"
	"net"
	"time"

	fnoise "github.com/flynn/noise"
	"github.com/libp2p/go-libp2p/core/crypto"
	"github.com/libp2p/go-libp2p/p2p/security/noise/pb"
	libp2ptls "github.com/libp2p/go-libp2p/p2p/security/tls"
	"google.golang.org/protobuf/proto"

	"verifsim/harness/common"
	"verifsim/simrt"
)

// Byzantine peer: instead of editing the wire Mallory terminates the connection herself. She owns the
// private key of identity M (and of O, a second identity of hers) but not that of the victim V, of
// whom she knows the public key and credentials V produced in OTHER sessions. Noise: flynn/noise
// with the cipher suite of p2p/security/noise/handshake.go (XX, 25519, ChaChaPoly, SHA256) and a
// hand-made NoiseHandshakePayload. TLS: crypto/tls with a hand-made certificate.

const (
	bvKeySubst     = iota // identity key of V, signature by M (over the right data)
	bvSigOther            // identity key of M, signature by O
	bvOtherSession        // identity key of V, genuine signature of V made for another session (other static key / certificate key) that the honest side never saw
	bvEmptySig            // identity key of V, empty signature
	bvGarbageSig          // identity key of V, well-sized garbage as signature
	bvHonest              // control: identity key of M, signature by M
	// warm replay: FIRST the genuine V completes a real handshake with the very same honest process (which
	// thereby verifies V's genuine credential), THEN Mallory presents a byte-for-byte copy of that credential
	// (TLS: V's signed-key extension inside a certificate with Mallory's own certificate key; Noise: V's
	// handshake payload under Mallory's own static key). Anything the honest process remembers about
	// credentials it has verified must not let the copy pass.
	bvWarmReplay
	nNoiseVariants
)

// TLS only
const (
	bvExtAbsent    = nNoiseVariants + iota // certificate without the libp2p extension
	bvExtDup                               // two libp2p extensions: genuine one for M first, forged one for V second
	bvExtDupRev                            // forged one for V first, genuine one for M second
	bvChain2                               // genuine leaf for M followed by a second certificate
	bvChain0                               // (client) no certificate at all
	bvCertSigOther                         // genuine extension for M, certificate signed with another key than its own
	nTLSVariants
)

var bvNames = []string{"identity-key-substituted", "signature-by-other-key", "credential-of-another-session", "empty-signature", "garbage-signature",
	"honest-control", "verified-credential-replayed", "extension-absent", "extension-duplicated", "extension-duplicated-forged-first", "chain-length-2", "chain-length-0", "certificate-signed-by-other-key"}

type byzPlan struct {
	tls     bool
	byzInit bool  // Mallory dials (initiator / TLS client)
	typ     int   // key type of M, O and V
	honest  party // the honest end
	variant int
}

func (p byzPlan) String() string {
	return fmt.Sprintf("byzantine %s %s with %s keys presents %s to honest {%s}", protoName(p.tls), roleName(p.byzInit), keyTypeNames[p.typ], bvNames[p.variant], p.honest)
}

// validFor: does the presented credential prove possession of M's key for THIS handshake? Only then may
// the honest side complete — and must then report M.
func (p byzPlan) validFor() bool {
	switch p.variant {
	case bvHonest, bvExtDup, bvExtDupRev:
		return true
	}
	return false
}

func drawByz(g simrt.Gen, isTLS bool) byzPlan {
	var p byzPlan
	p.tls = isTLS
	p.byzInit = g.Bool()
	p.typ = g.Int(nKeyTypes)
	slot := slotI
	if p.byzInit {
		slot = slotR
	}
	p.honest = party{id: ident{g.Int(nKeyTypes), slot}, tls: isTLS}
	// whom the honest side expects: the victim (the impersonation Mallory attempts), Mallory, nobody
	p.honest.expect = []int{exOther, exMatch, exEmpty}[g.Weighted(4, 2, 2)]
	if !isTLS && g.Bool() {
		p.honest.session = true
		if g.Bool() {
			p.honest.prologue = []byte("certhash-aa")
		}
		p.honest.noCheck = g.Chance(1, 3)
	}
	if isTLS {
		p.variant = g.Weighted(2, 2, 2, 2, 2, 2, 5, 2, 2, 2, 2, 2, 2)
		if p.variant == bvChain0 && !p.byzInit {
			p.variant = bvChain2 // a TLS server cannot omit its certificate
		}
	} else {
		p.variant = g.Weighted(2, 2, 2, 2, 2, 2, 4)
	}
	return p
}

type byzResult struct {
	h         *side
	completed bool // Mallory's own handshake code ran to the end
	sig       string

	// warm replay
	warm       *session        // TLS: the undisturbed session of the genuine V with the honest process
	warmH      *side           // Noise: the honest process' side of the warm-up handshake
	warmDone   bool            // Noise: V's own handshake code ran to the end
	recExt     *pkix.Extension // V's signed-key extension exactly as the honest process received it
	recPayload []byte          // V's NoiseHandshakePayload exactly as V sent it
}

func garbageSig(typ int) []byte {
	n := map[int]int{ktEd25519: 64, ktECDSA: 71, ktSecp256k1: 71, ktRSA: 256}[typ]
	b := make([]byte, n)
	for i := range b {
		b[i] = byte(0x30 + i%7)
	}
	return b
}

// ---- Noise ----------------------------------------------------------------------------------------

const noiseSigPrefix = "noise-libp2p-static-key:" // noise-libp2p specification, "static key authentication"

var byzSuite = fnoise.NewCipherSuite(fnoise.DH25519, fnoise.CipherChaChaPoly, fnoise.HashSHA256)

func mustSign(k crypto.PrivKey, msg []byte) []byte {
	s, err := k.Sign(msg)
	if err != nil {
		panic(err)
	}
	return s
}

func mustPub(k crypto.PrivKey) []byte {
	b, err := crypto.MarshalPublicKey(k.GetPublic())
	if err != nil {
		panic(err)
	}
	return b
}

// genuineNoisePayload is what an honest process holding k sends for its static key.
func genuineNoisePayload(k crypto.PrivKey, static []byte) []byte {
	b, err := proto.Marshal(&pb.NoiseHandshakePayload{IdentityKey: mustPub(k), IdentitySig: mustSign(k, append([]byte(noiseSigPrefix), static...))})
	if err != nil {
		panic(err)
	}
	return b
}

func byzNoisePayload(p byzPlan, static []byte, r *byzResult) []byte {
	if p.variant == bvWarmReplay && r.recPayload != nil {
		return r.recPayload
	}
	m, o, v := keyOf(ident{p.typ, slotM}), keyOf(ident{p.typ, slotI2}), keyOf(ident{p.typ, slotV})
	msg := append([]byte(noiseSigPrefix), static...)
	var pl pb.NoiseHandshakePayload
	switch p.variant {
	case bvKeySubst:
		pl.IdentityKey, pl.IdentitySig = mustPub(v), mustSign(m, msg)
	case bvSigOther:
		pl.IdentityKey, pl.IdentitySig = mustPub(m), mustSign(o, msg)
	case bvOtherSession, bvWarmReplay:
		other, err := fnoise.DH25519.GenerateKeypair(rand.Reader)
		if err != nil {
			panic(err)
		}
		pl.IdentityKey, pl.IdentitySig = mustPub(v), mustSign(v, append([]byte(noiseSigPrefix), other.Public...))
	case bvEmptySig:
		pl.IdentityKey = mustPub(v)
	case bvGarbageSig:
		pl.IdentityKey, pl.IdentitySig = mustPub(v), garbageSig(p.typ)
	case bvHonest:
		pl.IdentityKey, pl.IdentitySig = mustPub(m), mustSign(m, msg)
	}
	b, err := proto.Marshal(&pl)
	if err != nil {
		panic(err)
	}
	return b
}

func writeNoiseFrame(c net.Conn, body []byte) error {
	b := make([]byte, 2+len(body))
	binary.BigEndian.PutUint16(b, uint16(len(body)))
	copy(b[2:], body)
	_, err := c.Write(b)
	return err
}

func readNoiseFrame(c net.Conn) ([]byte, error) {
	var l [2]byte
	if _, err := io.ReadFull(c, l[:]); err != nil {
		return nil, err
	}
	b := make([]byte, binary.BigEndian.Uint16(l[:]))
	_, err := io.ReadFull(c, b)
	return b, err
}

// byzNoise runs Mallory's end of an XX handshake and, if the honest side keeps talking, one
// transport message in each direction.
func byzNoise(c net.Conn, p byzPlan, r *byzResult) {
	r.completed = noisePeer(c, p.byzInit, p.honest.prologue, "M", func(static []byte) []byte { return byzNoisePayload(p, static, r) })
}

// noisePeer is a hand-written Noise XX endpoint (flynn/noise, cipher suite of p2p/security/noise) that
// sends payload(own static key) and ignores what the other side presents. It reports whether its own
// handshake code ran to the end.
func noisePeer(c net.Conn, initiator bool, prologue []byte, role string, payloadFor func(static []byte) []byte) (completed bool) {
	defer c.Close()
	c.SetDeadline(time.Now().Add(40 * time.Second))
	kp, err := fnoise.DH25519.GenerateKeypair(rand.Reader)
	if err != nil {
		panic(err)
	}
	hs, err := fnoise.NewHandshakeState(fnoise.Config{CipherSuite: byzSuite, Pattern: fnoise.HandshakeXX, Initiator: initiator, StaticKeypair: kp, Prologue: prologue})
	if err != nil {
		panic(err)
	}
	payload := payloadFor(kp.Public)
	var enc, dec *fnoise.CipherState
	if initiator {
		m1, _, _, err := hs.WriteMessage(nil, nil)
		if err != nil || writeNoiseFrame(c, m1) != nil {
			return
		}
		m2, err := readNoiseFrame(c)
		if err != nil {
			return
		}
		if _, _, _, err = hs.ReadMessage(nil, m2); err != nil {
			return
		}
		m3, cs1, cs2, err := hs.WriteMessage(nil, payload)
		if err != nil || writeNoiseFrame(c, m3) != nil {
			return
		}
		enc, dec = cs1, cs2
	} else {
		m1, err := readNoiseFrame(c)
		if err != nil {
			return
		}
		if _, _, _, err = hs.ReadMessage(nil, m1); err != nil {
			return
		}
		m2, _, _, err := hs.WriteMessage(nil, payload)
		if err != nil || writeNoiseFrame(c, m2) != nil {
			return
		}
		m3, err := readNoiseFrame(c)
		if err != nil {
			return
		}
		_, cs1, cs2, err := hs.ReadMessage(nil, m3)
		if err != nil {
			return
		}
		enc, dec = cs2, cs1
	}
	ct, err := enc.Encrypt(nil, nil, []byte(tagOf(role)))
	if err != nil || writeNoiseFrame(c, ct) != nil {
		return true
	}
	if f, err := readNoiseFrame(c); err == nil {
		dec.Decrypt(nil, nil, f)
	}
	return true
}

// ---- TLS ------------------------------------------------------------------------------------------

const tlsSigPrefix = "libp2p-tls-handshake:" // libp2p TLS specification, "libp2p Public Key Extension"

// libp2p TLS specification: the libp2p Public Key Extension has OID 1.3.6.1.4.1.53594.1.1
var libp2pExtensionOID = asn1.ObjectIdentifier{1, 3, 6, 1, 4, 1, 53594, 1, 1}

type signedKey struct {
	PubKey    []byte
	Signature []byte
}

func certTemplate(sn int64) *x509.Certificate {
	return &x509.Certificate{
		SerialNumber: big.NewInt(sn),
		NotBefore:    time.Now().Add(-time.Hour),
		NotAfter:     time.Now().Add(24 * 365 * time.Hour),
		Subject:      pkix.Name{SerialNumber: fmt.Sprint(sn)},
	}
}

func byzCertificate(p byzPlan, r *byzResult) (*tls.Certificate, error) {
	m, o, v := keyOf(ident{p.typ, slotM}), keyOf(ident{p.typ, slotI2}), keyOf(ident{p.typ, slotV})
	certKey, err := ecdsa.GenerateKey(elliptic.P256(), rand.Reader)
	if err != nil {
		return nil, err
	}
	otherKey, err := ecdsa.GenerateKey(elliptic.P256(), rand.Reader)
	if err != nil {
		return nil, err
	}
	genuine, err := libp2ptls.GenerateSignedExtension(m, certKey.Public())
	if err != nil {
		return nil, err
	}
	certPub, err := x509.MarshalPKIXPublicKey(certKey.Public())
	if err != nil {
		return nil, err
	}
	msg := append([]byte(tlsSigPrefix), certPub...)
	forge := func(pub, sig []byte) pkix.Extension {
		val, err := asn1.Marshal(signedKey{PubKey: pub, Signature: sig})
		if err != nil {
			panic(err)
		}
		return pkix.Extension{Id: genuine.Id, Value: val}
	}
	tmpl := certTemplate(4242)
	signer := certKey
	switch p.variant {
	case bvKeySubst:
		tmpl.ExtraExtensions = []pkix.Extension{forge(mustPub(v), mustSign(m, msg))}
	case bvSigOther:
		tmpl.ExtraExtensions = []pkix.Extension{forge(mustPub(m), mustSign(o, msg))}
	case bvOtherSession:
		// what V's own certificate carries: a genuine extension, but over V's certificate key
		ext, err := libp2ptls.GenerateSignedExtension(v, otherKey.Public())
		if err != nil {
			return nil, err
		}
		tmpl.ExtraExtensions = []pkix.Extension{ext}
	case bvWarmReplay:
		if r.recExt != nil {
			// byte-for-byte what the honest process has just verified in V's genuine certificate — inside a
			// certificate with Mallory's own certificate key
			tmpl.ExtraExtensions = []pkix.Extension{{Id: r.recExt.Id, Critical: r.recExt.Critical, Value: append([]byte(nil), r.recExt.Value...)}}
		} else {
			// the warm-up did not complete: a genuine extension of V for a certificate key of V's
			ext, err := libp2ptls.GenerateSignedExtension(v, otherKey.Public())
			if err != nil {
				return nil, err
			}
			tmpl.ExtraExtensions = []pkix.Extension{ext}
		}
	case bvEmptySig:
		tmpl.ExtraExtensions = []pkix.Extension{forge(mustPub(v), nil)}
	case bvGarbageSig:
		tmpl.ExtraExtensions = []pkix.Extension{forge(mustPub(v), garbageSig(p.typ))}
	case bvHonest, bvChain2:
		tmpl.ExtraExtensions = []pkix.Extension{genuine}
	case bvExtAbsent, bvChain0:
	case bvExtDup:
		tmpl.ExtraExtensions = []pkix.Extension{genuine, forge(mustPub(v), mustSign(m, msg))}
	case bvExtDupRev:
		tmpl.ExtraExtensions = []pkix.Extension{forge(mustPub(v), mustSign(m, msg)), genuine}
	case bvCertSigOther:
		tmpl.ExtraExtensions = []pkix.Extension{genuine}
		signer = otherKey
	}
	der, err := x509.CreateCertificate(rand.Reader, tmpl, tmpl, certKey.Public(), signer)
	if err != nil {
		return nil, err
	}
	c := &tls.Certificate{Certificate: [][]byte{der}, PrivateKey: certKey}
	if p.variant == bvChain2 {
		t2 := certTemplate(4343)
		der2, err := x509.CreateCertificate(rand.Reader, t2, t2, otherKey.Public(), otherKey)
		if err != nil {
			return nil, err
		}
		c.Certificate = append(c.Certificate, der2)
	}
	return c, nil
}

func byzTLS(c net.Conn, p byzPlan, r *byzResult) {
	defer c.Close()
	c.SetDeadline(time.Now().Add(40 * time.Second))
	cert, err := byzCertificate(p, r)
	if err != nil {
		panic(err)
	}
	cfg := &tls.Config{
		MinVersion:             tls.VersionTLS13,
		InsecureSkipVerify:     true,
		ClientAuth:             tls.RequireAnyClientCert,
		NextProtos:             []string{"libp2p"},
		SessionTicketsDisabled: true,
	}
	if p.variant == bvChain0 {
		cfg.GetClientCertificate = func(*tls.CertificateRequestInfo) (*tls.Certificate, error) { return &tls.Certificate{}, nil }
	} else {
		cfg.Certificates = []tls.Certificate{*cert}
	}
	var tc *tls.Conn
	if p.byzInit {
		tc = tls.Client(c, cfg)
	} else {
		tc = tls.Server(c, cfg)
	}
	ctx, cancel := context.WithTimeout(context.Background(), 35*time.Second)
	defer cancel()
	if err := tc.HandshakeContext(ctx); err != nil {
		return
	}
	r.completed = true
	tc.Write([]byte(tagOf("M")))
	buf := make([]byte, tagLen)
	io.ReadFull(tc, buf)
	tc.Close()
}

// ---- run + oracles --------------------------------------------------------------------------------

// warmUp lets the genuine V (identity slot V of Mallory's key type) complete an undisturbed handshake
// with the honest process — same transport object as in the attack that follows — and records V's
// credential exactly as the honest process received it.
func (r *byzResult) warmUp(e *pipeEnv, p byzPlan) error {
	vIdent := ident{p.typ, slotV}
	if p.tls {
		// both ends are the real libp2p TLS transport; V's certificate is read from the honest side's
		// connection state (what it received and verified)
		vp := party{id: vIdent, tls: true, expect: exMatch}
		ip, rp := vp, p.honest
		if !p.byzInit {
			ip, rp = p.honest, vp
		}
		s, err := e.start("warm", ip, rp, edit{}, ident{}, ident{})
		if err != nil {
			return err
		}
		r.warm = s
		e.launch(s)
		e.wg.Wait()
		h := s.R
		if !p.byzInit {
			h = s.I
		}
		if h.peerCert != nil {
			for i := range h.peerCert.Extensions {
				if h.peerCert.Extensions[i].Id.Equal(libp2pExtensionOID) {
					r.recExt = &h.peerCert.Extensions[i]
				}
			}
		}
		return nil
	}
	// Noise: the payload travels encrypted, so the genuine V is played by the hand-written endpoint (with V's
	// key it IS a genuine V); the honest process runs the real transport
	d, l := e.n.Pipe("10.0.8.1", "10.0.8.2", 4001)
	mine, theirs := l, d
	if p.byzInit {
		mine, theirs = d, l
	}
	h := &side{role: "Hwarm", init: !p.byzInit, p: p.honest, truth: vIdent, conn: theirs, timeout: 24 * time.Second}
	h.partner = &side{role: "V"}
	h.expectID = resolveExpect(p.honest, vIdent, ident{})
	var err error
	if h.st, h.edh, err = e.transportFor(p.honest); err != nil {
		return err
	}
	r.warmH = h
	e.wg.Add(2)
	simrt.GoNamed("Hwarm", func() {
		defer e.wg.Done()
		h.run()
	})
	simrt.GoNamed("V", func() {
		defer e.wg.Done()
		r.warmDone = noisePeer(mine, p.byzInit, p.honest.prologue, "V", func(static []byte) []byte {
			r.recPayload = genuineNoisePayload(keyOf(vIdent), static)
			return r.recPayload
		})
	})
	e.wg.Wait()
	return nil
}

func runByz(e *pipeEnv, p byzPlan) *byzResult {
	e.o.Logf("%s", p)
	r := &byzResult{}
	if p.variant == bvWarmReplay {
		if err := r.warmUp(e, p); err != nil {
			e.o.Trouble = "warm-up: " + err.Error()
			return nil
		}
	}
	d, l := e.n.Pipe("10.0.9.1", "10.0.9.2", 4001)
	mine, theirs := l, d // Mallory responds
	if p.byzInit {
		mine, theirs = d, l
	}
	mIdent := ident{p.typ, slotM}
	h := &side{role: "H", init: !p.byzInit, p: p.honest, truth: mIdent, conn: theirs, timeout: 20 * time.Second}
	h.partner = &side{role: "M"}
	h.expectID = resolveExpect(p.honest, mIdent, ident{})
	var err error
	if h.st, h.edh, err = e.transportFor(p.honest); err != nil {
		e.o.Trouble = err.Error()
		return nil
	}
	r.h = h
	e.wg.Add(2)
	simrt.GoNamed("H", func() {
		defer e.wg.Done()
		h.run()
	})
	simrt.GoNamed("M", func() {
		defer e.wg.Done()
		if p.tls {
			byzTLS(mine, p, r)
		} else {
			byzNoise(mine, p, r)
		}
	})
	e.wg.Wait()
	return r
}

func (r *byzResult) judge(o *common.Outcome, p byzPlan) {
	h := r.h
	pr, rl := protoName(p.tls), roleName(h.init)
	o.Nontrivial = true
	o.Fault("byzantine-" + pr + "-" + bvNames[p.variant])
	what := p.String()
	if p.variant == bvWarmReplay {
		warmed := false
		ww := what + ", warm-up with the genuine V"
		if r.warm != nil {
			r.warm.log(o)
			judge(o, r.warm, ww)
			judgeControl(o, r.warm, ww)
			warmed = r.warm.I.hsOK && r.warm.R.hsOK && r.recExt != nil
			r.sig += fmt.Sprintf("warm|%s>%s|", r.warm.I.outcome(), r.warm.R.outcome())
		}
		if wh := r.warmH; wh != nil {
			o.Logf("warm-up: honest side with the genuine V: %s; V ran its handshake to the end: %v", wh.outcome(), r.warmDone)
			judgeAuth(o, wh, ww)
			judgeData(o, wh, ww)
			if wh.accepts(wh.truth) && (!wh.hsOK || !wh.dataOK) {
				o.Violate("C01/honest-handshake-refused/"+pr+"/"+rl, "%s: the genuine V was refused (%s)", ww, wh.outcome())
			}
			warmed = wh.hsOK
			r.sig += fmt.Sprintf("warm|%s|%v|", wh.outcome(), r.warmDone)
		}
		if warmed {
			o.Probe("credential-verified-before-replay-" + pr)
		}
	}
	o.Logf("honest side facing mallory: %s; mallory ran her handshake to the end: %v", h.outcome(), r.completed)
	if h.hsOK && p.variant == bvCertSigOther {
		// Not a violation of the statement (weaker reading): the X.509 self-signature is redundant for
		// authentication — the libp2p extension binds M's identity key to the certificate key and TLS'
		// CertificateVerify proves possession of the certificate key; the honest side reports M, which is
		// right. (The libp2p TLS specification asks endpoints to abort when "the certificate's self-signature
		// is not valid"; PubKeyFromCertChain's cert.Verify with the certificate as its own root does not check
		// it. Counted, reported to the lead, not failed.)
		o.Probe("tls-invalid-self-signature-accepted")
		judgeAuth(o, h, what)
	} else if h.hsOK && !p.validFor() {
		class := "C01/forged-credential-accepted/" + pr + "/" + rl + "/" + bvNames[p.variant]
		switch p.variant {
		case bvChain2, bvChain0:
			// libp2p TLS specification: "Endpoints MUST abort the connection attempt if more than one certificate is
			// received"; PubKeyFromCertChain documents the same ("expected one certificates in the chain")
			class = "C01/tls-chain-length-accepted/" + rl + "/" + bvNames[p.variant]
		}
		why := "Mallory holds no key that the presented credential is valid for"
		if p.variant == bvChain2 || p.variant == bvChain0 {
			why = "the certificate chain does not consist of exactly one certificate"
		}
		o.Violate(class, "%s: the honest side completed the handshake and reports remote peer %s; %s", what, nameOf(h.rPeer), why)
	}
	if h.hsOK && p.validFor() {
		judgeAuth(o, h, what)
	}
	judgeData(o, h, what)
	r.sig += fmt.Sprintf("byz|%s|%s|%v", p, h.outcome(), r.completed)
	if p.variant == bvHonest {
		if h.accepts(h.truth) {
			if !h.hsOK || !h.dataOK {
				o.Violate("C01/honest-handshake-refused/"+pr+"/"+rl, "%s: a correct credential of the expected peer was refused (%s)", what, h.outcome())
			}
			o.Probe("byzantine-control-accepted")
		}
	} else if !h.hsOK {
		o.Probe("forged-credential-refused-" + pr)
	}
	if h.errKind == "mismatch" {
		o.Probe("peer-id-mismatch-" + pr + "-" + rl)
	}
}
