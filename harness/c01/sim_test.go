//go:debug randseednop=0

// C01 — security handshakes authenticate the remote peer's identity.
//
// Message-level simulation of the REAL Noise and TLS security transports (and, in two smaller strata,
// of the real upgrader and the real swarm dial path) with an adversary who owns the wire or sits at
// the other end. Everything of go-libp2p that runs here is instrumented (lock-level scheduling).
//
// Strata (first draw of the tape, 13 pipe : 3 quic : 3 upgrader : 1 swarm)
//
//	pipe      SecureOutbound / SecureInbound on the two ends of a raw simnet connection (piperun_test.go):
//	          config     no adversary; key type per side x expectation per side x Noise session options
//	                     (prologue pairing, DisablePeerIDCheck, early data); optionally a second concurrent
//	                     session in which one party is the same process (same transport object)
//	          wire       Mallory (mitm_test.go: frame-aware on top of simnet's chunk hook) edits ONE handshake
//	                     frame: flip a byte, truncate / extend with or without corrected length field, drop,
//	                     duplicate, deliver the head and tear the connection down
//	          splice     two concurrent sessions: the same frame of both exchanged, or all frames crossed
//	                     (sessions re-paired: whoever completes must report whom it REALLY talked to)
//	          replay     a clean session is recorded, then one frame / a whole direction of a second session
//	                     between the same processes is replaced by the recording
//	          reuse      ONE Noise SessionTransport (WithSessionOptions called once; with / without Prologue,
//	                     EarlyData handlers, DisablePeerIDCheck) serves a drawn sequence of 2-4 handshakes:
//	                     inbound naming nobody, inbound naming a peer, outbound — each answered by the named
//	                     peer or by an impostor with its own valid key. A decision of one handshake must not
//	                     stick to the transport
//	          byzantine  Mallory terminates the connection herself (byz_test.go: flynn/noise resp. crypto/tls
//	                     driven directly) and presents a forged NoiseHandshakePayload / certificate
//	upgrader  tptu.New + Upgrade on both ends, security lists [noise tls] | [tls noise] | [noise] | [tls] per
//	          side; Mallory edits a multistream-select frame of the security negotiation (upgrader_test.go)
//	swarm     node A dials peer P at an address that honest node Q serves; A's security transport is the real
//	          one or one that does not check the peer it was asked for (swarm_test.go)
//	quic      real nodes with the real QUIC transport (p2p/transport/quic, quicreuse, quic-go, all instrumented)
//	          over simnet's UDP model (quic_test.go): A dials P where a node with another key listens; A
//	          hole-punches towards (address X, peer P) while the node with another key that owns X dials in
//	          (and with the right peer); control — through Swarm.DialPeer and directly at the transport, under
//	          drawn loss / duplication / reordering / a partition that heals
//
// Oracles (violation classes) and where they come from
//
//	wrong-identity, remote-peer-not-derived-from-key, remote-key-missing
//	      statement clause 1: who completes reports RemotePeer() == IDFromPublicKey(RemotePublicKey()) == the
//	      identity of the process whose handshake messages it consumed (ground truth of the harness)
//	expected-peer-ignored
//	      clause 2: a side that named a peer (and did not disable the check) and talked to somebody else fails
//	altered-handshake-accepted/<proto>/<role>/<edit>
//	      clause 3, per RECEIVING side: it consumed a frame that Mallory altered, cut, replaced by another
//	      session's or an earlier session's frame, or never got it => it does not complete
//	forged-credential-accepted/<proto>/<role>/<variant>, tls-chain-length-accepted
//	      clause 3 for a Byzantine peer: identity key / signature substituted, credential made for another
//	      session (other static key / other certificate key) — also a byte-identical copy of the credential
//	      that the honest process has just verified in a real handshake with its owner (warm replay: state
//	      remembered about verified credentials must not let the copy pass), signature empty or garbage, extension absent;
//	      chain length 0 / 2 (libp2p TLS specification: exactly one certificate)
//	prologue-ignored            doc of noise.Prologue: completes only if both parties set the same prologue
//	early-data-altered/-forged  a side that completes holds exactly the early data its partner sent
//	forged-data-accepted        the first Read after the handshake never returns bytes the partner did not write
//	dial-returned-wrong-peer, swarm-lists-conn-to-unauthenticated-peer, swarm-connected-to-unauthenticated-peer,
//	swarm-conn-wrong-identity   clause 4: DialPeer(P) never hands out / leaves behind a connection for P that
//	                            was authenticated as somebody else
//	dial-returned-wrong-peer/quic, quic-holepunch-returned-wrong-peer, wrong-identity/quic/{inbound,outbound}
//	                            clauses 1 and 4 for QUIC: what Dial hands out is the peer that was asked for, and
//	                            every connection of every swarm names the process that owns the remote UDP address
//	                            (nodes dial from their listen port), i.e. the key that completed the TLS handshake
//	quic-holepunch-swallowed-inbound-connection
//	                            (asked for by the coordinator; fault-free runs only) an honest node with its own
//	                            identity that dials in while a punch for another peer is pending ends up in the swarm
//	quic-holepunch-refused-right-peer, honest-handshake-refused/quic/*
//	                            vacuity guards: fault-free, or a fresh dial 2 s after the faults stopped
//	honest-handshake-refused    not a clause of the statement but the guard against vacuity: without adversary
//	                            and with compatible settings both sides complete and exchange data
//
// Weaker readings taken (soundness)
//
//   - Per receiving side: the Noise XX initiator legitimately completes when only message 3 (which it SENT)
//     is altered; a TLS 1.3 client legitimately returns from SecureOutbound when the server refuses it. For a
//     TLS client "completes" therefore means handshake returned AND the first Read delivered the peer's bytes.
//   - A duplicate / junk that arrives after the last handshake frame a side reads in that direction is
//     transport data (its Read must fail: forged-data-accepted), not handshake data it should have refused.
//   - A truncation that leaves the length field alone is completed by the receiver with the bytes that
//     follow in the stream; when those equal the bytes that were cut (1 in 256 for one byte of ciphertext)
//     the receiver consumed exactly what its partner sent and may complete (mitm.restored).
//   - TLS 1.3 leaves the legacy version bytes of the first record of each direction and dummy
//     ChangeCipherSpec records unauthenticated: never edited, never counted as handshake frames.
//   - multistream-select frames are unauthenticated by design: for them only clauses 1 and 2 are asserted.
//   - A certificate whose X.509 self-signature is invalid (signed with another key) but whose libp2p
//     extension and CertificateVerify are genuine is ACCEPTED by the code (cert.Verify with the certificate
//     as its own root never checks the signature). The peer reported is the true one, so this is not a
//     violation of the statement; it deviates from the libp2p TLS specification ("abort ... if the
//     certificate's self-signature is not valid"). Counted by probe tls-invalid-self-signature-accepted.
//   - Removing only ONE of the swarm's two re-checks (dialAddr, dialPeer) is not observable: the other one
//     still refuses. The oracle is about what DialPeer hands out.
//
// Determinism: crypto/rand cannot be pinned, so key bytes, nonces, ciphertext and the DER-dependent lengths
// never reach signature, classes or scheduling: keys are named by (type, slot); fragmenting link modes are
// used only when every length on the wire is a function of the tape (Noise with Ed25519 / RSA identities);
// for frames of random length the position draw selects header or body first, body offsets are taken
// modulo the actual length (all body bytes of such frames are AEAD ciphertext: same outcome), length
// fields are changed by +-1..3 / +256 / halved instead of XORed, truncations remove 1..16 bytes, a flip
// inside a ClientHello's ML-KEM key share keeps the coefficients in range. A stalled handshake is ended
// by a watchdog one virtual second before its context deadline (Noise arms connection deadline and
// context timer for the same instant; which fires first is up to the Go runtime).
//
// Stratum quic is different: there crypto/rand IS pinned (simrand.Install, seed from the tape; RSA identity
// keys are built before it is installed) and math/rand's global source is seeded per run (the hole-punch loop
// draws its pauses from it), so lengths and connection ids replay; datagram fates come from the tape.
//
// Sensitivity (each mutation applied alone to a private copy of the generated overlay, 8 workers; all
// reported within 5 s of running):
//
//	noise: signature verdict ignored for RSA keys          -> forged-credential-accepted/noise/*/{credential-of-another-session,empty-signature,signature-by-other-key,...}
//	noise: peer-ID check only when s.initiator             -> expected-peer-ignored/noise/responder, expected-peer-ignored/upgrader/responder
//	noise: signature verified against the LOCAL static key -> honest-handshake-refused/noise/*, /upgrader/*
//	noise: Prologue not passed to the handshake state      -> prologue-ignored/*, honest-handshake-refused/noise/* (Byzantine control with prologue)
//	noise: remoteID kept from the caller when one was given-> remote-peer-not-derived-from-key/noise/*, swarm-conn-wrong-identity/noise, wrong-identity/swarm/noise
//	tls: `valid` of the extension signature ignored        -> forged-credential-accepted/tls/*/{identity-key-substituted,signature-by-other-key,credential-of-another-session,garbage-signature}
//	tls: MatchesPublicKey check removed from ConfigForPeer -> expected-peer-ignored/tls/{initiator,responder}
//	tls: len(chain) != 1 relaxed to < 1                    -> tls-chain-length-accepted/*/chain-length-2
//	tls: ConfigForPeer without Clone()                     -> honest-handshake-refused/tls/* (concurrent sessions of one transport)
//	tls: LRU of verified extensions keyed by extension bytes (seeded) -> forged-credential-accepted/tls/{initiator,responder}/verified-credential-replayed
//	noise: SessionTransport.SecureInbound("") sets i.disablePeerIDCheck for good (seeded) -> expected-peer-ignored/noise/{initiator,responder} (reuse kind)
//	quic: hole punches keyed by address only (seeded)      -> quic-holepunch-returned-wrong-peer/transport, quic-holepunch-swallowed-inbound-connection/{swarm,transport}
//	upgrader: SecureInbound called with "" instead of p    -> expected-peer-ignored/upgrader/responder
//	swarm: both re-checks of RemotePeer() removed          -> dial-returned-wrong-peer/{noise,tls} (lax transport)
//	swarm: only dialAddr's or only dialPeer's re-check removed -> NOT reported (masked by the other one, see above)
//	(sanity of the refusal oracle) noise responder returns nil when reading message 3 fails
//	                                                       -> altered-handshake-accepted/noise/responder/{flip,trunc-fix,extend-fix,replay-dir,...}, remote-key-missing, early-data-altered
package c01

import (
	"fmt"
	"os"
	"strings"
	"testing"

	"verifsim/harness/common"
	"verifsim/simrt"
)

func TestSim(t *testing.T) {
	warmKeys()
	common.Main(t, common.Harness{Property: "C01", Run: run})
}

func run(t *testing.T, tape *simrt.Tape) *common.Outcome {
	g := simrt.Gen{S: tape.G}
	o := &common.Outcome{}
	// 13 : 3 (quic) : 3 : 1 — the QUIC stratum took values 13..15 of the first draw, so that tapes of the older
	// strata (pipe 0..12, upgrader 16..18, swarm 19) keep their meaning
	v := g.Int(20)
	if os.Getenv("C01_ONLY_QUIC") != "" { // debugging aid
		v = 13
	}
	switch {
	case v < 13:
		runPipe(t, tape, g, o)
	case v < 16:
		runQUIC(t, tape, g, o)
	case v < 19:
		runUpgrader(t, tape, g, o)
	default:
		runSwarm(t, tape, g, o)
	}
	if os.Getenv("C01_SIGDUMP") != "" {
		fmt.Fprintf(os.Stderr, "SIG %s hash=%x steps=%d rsa/R=%s\n", o.Sig, o.Sched.Hash, o.Sched.Steps, pidOf(ident{ktRSA, slotR}))
	}
	if f := traceFilter; f != "" && len(o.Trace) > 0 && strings.Contains(strings.Join(o.Trace, "\n"), f) {
		fmt.Fprintln(os.Stderr, strings.Join(o.Trace, "\n")+"\n")
	}
	return o
}

// C01_TRACE=<substring> prints the decoded trace of every run that contains the substring (debugging aid).
var traceFilter = os.Getenv("C01_TRACE")
