// C01 — security handshakes authenticate the remote peer's identity.
package c01

import (
	"testing"

	"verifsim/harness/common"
	"verifsim/simrt"
)

func TestSim(t *testing.T) { common.Main(t, common.Harness{Property: "C01", Run: run}) }

func run(t *testing.T, tape *simrt.Tape) *common.Outcome {
	g := simrt.Gen{S: tape.G}
	o := &common.Outcome{}
	switch g.Weighted(16, 3, 1) {
	case 0:
		runPipe(t, tape, g, o)
	case 1:
		runUpgrader(t, tape, g, o)
	case 2:
		runSwarm(t, tape, g, o)
	}
	return o
}
