// C01 — security handshakes authenticate the remote peer's identity.
package c01

import (
	"fmt"
	"os"
	"strings"
	"testing"

	"verifsim/harness/common"
	"verifsim/simrt"
)

func TestSim(t *testing.T) { common.Main(t, common.Harness{Property: "C01", Run: run}) }

func run(t *testing.T, tape *simrt.Tape) *common.Outcome {
	g := simrt.Gen{S: tape.G}
	o := &common.Outcome{}
	switch g.Weighted(16, 3, 1) {
	case 0:
		runPipe(t, tape, g, o)
	case 1:
		runUpgrader(t, tape, g, o)
	case 2:
		runSwarm(t, tape, g, o)
	}
	if f := traceFilter; f != "" && len(o.Trace) > 0 && strings.Contains(strings.Join(o.Trace, "\n"), f) {
		fmt.Fprintln(os.Stderr, strings.Join(o.Trace, "\n")+"\n")
	}
	return o
}

// C01_TRACE=<substring> prints the decoded trace of every run that contains the substring (debugging aid).
var traceFilter = os.Getenv("C01_TRACE")
