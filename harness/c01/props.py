# orchestrator configuration of the C01 check (loaded by tools/props.py)
from stack import FULL_STACK, FULL_DEPS

ENABLED = False

SPEC = dict(
    pkg="./harness/c01",
    instrument=FULL_STACK,
    deps=FULL_DEPS,
    level="fault_enumeration",
    level_text="",
    level_note="",
    technique="",
    design_ref="DESIGN.md section 6 (C01)",
    quick_s=50, thorough_s=600,
    rule="",
    probes=[],
    real=[], stubs=[], assume=[],
)
