# orchestrator configuration of the C01 check (loaded by tools/props.py)
from stack import FULL_STACK, FULL_DEPS, QUIC_STACK, QUIC_DEPS

SPEC = dict(
    pkg="./harness/c01",
    # strata pipe / upgrader need noise + tls (+ upgrader, yamux, multistream); strata swarm / quic run whole nodes
    # (quic: p2p/transport/quic + quicreuse + quic-go as tasks of the scheduler over simnet's UDP model)
    instrument=FULL_STACK + QUIC_STACK,
    deps=FULL_DEPS + QUIC_DEPS,
    level="fault_enumeration",
    level_text=("one adversarial action per run against real Noise / TLS handshakes, placed by the tape: a frame-aware man in the "
                "middle edits handshake frame #i of one direction (every byte position of every Noise message 1-3 and of every TLS "
                "handshake record: flip; truncate / extend with and without corrected length field; drop; duplicate; exchange with the "
                "same frame of a second concurrent session; re-pair two sessions; replay frames of an earlier session), or a Byzantine "
                "peer (flynn/noise resp. crypto/tls driven directly) presents a forged credential (identity key / signature / "
                "certificate key substituted, credential of another session, byte-identical copy of a credential the victim has just verified in a real handshake with its owner, extension absent / duplicated, chain length 0 / 2), or the "
                "configuration itself mismatches (expected peer, prologue) - crossed with 4x4 identity key types, both roles, "
                "expected-peer settings, prologue pairings. Positions and key pairs are drawn per run (sampling with replacement): "
                "quick visits each (message, position, sender key type) a few times at most, thorough ~20-30 times in expectation; "
                "no run-index based enumeration is possible because a run is a pure function of its tape."),
    level_note=("trusted: testing/synctest, simnet's TCP model, flynn/noise and crypto/tls as the cryptographic cores (their AEAD / "
                "transcript checks are what refuses most wire edits; the go-libp2p code around them is what the oracles exercise); "
                "not simulated: WebTransport / WebRTC (they reuse the same Identity.ConfigForPeer resp. Noise SessionTransport), OS sockets; "
                "QUIC: the real transport runs (dial, listener, hole punching) but its wire is not edited by a man in the middle and no "
                "Byzantine QUIC endpoint exists - forged certificates are covered on TLS-over-TCP, which shares PubKeyFromCertChain; "
                "the crypto/tls handshake goroutine that quic-go starts is stdlib code and joins the scheduler only at the callbacks "
                "(counted in goroutines_outside_scheduler_that_yielded); under simrand TLS uses the X25519 key share (tlsmlkem=0), "
                "because ML-KEM key generation cannot be seeded. Excluded as 'not handshake data' per TLS 1.3: legacy version bytes of the first record of each direction, "
                "dummy ChangeCipherSpec records. Length fields of frames whose length depends on crypto randomness are changed by "
                "+-1..3 / +256 / halved instead of XORed, and a flip inside a ClientHello's ML-KEM key share keeps the coefficients "
                "in range (otherwise the shape of a run would depend on crypto/rand, which Go does not let a test pin)."),
    technique=("deterministic simulation with fault injection: frame-aware man in the middle / Byzantine peer against the real "
               "Noise and TLS transports, upgrader, swarm and QUIC transport (incl. hole punching, UDP loss / duplication / reordering / "
               "partition) on simnet; identity, expectation, refusal and prologue oracles"),
    design_ref="DESIGN.md section 6 (C01)",
    quick_s=50, thorough_s=900,
    rule=("one run = one tape: stratum (13 raw pipe : 3 quic : 3 upgrader : 1 swarm); pipe: kind (configuration matrix | wire edit | splice of "
          "two sessions | replay | Byzantine peer | one Noise SessionTransport reused for 2-4 handshakes in drawn roles: inbound "
          "anonymous / inbound named / outbound, each with the named peer or an impostor holding its own key) x Noise|TLS x identity key type per side x expectation per side x Noise session "
          "options (prologue pairing, DisablePeerIDCheck, early data) x link chunking (whole; fragment/tiny only when every length "
          "on the wire is a function of the tape) x edit (kind, direction, frame, position, mask, amount) resp. forged-credential "
          "variant; upgrader: security lists per side x expectation x edit of a multistream-select frame; swarm: A dials P at the "
          "address of honest Q with real or non-checking security transport; quic: scenario (A dials P where a node with another "
          "key listens | A hole-punches towards (X, P) while the node with another key that owns X dials in | the same with the right "
          "peer | control) x DialPeer vs transport.Dial x key type of A, of the owner of X and of P x UDP faults (none | loss 3-30 %, "
          "duplication, reordering | partition healing after 0.3-8 s) x when the other node dials in x address taken over from a closed "
          "node. non-trivial = an edit fired, a Byzantine credential was "
          "presented, a peer-ID or prologue mismatch was refused, or the swarm dialed a wrong-peer address; distinct = distinct "
          "(scheduler decision hash, configuration, plan incl. position, per-side outcomes)"),
    probes=["peer-id-mismatch-noise-initiator", "peer-id-mismatch-noise-responder", "peer-id-mismatch-tls-initiator",
            "peer-id-mismatch-tls-responder", "prologue-mismatch-refused", "altered-ends-in-timeout",
            "sender-completes-while-receiver-refuses", "rerouted-session-completes-with-true-identity", "early-data-delivered",
            "forged-credential-refused-noise", "forged-credential-refused-tls", "byzantine-control-accepted",
            "credential-verified-before-replay-tls", "credential-verified-before-replay-noise",
            "reused-session-transport-named-after-anonymous", "reused-session-transport-refuses-impostor-after-anonymous",
            "reused-session-transport-inbound-anonymous-completes", "reused-session-transport-inbound-named-completes",
            "reused-session-transport-outbound-completes",
            "edit-noise-I>R#0", "edit-noise-R>I#0", "edit-noise-I>R#1",
            "edit-tls-I>R#0", "edit-tls-I>R#1", "edit-tls-I>R#2", "edit-tls-I>R#3",
            "edit-tls-R>I#0", "edit-tls-R>I#1", "edit-tls-R>I#2", "edit-tls-R>I#3", "edit-tls-R>I#4", "edit-tls-R>I#5",
            "concurrent-sessions-of-one-transport-complete", "upgrader-clean", "upgrader-peer-id-mismatch-initiator", "upgrader-peer-id-mismatch-responder", "mss-edit-survived",
            "mss-steered-to-other-protocol", "swarm-dial-right-peer", "swarm-dial-wrong-peer-refused-by-handshake",
            "swarm-recheck-is-last-defence", "tls-invalid-self-signature-accepted",
            "quic-wrong-peer-swarm-refused", "quic-wrong-peer-transport-refused", "quic-punch-wrong-swarm-refused",
            "quic-punch-wrong-transport-refused", "quic-punch-right-swarm-connected", "quic-punch-right-transport-connected",
            "quic-control-swarm-connected", "quic-control-transport-connected", "quic-intruder-during-punch-accepted-as-itself",
            "quic-fresh-dial-after-faults"],
    real=["ALL go-libp2p code below runs as tasks of the seeded scheduler (instrumented: every lock, channel operation, select, go statement is a scheduling point)",
          "p2p/security/noise: Transport and SessionTransport (Prologue, DisablePeerIDCheck, EarlyData), handshake, session read/write",
          "p2p/security/tls: Transport, Identity.ConfigForPeer, PubKeyFromCertChain, GenerateSignedExtension",
          "core/crypto: Ed25519, ECDSA, Secp256k1, RSA-2048 identities; core/peer ID derivation",
          "p2p/net/upgrader: multistream-select security negotiation, Upgrade, muxer negotiation; go-multistream, go-yamux (instrumented copies)",
          "p2p/net/swarm dial path (DialPeer, dial worker, dialAddr), p2p/transport/tcp dial path, pstoremem, eventbus (stratum swarm)",
          "p2p/transport/quic (Dial, holePunch, listener Accept / wrapConn), p2p/transport/quicreuse, quic-go (instrumented copy) over simnet's UDP model (stratum quic)",
          "github.com/flynn/noise, crypto/tls, crypto/x509 (un-instrumented cryptographic cores)"],
    stubs=["wire: simnet TCP model with Mallory as chunk hook", "wire (quic): simnet UDP model, datagram fates drawn from the tape", "Byzantine peer: hand-written Noise XX / crypto/tls endpoint with forged credentials",
           "stratum swarm, lax variant: a security transport that ignores the peer it was asked for (DisablePeerIDCheck / TLS config for any peer)"],
    assume=["virtual clock of testing/synctest", "stratum quic: crypto/rand replaced by simrand's seeded stream, math/rand global seeded per run (go:debug randseednop=0)",
            "TCP strata: crypto/rand is not pinned: key bytes, nonces, ciphertext and DER lengths never reach the trace",
            "RSA identity keys are generated once per process; the other identity keys are fixed scalars"],
)
