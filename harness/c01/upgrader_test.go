package c01

import (
	"context"
	"fmt"
	"testing"
	"time"

	"github.com/libp2p/go-libp2p/core/crypto"
	"github.com/libp2p/go-libp2p/core/network"
	"github.com/libp2p/go-libp2p/core/peer"
	"github.com/libp2p/go-libp2p/core/sec"
	"github.com/libp2p/go-libp2p/core/transport"
	tptu "github.com/libp2p/go-libp2p/p2p/net/upgrader"
	"github.com/libp2p/go-libp2p/p2p/security/noise"
	libp2ptls "github.com/libp2p/go-libp2p/p2p/security/tls"
	manet "github.com/multiformats/go-multiaddr/net"

	"verifsim/harness/common"
	"verifsim/simnet"
	"verifsim/simrt"
	"verifsim/simsync"
)

// Stratum "upgrader": the real upgrader (multistream-select security negotiation, Noise | TLS, muxer
// negotiation, yamux) on the two ends of a raw simulated TCP connection. Mallory edits the
// multistream-select frames that precede the security handshake. Those are unauthenticated by design:
// an edit may make the negotiation fail or steer it to another mutually supported security protocol,
// so only authentication is asserted here (who completes reports the true peer and honours its
// expectation), never refusal.

var secSets = [][]string{{"noise", "tls"}, {"tls", "noise"}, {"noise"}, {"tls"}}

var mssKinds = []int{edNone, edSubst, edFlip, edDrop, edDup, edTruncFix, edTruncRaw, edExtendFix, edExtendRaw}

var mssLines = []string{"/bogus/1.0.0\n", "/tls/1.0.0\n", "/noise\n", "na\n", "/multistream/1.0.0\n"}

type upSide struct {
	role     string
	init     bool
	id       ident
	secs     []string
	expect   int
	expectID peer.ID
	truth    ident
	conn     *simnet.Conn
	timeout  time.Duration

	timedOut bool
	ok       bool
	errKind  string
	rPeer    peer.ID
	rKey     crypto.PubKey
	security string
}

func (u *upSide) String() string {
	return fmt.Sprintf("%s %v expect=%s", u.id, u.secs, exNames[u.expect])
}

func (u *upSide) upgrader() (transport.Upgrader, error) {
	var sts []sec.SecureTransport
	for _, s := range u.secs {
		var st sec.SecureTransport
		var err error
		if s == "noise" {
			st, err = noise.New(noise.ID, keyOf(u.id), muxers())
		} else {
			st, err = libp2ptls.New(libp2ptls.ID, keyOf(u.id), muxers())
		}
		if err != nil {
			return nil, err
		}
		sts = append(sts, st)
	}
	return tptu.New(sts, muxers(), nil, nil, nil)
}

func (u *upSide) run(up transport.Upgrader) {
	ctx, cancel := context.WithTimeout(context.Background(), u.timeout)
	defer cancel()
	wd := simrt.AfterFunc(u.timeout-time.Second, func() {
		u.timedOut = true
		u.conn.Close()
	})
	mc, err := manet.WrapNetConn(u.conn)
	if err != nil {
		wd.Stop()
		u.errKind = "wrap: " + err.Error()
		return
	}
	dir := network.DirInbound
	if u.init {
		dir = network.DirOutbound
	}
	c, err := up.Upgrade(ctx, nil, mc, dir, u.expectID, &network.NullScope{})
	wd.Stop()
	if err != nil {
		u.errKind = classify(err)
		if u.timedOut {
			u.errKind = "timeout"
		}
		u.conn.Close()
		return
	}
	u.ok = true
	u.rPeer, u.rKey = c.RemotePeer(), c.RemotePublicKey()
	u.security = string(c.ConnState().Security)
	// keep the connection for a moment so that the other side can finish its own upgrade
	simrt.TimeSleep(2 * time.Second)
	c.Close()
	u.conn.Close()
}

func (u *upSide) outcome() string {
	if u.ok {
		return "ok(" + u.security + ")"
	}
	return u.errKind
}

func common1(a, b []string) bool {
	for _, x := range a {
		for _, y := range b {
			if x == y {
				return true
			}
		}
	}
	return false
}

func runUpgrader(t *testing.T, tape *simrt.Tape, g simrt.Gen, o *common.Outcome) {
	I := &upSide{role: "UI", init: true, id: ident{g.Int(nKeyTypes), slotI}, timeout: 20 * time.Second}
	R := &upSide{role: "UR", id: ident{g.Int(nKeyTypes), slotR}, timeout: 30 * time.Second}
	I.secs, R.secs = secSets[g.Int(len(secSets))], secSets[g.Int(len(secSets))]
	I.expect = []int{exMatch, exOther}[g.Weighted(4, 1)]
	R.expect = []int{exEmpty, exMatch, exOther}[g.Weighted(4, 3, 1)] // inbound with a named peer: simultaneous-connect "server" role of the TCP transport
	I.truth, R.truth = R.id, I.id
	var ed edit
	ed.kind = mssKinds[g.Weighted(3, 4, 3, 1, 1, 1, 1, 1, 1)]
	if ed.kind != edNone {
		ed.dir = g.Int(2)
		ed.idx = g.Int(3)
		ed.pos = g.Int(1 << 12)
		ed.mask = byte(1 + g.Int(255))
		ed.k = g.Int(1 << 12)
		ed.subst = mssLines[g.Int(len(mssLines))]
	}
	I.expectID = resolveExpect(party{expect: I.expect}, R.id, ident{})
	R.expectID = resolveExpect(party{expect: R.expect}, I.id, ident{})
	o.Logf("stratum=upgrader I{%s} R{%s} %s", I, R, ed)
	var m *mitm

	res := simrt.Run(t, simrt.Config{MaxSteps: 400000, IdleLimit: time.Hour, TraceCap: 20000}, tape.S, func() {
		n := simnet.New(tape.S, simnet.Config{Mode: simnet.Whole})
		d, l := n.Pipe("10.1.0.1", "10.1.0.2", 4001)
		I.conn, R.conn = d, l
		defer d.Close()
		defer l.Close()
		m = newMitm("up", frMSS, ed, d, l)
		var ups [2]transport.Upgrader
		for i, u := range []*upSide{I, R} {
			up, err := u.upgrader()
			if err != nil {
				o.Trouble = "upgrader: " + err.Error()
				return
			}
			ups[i] = up
		}
		var wg simsync.WaitGroup
		for i, u := range []*upSide{I, R} {
			i, u := i, u
			wg.Add(1)
			simrt.GoNamed(u.role, func() {
				defer wg.Done()
				u.run(ups[i])
			})
		}
		wg.Wait()
		simrt.WaitIdle()
		simrt.TimeSleep(time.Second)
		simrt.WaitIdle()
	})
	o.Sched = res
	o.Virtual = res.Virtual
	o.Logf("I=%s R=%s", I.outcome(), R.outcome())
	if m != nil && m.fired {
		o.Logf("  mallory: %s", m.note)
		o.Fault("mss-" + edNames[ed.kind])
		o.Nontrivial = true
	}
	what := fmt.Sprintf("upgrader I{%s} R{%s}, %s", I, R, ed)
	for _, u := range []*upSide{I, R} {
		rl := roleName(u.init)
		if u.errKind == "mismatch" {
			o.Probe("upgrader-peer-id-mismatch-" + rl)
			o.Nontrivial = true
		}
		if !u.ok {
			continue
		}
		want := pidOf(u.truth)
		derived, err := derive(u.rKey)
		switch {
		case err != nil:
			o.Violate("C01/remote-key-missing/upgrader/"+rl, "%s: %s upgraded but RemotePublicKey() is unusable (%v)", what, u.role, err)
		case derived != u.rPeer:
			o.Violate("C01/remote-peer-not-derived-from-key/upgrader/"+rl, "%s: %s reports RemotePeer()=%s but RemotePublicKey() derives %s", what, u.role, nameOf(u.rPeer), nameOf(derived))
		case u.rPeer != want || !u.rKey.Equals(keyOf(u.truth).GetPublic()):
			o.Violate("C01/wrong-identity/upgrader/"+rl, "%s: %s upgraded and reports remote peer %s, the process at the other end is %s", what, u.role, nameOf(u.rPeer), u.truth)
		}
		if u.expectID != "" && u.expectID != want {
			o.Violate("C01/expected-peer-ignored/upgrader/"+rl, "%s: %s expected %s, talked to %s and the upgrade succeeded (%s)", what, u.role, nameOf(u.expectID), u.truth, u.security)
		}
	}
	if ed.kind == edNone && common1(I.secs, R.secs) && I.expect == exMatch && R.expect != exOther {
		for _, u := range []*upSide{I, R} {
			if !u.ok {
				o.Violate("C01/honest-handshake-refused/upgrader/"+roleName(u.init), "%s: no adversary, common security protocol, compatible expectations, yet %s ended with %s", what, u.role, u.outcome())
			}
		}
		o.Probe("upgrader-clean")
	}
	if m != nil && m.fired && I.ok && R.ok {
		o.Probe("mss-edit-survived")
		first := map[string]string{"noise": noise.ID, "tls": libp2ptls.ID}[I.secs[0]]
		if I.security != first && common1(I.secs[:1], R.secs) {
			o.Probe("mss-steered-to-other-protocol")
		}
	}
	o.Sig = fmt.Sprintf("up|%s|%s|%s|%s>%s|fired=%v", I, R, ed, I.outcome(), R.outcome(), m != nil && m.fired)
	finish(o, res, "upgrader")
}
