package c01

import (
	"context"
	"fmt"
	"net"
	"testing"
	"time"

	"github.com/libp2p/go-libp2p/core/network"
	"github.com/libp2p/go-libp2p/core/peer"
	"github.com/libp2p/go-libp2p/core/peerstore"
	"github.com/libp2p/go-libp2p/core/sec"
	"github.com/libp2p/go-libp2p/p2p/host/eventbus"
	"github.com/libp2p/go-libp2p/p2p/host/peerstore/pstoremem"
	"github.com/libp2p/go-libp2p/p2p/net/swarm"
	tptu "github.com/libp2p/go-libp2p/p2p/net/upgrader"
	"github.com/libp2p/go-libp2p/p2p/security/noise"
	libp2ptls "github.com/libp2p/go-libp2p/p2p/security/tls"
	"github.com/libp2p/go-libp2p/p2p/transport/tcp"
	ma "github.com/multiformats/go-multiaddr"

	"verifsim/harness/common"
	"verifsim/simhost"
	"verifsim/simnet"
	"verifsim/simrt"
)

// Stratum "swarm": real nodes (swarm, TCP dial path, upgrader, Noise | TLS, yamux) on simnet. The
// dialer A believes that peer P lives at an address which is in fact served by the honest node Q.
// DialPeer(P) must never hand out a connection whose remote peer is not P. With the real security
// transports the handshake already refuses; in the "lax" variant A's security transport does not
// check the peer it was asked for (Noise with DisablePeerIDCheck / TLS configured for any peer), which
// leaves the swarm's own re-check of RemotePeer() as the only line of defence.

// laxTransport ignores the peer the caller asked for on outbound handshakes.
type laxTransport struct {
	sec.SecureTransport
}

func (l laxTransport) SecureOutbound(ctx context.Context, c net.Conn, _ peer.ID) (sec.SecureConn, error) {
	return l.SecureTransport.SecureOutbound(ctx, c, "")
}

type dialerNode struct {
	id peer.ID
	sw *swarm.Swarm
	ps peerstore.Peerstore
}

func (d *dialerNode) Close() {
	d.sw.Close()
	d.ps.Close()
}

// newDialer builds a dial-only node like simhost.New does, with a caller-chosen security transport.
func newDialer(n *simnet.Net, id ident, ip string, st sec.SecureTransport) (*dialerNode, error) {
	key := keyOf(id)
	pid := pidOf(id)
	ps, err := pstoremem.NewPeerstore()
	if err != nil {
		return nil, err
	}
	ps.AddPubKey(pid, key.GetPublic())
	ps.AddPrivKey(pid, key)
	sw, err := swarm.NewSwarm(pid, ps, eventbus.NewBus())
	if err != nil {
		ps.Close()
		return nil, err
	}
	up, err := tptu.New([]sec.SecureTransport{st}, muxers(), nil, nil, nil)
	if err != nil {
		sw.Close()
		ps.Close()
		return nil, err
	}
	d := n.Dialer(ip)
	tt, err := tcp.NewTCPTransport(up, nil, nil, tcp.DisableReuseport(), tcp.WithDialerForAddr(func(ma.Multiaddr) (tcp.ContextDialer, error) { return d, nil }))
	if err != nil {
		sw.Close()
		ps.Close()
		return nil, err
	}
	if err := sw.AddTransport(tt); err != nil {
		sw.Close()
		ps.Close()
		return nil, err
	}
	return &dialerNode{id: pid, sw: sw, ps: ps}, nil
}

func runSwarm(t *testing.T, tape *simrt.Tape, g simrt.Gen, o *common.Outcome) {
	secu := []string{"noise", "tls"}[g.Int(2)]
	lax := g.Bool()
	aID := ident{g.Int(nKeyTypes), slotI}
	qID := ident{g.Int(nKeyTypes), slotR}
	pID := ident{g.Int(nKeyTypes), slotV}
	scenario := g.Weighted(3, 1, 1) // 0: P's only address is Q's; 1: control, dial Q itself; 2: P has a dead address and Q's
	mode := simnet.Whole
	if secu == "noise" && !varLen(aID.typ) && !varLen(qID.typ) && g.Bool() {
		mode = simnet.Fragment
	}
	o.Logf("stratum=swarm security=%s lax-transport=%v A=%s Q=%s P=%s scenario=%d link=%d", secu, lax, aID, qID, pID, scenario, mode)
	outcome := ""

	res := simrt.Run(t, simrt.Config{MaxSteps: 400000, IdleLimit: 24 * time.Hour, TraceCap: 20000}, tape.S, func() {
		n := simnet.New(tape.S, simnet.Config{Mode: mode})
		q, err := simhost.New(n, simhost.Opts{Key: keyOf(qID), IP: "10.2.0.2", Port: 4001, Security: secu})
		if err != nil {
			o.Trouble = "node Q: " + err.Error()
			return
		}
		defer q.Close()
		var st sec.SecureTransport
		if secu == "noise" {
			nt, err := noise.New(noise.ID, keyOf(aID), muxers())
			if err != nil {
				o.Trouble = err.Error()
				return
			}
			st = nt
			if lax {
				if st, err = nt.WithSessionOptions(noise.DisablePeerIDCheck()); err != nil {
					o.Trouble = err.Error()
					return
				}
			}
		} else {
			tt, err := libp2ptls.New(libp2ptls.ID, keyOf(aID), muxers())
			if err != nil {
				o.Trouble = err.Error()
				return
			}
			st = tt
			if lax {
				st = laxTransport{tt}
			}
		}
		a, err := newDialer(n, aID, "10.2.0.1", st)
		if err != nil {
			o.Trouble = "node A: " + err.Error()
			return
		}
		defer a.Close()

		target := pidOf(pID)
		switch scenario {
		case 0:
			a.ps.AddAddrs(target, []ma.Multiaddr{q.Addr}, peerstore.PermanentAddrTTL)
		case 1:
			target = q.ID
			a.ps.AddAddrs(target, []ma.Multiaddr{q.Addr}, peerstore.PermanentAddrTTL)
		case 2:
			n.SetRefused("10.2.0.9:4001", true)
			a.ps.AddAddrs(target, []ma.Multiaddr{ma.StringCast("/ip4/10.2.0.9/tcp/4001"), q.Addr}, peerstore.PermanentAddrTTL)
		}
		ctx, cancel := context.WithTimeout(context.Background(), 40*time.Second)
		defer cancel()
		c, err := a.sw.DialPeer(ctx, target)
		what := fmt.Sprintf("swarm %s lax=%v: A=%s dials %s at the address of honest Q=%s", secu, lax, aID, nameOf(target), qID)
		if err == nil {
			outcome = "connected"
			if c.RemotePeer() != target {
				o.Violate("C01/dial-returned-wrong-peer/"+secu, "%s: DialPeer returned a connection whose RemotePeer() is %s", what, nameOf(c.RemotePeer()))
			}
			if c.RemotePeer() != q.ID {
				// whoever is named, the process at that address is Q and only Q's key was used in the handshake
				o.Violate("C01/wrong-identity/swarm/"+secu, "%s: the connection reports remote peer %s, the process at the other end is Q", what, nameOf(c.RemotePeer()))
			}
		} else {
			outcome = "refused"
		}
		simrt.WaitIdle()
		simrt.TimeSleep(time.Second)
		simrt.WaitIdle()
		// what the application can reach through the swarm afterwards
		if target != q.ID {
			if cs := a.sw.ConnsToPeer(target); len(cs) > 0 {
				o.Violate("C01/swarm-lists-conn-to-unauthenticated-peer/"+secu, "%s: afterwards the swarm lists %d connection(s) to %s", what, len(cs), nameOf(target))
			}
			if a.sw.Connectedness(target) == network.Connected {
				o.Violate("C01/swarm-connected-to-unauthenticated-peer/"+secu, "%s: afterwards Connectedness(%s) is Connected", what, nameOf(target))
			}
		}
		for _, cn := range a.sw.Conns() {
			pk := cn.RemotePublicKey()
			if pk == nil {
				o.Violate("C01/remote-key-missing/swarm", "%s: a swarm connection has no remote public key", what)
				continue
			}
			if id, err := peer.IDFromPublicKey(pk); err != nil || id != cn.RemotePeer() || id != q.ID {
				o.Violate("C01/swarm-conn-wrong-identity/"+secu, "%s: a swarm connection reports remote peer %s with a key deriving %s; the only other process is Q", what, nameOf(cn.RemotePeer()), nameOf(id))
			}
		}
		if scenario == 1 && outcome != "connected" {
			o.Violate("C01/honest-handshake-refused/swarm/"+secu, "%s: dialing Q under its own ID failed: %v", what, err)
		}
		for _, cn := range a.sw.Conns() {
			cn.Close()
		}
		simrt.WaitIdle()
	})
	o.Sched = res
	o.Virtual = res.Virtual
	o.Logf("DialPeer: %s", outcome)
	o.Nontrivial = scenario != 1
	if scenario != 1 && outcome == "refused" {
		o.Fault("wrong-peer-at-address")
		if lax {
			o.Probe("swarm-recheck-is-last-defence")
		} else {
			o.Probe("swarm-dial-wrong-peer-refused-by-handshake")
		}
	}
	if scenario == 1 && outcome == "connected" {
		o.Probe("swarm-dial-right-peer")
	}
	o.Sig = fmt.Sprintf("swarm|%s|%v|%s|%s|%s|%d|%d|%s", secu, lax, aID, qID, pID, scenario, mode, outcome)
	finish(o, res, "swarm")
}
