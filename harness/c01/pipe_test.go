package c01

import (
	"context"
	"crypto/tls"
	"crypto/x509"
	"errors"
	"fmt"
	"io"
	"net"
	"os"
	"time"

	"github.com/libp2p/go-libp2p/core/crypto"
	"github.com/libp2p/go-libp2p/core/peer"
	"github.com/libp2p/go-libp2p/core/sec"
	"github.com/libp2p/go-libp2p/p2p/muxer/yamux"
	tptu "github.com/libp2p/go-libp2p/p2p/net/upgrader"
	"github.com/libp2p/go-libp2p/p2p/security/noise"
	"github.com/libp2p/go-libp2p/p2p/security/noise/pb"
	libp2ptls "github.com/libp2p/go-libp2p/p2p/security/tls"

	"verifsim/harness/common"
	"verifsim/simnet"
	"verifsim/simrt"
	"verifsim/simsync"
)

// ---- honest parties -----------------------------------------------------------------------

const (
	exMatch = iota // the peer the side is really talking to in an undisturbed session
	exOther        // a third identity (slot V, same key type as the partner)
	exEmpty        // no expectation
	exCross        // (re-routed sessions) the peer of the OTHER session, i.e. whom Mallory connects us to
)

var exNames = []string{"matching", "other", "empty", "crossed"}

const (
	prNone = iota
	prEqual
	prDifferent
	prOneSided
)

var prNames = []string{"none", "equal", "different", "one-sided"}

type party struct {
	id       ident
	tls      bool
	session  bool   // Noise: SessionTransport via WithSessionOptions
	prologue []byte // Noise session option
	noCheck  bool   // Noise session option DisablePeerIDCheck
	early    string // Noise session option EarlyData: what this side sends ("" = no handler)
	expect   int
}

func (p party) String() string {
	s := p.id.String()
	if p.tls {
		return s + " tls expect=" + exNames[p.expect]
	}
	s += " noise"
	if p.session {
		s += fmt.Sprintf("(session prologue=%q nocheck=%v early=%q)", p.prologue, p.noCheck, p.early)
	}
	return s + " expect=" + exNames[p.expect]
}

// edh is an EarlyDataHandler that sends a tag and records what it received.
type edh struct {
	tag string
	got []string
	n   int
}

func (h *edh) Send(context.Context, net.Conn, peer.ID) *pb.NoiseExtensions {
	return &pb.NoiseExtensions{WebtransportCerthashes: [][]byte{[]byte(h.tag)}}
}

func (h *edh) Received(_ context.Context, _ net.Conn, e *pb.NoiseExtensions) error {
	h.n++
	for _, b := range e.GetWebtransportCerthashes() {
		h.got = append(h.got, string(b))
	}
	return nil
}

func muxers() []tptu.StreamMuxer {
	return []tptu.StreamMuxer{{ID: yamux.ID, Muxer: yamux.DefaultTransport}}
}

func (p party) transport() (sec.SecureTransport, *edh, error) {
	k := keyOf(p.id)
	if p.tls {
		t, err := libp2ptls.New(libp2ptls.ID, k, muxers())
		return t, nil, err
	}
	t, err := noise.New(noise.ID, k, muxers())
	if err != nil || !p.session {
		return t, nil, err
	}
	var opts []noise.SessionOption
	if p.prologue != nil {
		opts = append(opts, noise.Prologue(p.prologue))
	}
	if p.noCheck {
		opts = append(opts, noise.DisablePeerIDCheck())
	}
	var h *edh
	if p.early != "" {
		h = &edh{tag: p.early}
		opts = append(opts, noise.EarlyData(h, h))
	}
	st, err := t.WithSessionOptions(opts...)
	return st, h, err
}

// ---- one side of one handshake --------------------------------------------------------------

const tagLen = 13

func tagOf(role string) string { return (role + "-says-hello!!!")[:tagLen] }

type side struct {
	role     string // "I" / "R" (+ session suffix)
	init     bool
	p        party
	truth    ident   // the honest process whose handshake messages this side consumes
	partner  *side   // the side at the other end (after re-routing: of the other session)
	expectID peer.ID // resolved expectation
	conn     *simnet.Conn
	timeout  time.Duration
	keepOpen bool
	st       sec.SecureTransport
	edh      *edh

	// results, written only by the side's own task
	timedOut  bool // written by the watchdog task before it closes the connection
	hsOK      bool
	errKind   string // "", "mismatch", "timeout", "error"
	rPeer     peer.ID
	rKey      crypto.PubKey
	gotEarly  []string          // early data the handler received during THIS handshake
	peerCert  *x509.Certificate // TLS: the certificate this side received from its peer
	wrote     bool
	dataOK    bool // the first Read returned exactly what the partner wrote
	dataBogus bool // the first Read returned bytes the partner never wrote
	mustFail  string
}

func classify(err error) string {
	var mm sec.ErrPeerIDMismatch
	if errors.As(err, &mm) {
		return "mismatch"
	}
	var ne net.Error
	if errors.Is(err, context.DeadlineExceeded) || errors.Is(err, os.ErrDeadlineExceeded) || (errors.As(err, &ne) && ne.Timeout()) {
		return "timeout"
	}
	return "error"
}

// run is the body of the side's task: handshake with a virtual deadline, then one application
// write and one read (TLS 1.3 clients learn about a rejection by the server only there).
//
// The context carries a virtual deadline (the Noise transport turns it into a connection deadline),
// but a stalled handshake is ended one virtual second earlier by a watchdog that closes the raw
// connection: Noise arms the connection deadline and the context timer for the very same instant and
// selects on both, and which of two same-instant timers the Go runtime fires first is not a function
// of the tape.
func (s *side) run() {
	ctx, cancel := context.WithTimeout(context.Background(), s.timeout)
	defer cancel()
	wd := simrt.AfterFunc(s.timeout-time.Second, func() {
		s.timedOut = true
		s.conn.Close()
	})
	var nc net.Conn = s.conn
	if s.keepOpen {
		nc = keepOpen{s.conn}
	}
	var sc sec.SecureConn
	var err error
	if s.init {
		sc, err = s.st.SecureOutbound(ctx, nc, s.expectID)
	} else {
		sc, err = s.st.SecureInbound(ctx, nc, s.expectID)
	}
	wd.Stop()
	if s.edh != nil {
		// snapshot: in the reuse kind the handler object belongs to the transport and serves the next handshake too
		s.gotEarly = append([]string(nil), s.edh.got...)
	}
	if err != nil {
		s.errKind = classify(err)
		if s.timedOut {
			s.errKind = "timeout"
		}
		nc.Close()
		return
	}
	s.hsOK = true
	s.rPeer = sc.RemotePeer()
	s.rKey = sc.RemotePublicKey()
	if cs, ok := sc.(interface{ ConnectionState() tls.ConnectionState }); ok {
		if pcs := cs.ConnectionState().PeerCertificates; len(pcs) > 0 {
			s.peerCert = pcs[0]
		}
	}
	// every side of a run waits a different time, so that no two tasks wake at the same virtual instant
	wait := 5*time.Second + s.timeout/100
	if !s.init {
		wait += time.Second
	}
	exchange(sc, wait, s.role, s.partner.role, &s.wrote, &s.dataOK, &s.dataBogus)
	sc.Close()
	nc.Close()
}

// keepOpen defers the closing of the raw connection to the end of the run. Used when Mallory re-pairs
// two sessions: the wire of session a then carries the conversation of a's initiator with b's responder,
// and a FIN caused by one conversation must not cut the other one short (Mallory would not forward it).
type keepOpen struct{ net.Conn }

func (keepOpen) Close() error { return nil }

func exchange(c net.Conn, wait time.Duration, me, peerRole string, wrote, ok, bogus *bool) {
	c.SetDeadline(time.Now().Add(wait))
	if _, err := c.Write([]byte(tagOf(me))); err == nil {
		*wrote = true
	}
	want := tagOf(peerRole)
	buf := make([]byte, tagLen)
	n, _ := io.ReadFull(c, buf)
	if n > 0 && string(buf[:n]) != want[:n] {
		*bogus = true
	}
	*ok = n == tagLen && string(buf) == want
}

func (s *side) outcome() string {
	if !s.hsOK {
		return s.errKind
	}
	if s.dataOK {
		return "ok"
	}
	return "ok/no-data"
}

// success is what "completes the handshake" means for the refusal oracle. For a TLS client it
// includes the first Read (SecureOutbound's documentation: a TLS 1.3 client notices the server's
// rejection only when it reads) — the weaker reading.
func (s *side) success() bool {
	if s.p.tls && s.init {
		return s.hsOK && s.dataOK
	}
	return s.hsOK
}

func protoName(tls bool) string {
	if tls {
		return "tls"
	}
	return "noise"
}

func roleName(init bool) string {
	if init {
		return "initiator"
	}
	return "responder"
}

// ---- session ------------------------------------------------------------------------------------

type session struct {
	name string
	I, R *side
	m    *mitm
}

type pipeEnv struct {
	o     *common.Outcome
	n     *simnet.Net
	wg    *simsync.WaitGroup
	seq   int
	reuse bool
	tpts  map[string]cachedTransport
}

// transportFor returns the party's security transport. Within a run a process (identity + options) has
// ONE transport object, as in a real node: concurrent and successive sessions of the same party share
// it, so state that leaks from one handshake into another shows up as a wrong identity or an ignored
// expectation. Parties with an early-data handler get a transport of their own (the handler records what
// this one session received) — except in the "reuse" kind, where one SessionTransport with its handler
// serves a sequence of handshakes and the record is cleared between them.
func (e *pipeEnv) transportFor(p party) (sec.SecureTransport, *edh, error) {
	if p.early != "" && !e.reuse {
		return p.transport()
	}
	key := fmt.Sprintf("%s|%v|%v|%q|%v|%q", p.id, p.tls, p.session, p.prologue, p.noCheck, p.early)
	if t, ok := e.tpts[key]; ok {
		return t.st, t.h, nil
	}
	t, h, err := p.transport()
	if err == nil {
		if e.tpts == nil {
			e.tpts = map[string]cachedTransport{}
		}
		e.tpts[key] = cachedTransport{t, h}
	}
	return t, h, err
}

type cachedTransport struct {
	st sec.SecureTransport
	h  *edh
}

// lastIdx is the index of the last handshake frame a receiver reads in a direction: what arrives
// after it is transport data, not handshake data.
func lastIdx(tls bool, dir int) int {
	if tls {
		if dir == 0 {
			return 3 // ClientHello, Certificate, CertificateVerify, Finished
		}
		return 5 // ServerHello, EncryptedExtensions, CertificateRequest, Certificate, CertificateVerify, Finished
	}
	if dir == 0 {
		return 1 // messages 1 and 3
	}
	return 0 // message 2
}

func resolveExpect(p party, partner, cross ident) peer.ID {
	switch p.expect {
	case exMatch:
		return pidOf(partner)
	case exOther:
		return pidOf(ident{partner.typ, slotV})
	case exCross:
		return pidOf(cross)
	}
	return ""
}

// start creates the pipe, Mallory and the two tasks of one session. cross* are the identities of the
// second session's parties (only used for expectation "crossed").
func (e *pipeEnv) start(name string, ip, rp party, ed edit, crossI, crossR ident) (*session, error) {
	e.seq++
	d, l := e.n.Pipe(fmt.Sprintf("10.0.%d.1", e.seq), fmt.Sprintf("10.0.%d.2", e.seq), 4001)
	framing := frNoise
	if ip.tls {
		framing = frTLS
	}
	s := &session{name: name, m: newMitm(name, framing, ed, d, l)}
	s.I = &side{role: "I" + name, init: true, p: ip, truth: rp.id, conn: d, timeout: time.Duration(20+e.seq) * time.Second}
	s.R = &side{role: "R" + name, p: rp, truth: ip.id, conn: l, timeout: time.Duration(30+e.seq) * time.Second}
	s.I.partner, s.R.partner = s.R, s.I
	s.I.expectID = resolveExpect(ip, rp.id, crossR)
	s.R.expectID = resolveExpect(rp, ip.id, crossI)
	for _, x := range []*side{s.I, s.R} {
		var err error
		if x.st, x.edh, err = e.transportFor(x.p); err != nil {
			d.Close()
			l.Close()
			return nil, fmt.Errorf("transport for %s: %w", x.p.id, err)
		}
	}
	return s, nil
}

func (e *pipeEnv) launch(ss ...*session) {
	for _, s := range ss {
		for _, x := range []*side{s.I, s.R} {
			x := x
			e.wg.Add(1)
			simrt.GoNamed(x.role, func() {
				defer e.wg.Done()
				x.run()
			})
		}
	}
}

// ---- oracles ------------------------------------------------------------------------------------

// checkEnabled: the side named a peer and did not switch the check off.
func (s *side) checkEnabled() bool { return !s.p.noCheck && s.expectID != "" }

// accepts: in an undisturbed session with an honest partner of identity t this side is expected to
// complete (only used for the control oracle and to decide whether a run is informative).
func (s *side) accepts(t ident) bool {
	if s.p.noCheck {
		return true
	}
	if s.expectID == "" {
		return s.p.tls || !s.init // a Noise initiator always checks
	}
	return s.expectID == pidOf(t)
}

// derive is peer.IDFromPublicKey that survives a missing key.
func derive(k crypto.PubKey) (peer.ID, error) {
	if k == nil {
		return "", errors.New("nil public key")
	}
	return peer.IDFromPublicKey(k)
}

// judgeAuth: clauses 1 and 2 of the statement for one side.
func judgeAuth(o *common.Outcome, s *side, what string) {
	if !s.hsOK {
		return
	}
	pr, rl := protoName(s.p.tls), roleName(s.init)
	want := pidOf(s.truth)
	derived, err := derive(s.rKey)
	switch {
	case err != nil:
		o.Violate("C01/remote-key-missing/"+pr+"/"+rl, "%s: %s completed but RemotePublicKey() is unusable (%v)", what, s.role, err)
	case derived != s.rPeer:
		o.Violate("C01/remote-peer-not-derived-from-key/"+pr+"/"+rl, "%s: %s reports RemotePeer()=%s but RemotePublicKey() derives %s", what, s.role, nameOf(s.rPeer), nameOf(derived))
	case s.rPeer != want || !s.rKey.Equals(keyOf(s.truth).GetPublic()):
		o.Violate("C01/wrong-identity/"+pr+"/"+rl, "%s: %s completed and reports remote peer %s, the process at the other end is %s", what, s.role, nameOf(s.rPeer), s.truth)
	}
	if s.checkEnabled() && s.expectID != want {
		o.Violate("C01/expected-peer-ignored/"+pr+"/"+rl, "%s: %s expected %s, talked to %s and completed the handshake", what, s.role, nameOf(s.expectID), s.truth)
	}
}

func judgeData(o *common.Outcome, s *side, what string) {
	if s.dataBogus {
		o.Violate("C01/forged-data-accepted/"+protoName(s.p.tls)+"/"+roleName(s.init), "%s: the first Read of %s returned bytes its partner never wrote", what, s.role)
	}
}

func judgeEarly(o *common.Outcome, s *side, what string) {
	if s.edh == nil || !s.hsOK {
		return
	}
	want := s.partner.p.early
	if want == "" {
		if len(s.gotEarly) > 0 {
			o.Violate("C01/early-data-forged/"+roleName(s.init), "%s: %s received early data %q, its partner sent none", what, s.role, s.gotEarly)
		}
		return
	}
	if len(s.gotEarly) != 1 || s.gotEarly[0] != want {
		o.Violate("C01/early-data-altered/"+roleName(s.init), "%s: %s completed with early data %q, its partner sent %q", what, s.role, s.gotEarly, want)
	}
}

func (s *session) log(o *common.Outcome) {
	o.Logf("session %s: I{%s}=%s R{%s}=%s", s.name, s.I.p, s.I.outcome(), s.R.p, s.R.outcome())
	if s.m.fired {
		o.Logf("  mallory(%s): %s", s.name, s.m.note)
	}
	// sizes of the original frames (crypto randomness shows in some of them: trace only)
	var sz [2][]int
	for d := 0; d < 2; d++ {
		for _, f := range s.m.rec[d] {
			sz[d] = append(sz[d], len(f))
		}
	}
	o.Logf("  frames seen by mallory(%s): I>R %v R>I %v", s.name, sz[0], sz[1])
}

func prologueMismatch(a, b party) bool { return string(a.prologue) != string(b.prologue) }

// judge applies every oracle to a finished session. mustFail marks were set by the caller according to
// the edit that fired.
func judge(o *common.Outcome, s *session, what string) {
	for _, x := range []*side{s.I, s.R} {
		judgeAuth(o, x, what)
		judgeData(o, x, what)
		judgeEarly(o, x, what)
		if x.mustFail != "" && x.success() {
			o.Violate("C01/altered-handshake-accepted/"+protoName(x.p.tls)+"/"+roleName(x.init)+"/"+x.mustFail,
				"%s: %s completed the handshake (%s) although the handshake data it received had been subjected to Mallory's %q: %s", what, x.role, x.outcome(), x.mustFail, s.m.note)
		}
	}
	// doc of noise.Prologue: "The handshake will only complete successfully if both parties set the same prologue."
	for _, x := range []*side{s.I, s.R} {
		if x.hsOK && prologueMismatch(x.p, x.partner.p) {
			o.Violate("C01/prologue-ignored/"+roleName(x.init), "%s: %s completed with prologue %q, its partner used %q", what, x.role, x.p.prologue, x.partner.p.prologue)
		}
	}
}

// compatible: an undisturbed session between these two honest parties has to succeed.
func compatible(s *session) bool {
	return !prologueMismatch(s.I.p, s.R.p) && s.I.accepts(s.I.truth) && s.R.accepts(s.R.truth) && s.I.p.tls == s.R.p.tls
}

// judgeControl: without any adversary a compatible pair completes and exchanges data. Not a clause
// of the statement but the guard against vacuity: every refusal oracle above is trivially satisfied by
// an implementation that never completes (this is what catches e.g. a signature check bound to the
// wrong static key, which refuses every honest peer).
func judgeControl(o *common.Outcome, s *session, what string) {
	if !compatible(s) {
		return
	}
	for _, x := range []*side{s.I, s.R} {
		if !x.hsOK || !x.dataOK {
			o.Violate("C01/honest-handshake-refused/"+protoName(x.p.tls)+"/"+roleName(x.init), "%s: no adversary, compatible configuration, yet %s ended with %s", what, x.role, x.outcome())
		}
	}
}

// markMustFail applies the per-receiving-side rule for single-session wire edits.
func markMustFail(s *session) {
	m := s.m
	if !m.fired {
		return
	}
	e := m.ed
	recv := s.R
	if e.dir == 1 {
		recv = s.I
	}
	if m.restored() {
		return
	}
	switch e.kind {
	case edFlip, edTruncFix, edTruncRaw, edExtendFix, edDrop, edSwap, edReplay, edReplayDir, edCut:
		recv.mustFail = edNames[e.kind]
	case edDup, edExtendRaw:
		// the frame itself arrives intact; what follows it is handshake data only if the receiver still
		// reads handshake frames in this direction — otherwise it is transport data (first Read fails)
		if e.idx < lastIdx(s.I.p.tls, e.dir) {
			recv.mustFail = edNames[e.kind]
		}
	}
}
