package c01

import (
	"bytes"
	"crypto/ecdh"
	"crypto/ecdsa"
	"crypto/elliptic"
	"crypto/rand"
	"crypto/x509"
	"fmt"
	"math/big"
	"os"
	"sync"

	"github.com/libp2p/go-libp2p/core/crypto"
	"github.com/libp2p/go-libp2p/core/peer"

	"verifsim/simrand"
)

// Identity keys are referred to by (type, slot) everywhere (traces, signatures, classes). Ed25519, ECDSA and
// Secp256k1 keys are built from fixed scalars, RSA keys are generated from simrand's seeded stream at process
// start (warmKeys), so that every process uses the same keys: instrumented packages iterate maps in key
// order, and a peer ID that differs between processes would reorder them.
const (
	ktEd25519 = iota
	ktECDSA
	ktSecp256k1
	ktRSA
	nKeyTypes
)

var keyTypeNames = [nKeyTypes]string{"ed25519", "ecdsa", "secp256k1", "rsa"}

// slots: who owns the key in a scenario
const (
	slotI  = iota // initiator of session 1
	slotR         // responder of session 1
	slotV         // "the other peer": a third honest identity (expected-peer "other", impersonation victim)
	slotM         // Mallory's own identity (Byzantine peer)
	slotI2        // initiator of session 2
	slotR2        // responder of session 2
	nSlots
)

var slotNames = [nSlots]string{"I", "R", "V", "M", "I2", "R2"}

type ident struct{ typ, slot int }

func (i ident) String() string { return keyTypeNames[i.typ] + "/" + slotNames[i.slot] }

var (
	keyMu    sync.Mutex
	keyCache [nKeyTypes][nSlots]crypto.PrivKey
	idCache  [nKeyTypes][nSlots]peer.ID
)

// varLen reports whether signatures of this key type have a length that depends on randomness
// (DER-encoded ECDSA signatures): message lengths are then not a function of the tape.
func varLen(typ int) bool { return typ == ktECDSA || typ == ktSecp256k1 }

func makeKey(typ, slot int) (crypto.PrivKey, error) {
	seed := byte(0x11 + 16*typ + slot)
	switch typ {
	case ktEd25519:
		k, _, err := crypto.GenerateEd25519Key(bytes.NewReader(bytes.Repeat([]byte{seed, 0x5a, byte(slot)}, 32)))
		return k, err
	case ktSecp256k1:
		return crypto.UnmarshalSecp256k1PrivateKey(bytes.Repeat([]byte{seed}, 32))
	case ktECDSA:
		d := bytes.Repeat([]byte{seed}, 32)
		ek, err := ecdh.P256().NewPrivateKey(d)
		if err != nil {
			return nil, err
		}
		pub := ek.PublicKey().Bytes() // 0x04 || X || Y
		priv := &ecdsa.PrivateKey{
			PublicKey: ecdsa.PublicKey{Curve: elliptic.P256(), X: new(big.Int).SetBytes(pub[1:33]), Y: new(big.Int).SetBytes(pub[33:65])},
			D:         new(big.Int).SetBytes(d),
		}
		der, err := x509.MarshalECPrivateKey(priv)
		if err != nil {
			return nil, err
		}
		return crypto.UnmarshalECDSAPrivateKey(der)
	case ktRSA:
		// crypto/rsa cannot be seeded through an ordinary reader (randutil.MaybeReadByte), but simrand's stream is built
		// to survive exactly that: the key is a function of (type, slot) in every process
		restore := installRand(0xC01000 + uint64(slot))
		defer restore()
		k, _, err := crypto.GenerateRSAKeyPair(2048, rand.Reader)
		return k, err
	}
	return nil, fmt.Errorf("bad key type %d", typ)
}

func keyOf(i ident) crypto.PrivKey {
	keyMu.Lock()
	defer keyMu.Unlock()
	if k := keyCache[i.typ][i.slot]; k != nil {
		return k
	}
	k, err := makeKey(i.typ, i.slot)
	if err != nil {
		panic(fmt.Sprintf("c01: cannot build key %s: %v", i, err))
	}
	id, err := peer.IDFromPrivateKey(k)
	if err != nil {
		panic(err)
	}
	keyCache[i.typ][i.slot] = k
	idCache[i.typ][i.slot] = id
	return k
}

func pidOf(i ident) peer.ID {
	keyOf(i)
	keyMu.Lock()
	defer keyMu.Unlock()
	return idCache[i.typ][i.slot]
}

// nameOf maps a peer ID back to the slot name (for traces); unknown IDs print as "?".
func nameOf(p peer.ID) string {
	if p == "" {
		return "(empty)"
	}
	keyMu.Lock()
	defer keyMu.Unlock()
	for t := 0; t < nKeyTypes; t++ {
		for s := 0; s < nSlots; s++ {
			if idCache[t][s] == p {
				return ident{t, s}.String()
			}
		}
	}
	return "?"
}

// warmKeys builds every identity key before the first run (RSA generation swaps crypto/rand.Reader for a moment,
// which must not happen while tasks of a run are reading from it).
func warmKeys() {
	for t := 0; t < nKeyTypes; t++ {
		for sl := 0; sl < nSlots; sl++ {
			keyOf(ident{t, sl})
		}
	}
}

// installRand is simrand.Install whose restore function also puts the process' GODEBUG back: Install switches
// TLS to the X25519 key share (tlsmlkem=0, ML-KEM key generation cannot be seeded) for the whole process and
// leaves it that way. The TCP strata run with crypto/tls' default (hybrid X25519MLKEM768) key share, so the
// setting must not leak from a QUIC run (or from warmKeys) into the runs that follow in the same process.
func installRand(seed uint64) func() {
	prev, had := os.LookupEnv("GODEBUG")
	restore := simrand.Install(seed)
	return func() {
		restore()
		if had {
			os.Setenv("GODEBUG", prev)
		} else {
			os.Unsetenv("GODEBUG")
		}
	}
}
