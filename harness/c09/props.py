# orchestrator configuration of the C09 check (loaded by tools/props.py)
SPEC = dict(
    pkg="./harness/c09",
    level="exploration",
    level_text=("seeded search over operation histories x clock trajectories x close/reopen points of the real in-memory and "
                "datastore-backed address books (both GC modes, cache on/off) on a virtual clock, compared after every "
                "operation (half of the clock advances deliberately unobserved) with a reference book written from the statement; "
                "fault: forward clock jumps (suspend/resume: the wall clock the books read runs ahead of the timers that drive their GC); "
                "sampling, not proof"),
    level_note=("trusted: testing/synctest virtual clock, go-datastore's MapDatastore under simdisk, the reference book; "
                "histories draw addresses from a 3-peer x 5-address universe; signed records list plain addresses only"),
    technique="deterministic simulation with fault injection (clock jumps): generated histories on a virtual clock vs executable reference model, mem/ds differential, reopen",
    design_ref="DESIGN.md section 6 (C09), section 9 (F1-F4)",
    quick_s=30, thorough_s=450,
    rule=("one run = one tape: stratum (GC-aligned instants | free clock), ds cache size 0|16, ds GC mode full-purge|lookahead, "
          "3-40 operations drawn from AddAddrs/SetAddrs (batches of 1-3 addresses, with duplicates and own/foreign /p2p "
          "suffixes), UpdateAddrs (all TTL class pairs incl. connected<->finite, zero and negative), ClearAddrs, "
          "ConsumePeerRecord (seq 1-4 up/down/equal, wrong signer), clock advances 1 s - 3 h (half of them unobserved; in the free stratum 1 in 5 is a forward clock JUMP instead: no timer fires), close+reopen of the ds book; "
          "after each operation Addrs, GetPeerRecord and PeersWithAddrs of both books are compared with the reference; "
          "final check 4 h later; non-trivial = at least 2 mutating operations; distinct = distinct sequence of "
          "(operation kind, per-peer live address count, record present) states"),
    probes=["reopen", "advance-not-observed"],
    real=["p2p/host/peerstore/pstoremem address book (incl. GC goroutine on the virtual clock)",
          "p2p/host/peerstore/pstoreds address book + GC (full purge and lookahead), ARC cache",
          "go-datastore MapDatastore and query engine", "core/record envelopes, core/peer records"],
    stubs=["disk: simdisk wrapper around MapDatastore (clean close/reopen in this check)"],
    assume=["virtual clock of testing/synctest", "addresses and TTLs are drawn from a small fixed universe"],
)
