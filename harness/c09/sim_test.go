// C09 — address book: TTL, expiry and GC semantics, identical in both stores.
//
// Operation-level simulation: generated histories on the bubble clock against the real
// pstoremem and pstoreds address books (the latter on simdisk, closed and reopened at drawn
// points), compared after every operation with a reference book written from the statement.
package c09

import (
	"bytes"
	"context"
	"fmt"
	"sort"
	"strings"
	"testing"
	"time"

	"github.com/libp2p/go-libp2p/core/crypto"
	"github.com/libp2p/go-libp2p/core/peer"
	pstore "github.com/libp2p/go-libp2p/core/peerstore"
	"github.com/libp2p/go-libp2p/core/record"
	"github.com/libp2p/go-libp2p/p2p/host/peerstore/pstoreds"
	"github.com/libp2p/go-libp2p/p2p/host/peerstore/pstoremem"
	ma "github.com/multiformats/go-multiaddr"

	"verifsim/harness/common"
	"verifsim/simdisk"
	"verifsim/simrt"
)

func TestSim(t *testing.T) { common.Main(t, common.Harness{Property: "C09", Run: run}) }

// ---- fixed universe (keys derived from constant seeds so that runs replay exactly) -------

const nPeers = 3
const nAddrs = 5

var (
	privs [nPeers]crypto.PrivKey
	pids  [nPeers]peer.ID
	base  [nAddrs]ma.Multiaddr
)

func init() {
	for i := range privs {
		seed := bytes.Repeat([]byte{byte(i + 1)}, 64)
		k, _, err := crypto.GenerateEd25519Key(bytes.NewReader(seed))
		if err != nil {
			panic(err)
		}
		privs[i] = k
		pids[i], _ = peer.IDFromPrivateKey(k)
	}
	for i := range base {
		base[i] = ma.StringCast(fmt.Sprintf("/ip4/1.2.3.%d/tcp/%d", i+1, 1001+i))
	}
}

// address form: 0 plain, 1 with /p2p/<own>, 2 with /p2p/<other peer>
func addrForm(ai, form, p int) ma.Multiaddr {
	switch form {
	case 1:
		return ma.StringCast(base[ai].String() + "/p2p/" + pids[p].String())
	case 2:
		return ma.StringCast(base[ai].String() + "/p2p/" + pids[(p+1)%nPeers].String())
	}
	return base[ai]
}

// ---- reference book (from the statement) -------------------------------------------------

type mAddr struct {
	ttl time.Duration
	exp time.Time
	inf bool // connected / permanent: never expires
}

type mRec struct {
	seq   uint64
	addrs []int // base address indices listed by the record
	id    int   // identity of the envelope (index into the run's envelope list)
}

type mPeer struct {
	addrs map[int]*mAddr
	rec   *mRec
}

type model struct {
	peers [nPeers]*mPeer
}

func newModel() *model {
	m := &model{}
	for i := range m.peers {
		m.peers[i] = &mPeer{addrs: map[int]*mAddr{}}
	}
	return m
}

func isConnected(ttl time.Duration) bool { return ttl >= pstore.ConnectedAddrTTL }

// expire drops what is no longer in the future; a peer left without addresses loses its record.
func (m *model) expire(now time.Time) {
	for _, p := range m.peers {
		for k, a := range p.addrs {
			if !a.inf && !a.exp.After(now) {
				delete(p.addrs, k)
			}
		}
		if len(p.addrs) == 0 {
			p.rec = nil
		}
	}
}

func (m *model) add(now time.Time, p int, addrs []int, ttl time.Duration) {
	if ttl <= 0 {
		return
	}
	for _, ai := range addrs {
		a := m.peers[p].addrs[ai]
		exp := now.Add(ttl)
		if a == nil {
			m.peers[p].addrs[ai] = &mAddr{ttl: ttl, exp: exp, inf: isConnected(ttl)}
			continue
		}
		// adding never shortens
		if ttl > a.ttl {
			a.ttl = ttl
		}
		if isConnected(ttl) {
			a.inf = true
		}
		if !a.inf && exp.After(a.exp) {
			a.exp = exp
		}
	}
}

func (m *model) set(now time.Time, p int, addrs []int, ttl time.Duration) {
	for _, ai := range addrs {
		if ttl <= 0 {
			delete(m.peers[p].addrs, ai)
			continue
		}
		m.peers[p].addrs[ai] = &mAddr{ttl: ttl, exp: now.Add(ttl), inf: isConnected(ttl)}
	}
	m.expire(now)
}

func (m *model) update(now time.Time, p int, oldTTL, newTTL time.Duration) {
	for ai, a := range m.peers[p].addrs {
		if a.ttl != oldTTL {
			continue
		}
		if newTTL <= 0 {
			delete(m.peers[p].addrs, ai)
			continue
		}
		a.ttl, a.exp, a.inf = newTTL, now.Add(newTTL), isConnected(newTTL)
	}
	m.expire(now)
}

func (m *model) clear(p int) {
	m.peers[p].addrs = map[int]*mAddr{}
	m.peers[p].rec = nil
}

// consume returns whether the record is accepted.
func (m *model) consume(now time.Time, p int, seq uint64, addrs []int, ttl time.Duration, id int) bool {
	mp := m.peers[p]
	if mp.rec != nil && mp.rec.seq > seq {
		return false
	}
	if mp.rec != nil {
		listed := map[int]bool{}
		for _, ai := range addrs {
			listed[ai] = true
		}
		for _, ai := range mp.rec.addrs {
			if listed[ai] {
				continue
			}
			if a := mp.addrs[ai]; a != nil && !isConnected(a.ttl) {
				delete(mp.addrs, ai)
			}
		}
	}
	mp.rec = &mRec{seq: seq, addrs: addrs, id: id}
	m.add(now, p, addrs, ttl)
	m.expire(now)
	return true
}

func (m *model) addrsOf(p int) []string {
	var out []string
	for ai := range m.peers[p].addrs {
		out = append(out, base[ai].String())
	}
	sort.Strings(out)
	return out
}

func (m *model) peersWithAddrs() []string {
	var out []string
	for i, p := range m.peers {
		if len(p.addrs) > 0 {
			out = append(out, pids[i].String())
		}
	}
	sort.Strings(out)
	return out
}

// ---- books under test --------------------------------------------------------------------

type book interface {
	pstore.AddrBook
	pstore.CertifiedAddrBook
	Close() error
}

type bookUT struct {
	name string
	b    book
}

func sortedAddrs(as []ma.Multiaddr) ([]string, bool) {
	out := make([]string, 0, len(as))
	dup := false
	seen := map[string]bool{}
	for _, a := range as {
		s := a.String()
		if seen[s] {
			dup = true
		}
		seen[s] = true
		out = append(out, s)
	}
	sort.Strings(out)
	return out, dup
}

func diff(got, want []string) (extra, missing []string) {
	g, w := map[string]bool{}, map[string]bool{}
	for _, x := range got {
		g[x] = true
	}
	for _, x := range want {
		w[x] = true
	}
	for _, x := range got {
		if !w[x] {
			extra = append(extra, x)
		}
	}
	for _, x := range want {
		if !g[x] {
			missing = append(missing, x)
		}
	}
	return
}

type envInfo struct {
	env  *record.Envelope
	peer int
	seq  uint64
}

func ttlName(d time.Duration) string {
	switch d {
	case pstore.ConnectedAddrTTL:
		return "Connected"
	case pstore.PermanentAddrTTL:
		return "Permanent"
	}
	return d.String()
}

// jumpClock is the wall clock of a process that gets suspended: Now() is the bubble's time plus an offset that only ever
// jumps forward; timers (After, and the tickers the books create themselves) run on the bubble's time, i.e. they do not
// fire during a jump and are late by it afterwards — what a monotonic-timer / wall-clock-Now process sees after a resume.
type jumpClock struct{ offset *time.Duration }

func (c jumpClock) Now() time.Time                         { return time.Now().Add(*c.offset) }
func (c jumpClock) After(d time.Duration) <-chan time.Time { return time.After(d) }

func run(t *testing.T, tape *simrt.Tape) *common.Outcome {
	g := simrt.Gen{S: tape.G}
	o := &common.Outcome{}

	aligned := g.Int(2) == 0 // stratum: GC-aligned instants (exact everywhere) vs free clock
	dsCache := []uint{0, 16}[g.Int(2)]
	lookahead := g.Chance(1, 3)
	nOps := g.Range(3, 40)
	var ttls []time.Duration
	var advances []time.Duration
	if aligned {
		ttls = []time.Duration{2*time.Minute - 10*time.Second, 0, pstore.ConnectedAddrTTL, 15*time.Minute - 10*time.Second, -time.Second, time.Hour - 10*time.Second, pstore.PermanentAddrTTL}
		advances = []time.Duration{time.Minute, 2 * time.Minute, 5 * time.Minute, 15 * time.Minute, time.Hour, 3 * time.Hour}
	} else {
		ttls = []time.Duration{pstore.TempAddrTTL, 0, pstore.ConnectedAddrTTL, pstore.RecentlyConnectedAddrTTL, -time.Second, pstore.AddressTTL, pstore.PermanentAddrTTL}
		advances = []time.Duration{time.Second, 30 * time.Second, 59 * time.Second, time.Minute, 61 * time.Second, 2 * time.Minute, 5 * time.Minute, 15 * time.Minute, time.Hour, 3 * time.Hour}
	}
	o.Logf("stratum aligned=%v dsCache=%d lookahead=%v ops=%d", aligned, dsCache, lookahead, nOps)

	var sig strings.Builder
	mutating := 0

	var offset time.Duration
	wall := func() time.Time { return time.Now().Add(offset) }
	res := simrt.Run(t, simrt.Config{MaxSteps: 100000}, tape.S, func() {
		disk := simdisk.New()
		opts := pstoreds.DefaultOpts()
		opts.Clock = jumpClock{&offset}
		opts.CacheSize = dsCache
		opts.GCPurgeInterval = time.Minute
		opts.GCInitialDelay = time.Minute
		opts.MaxAddrsPerPeer = 0
		if lookahead {
			opts.GCLookaheadInterval = 5 * time.Minute
		}
		openDS := func() book {
			b, err := pstoreds.NewAddrBook(context.Background(), disk, opts)
			if err != nil {
				o.Trouble = "open ds book: " + err.Error()
				return nil
			}
			return b
		}
		// books are created at a whole minute (their GC tickers fire on whole minutes); every
		// operation and observation happens at whole second + 500 ms, so that no GC tick ever
		// coincides with a harness instant (which would make the order a runtime choice).
		mem := pstoremem.NewAddrBook(pstoremem.WithMaxAddressesPerPeer(0), pstoremem.WithClock(jumpClock{&offset}))
		dsb := openDS()
		if dsb == nil {
			mem.Close()
			return
		}
		books := []*bookUT{{"mem", mem}, {"ds", dsb}}
		defer func() {
			for _, b := range books {
				b.b.Close()
			}
		}()
		simrt.TimeSleep(500 * time.Millisecond)
		m := newModel()
		var envs []envInfo
		lastOp := "none"

		compare := func(when string) bool {
			now := wall()
			m.expire(now)
			ok := true
			for _, b := range books {
				for p := 0; p < nPeers; p++ {
					got, dup := sortedAddrs(b.b.Addrs(pids[p]))
					want := m.addrsOf(p)
					if dup {
						o.Violate("C09/addrs-duplicate/"+b.name, "%s after %s: Addrs(p%d) lists an address twice: %v", b.name, when, p, got)
						ok = false
					}
					if extra, missing := diff(got, want); len(extra)+len(missing) > 0 {
						dir := "extra"
						if len(extra) == 0 {
							dir = "missing"
						}
						o.Violate(fmt.Sprintf("C09/addrs/%s/%s/after-%s", b.name, dir, lastOp), "%s %s: Addrs(p%d) = %v, reference book says %v (extra %v missing %v)", b.name, when, p, got, want, extra, missing)
						ok = false
					}
					// record
					env := b.b.GetPeerRecord(pids[p])
					wantRec := m.peers[p].rec
					switch {
					case env == nil && wantRec != nil:
						o.Violate(fmt.Sprintf("C09/record/%s/missing/after-%s", b.name, lastOp), "%s %s: GetPeerRecord(p%d) = nil, reference holds seq %d", b.name, when, p, wantRec.seq)
						ok = false
					case env != nil && wantRec == nil:
						o.Violate(fmt.Sprintf("C09/record/%s/stale-returned/after-%s", b.name, lastOp), "%s %s: GetPeerRecord(p%d) returns a record although every address of the peer expired or was cleared since it was stored", b.name, when, p)
						ok = false
					case env != nil && wantRec != nil:
						r, err := env.Record()
						pr, _ := r.(*peer.PeerRecord)
						if err != nil || pr == nil || pr.Seq != wantRec.seq || pr.PeerID != pids[p] {
							o.Violate(fmt.Sprintf("C09/record/%s/wrong/after-%s", b.name, lastOp), "%s %s: GetPeerRecord(p%d) = %+v, reference holds seq %d", b.name, when, p, pr, wantRec.seq)
							ok = false
						}
					}
				}
				// listing: every peer with a live address is listed, always
				var listed []string
				for _, id := range b.b.PeersWithAddrs() {
					listed = append(listed, id.String())
				}
				sort.Strings(listed)
				extra, missing := diff(listed, m.peersWithAddrs())
				if len(missing) > 0 {
					o.Violate(fmt.Sprintf("C09/peers/%s/missing/after-%s", b.name, lastOp), "%s %s: PeersWithAddrs = %v lacks %v", b.name, when, listed, missing)
					ok = false
				}
				// ... and only those once GC has certainly visited everything that expired: in the
				// aligned stratum a GC tick separates every expiry from the next harness instant
				// (memory book, and the datastore book in full-purge mode).
				if len(extra) > 0 && aligned && (b.name == "mem" || !lookahead) && when != "same-instant" {
					o.Violate(fmt.Sprintf("C09/peers/%s/listed-after-gc/after-%s", b.name, lastOp), "%s %s: PeersWithAddrs = %v still lists %v although all of their addresses expired before the last GC tick", b.name, when, listed, extra)
					ok = false
				}
			}
			return ok
		}

		pickBatch := func(p int) (idx []int, forms []int, addrs []ma.Multiaddr) {
			n := g.Weighted(6, 3, 2) + 1
			for i := 0; i < n; i++ {
				ai := g.Int(nAddrs)
				form := g.Weighted(8, 1, 1)
				idx = append(idx, ai)
				forms = append(forms, form)
				addrs = append(addrs, addrForm(ai, form, p))
			}
			return
		}
		effective := func(idx, forms []int) []int { // foreign /p2p suffix entries are ignored
			var out []int
			for i, ai := range idx {
				if forms[i] != 2 {
					out = append(out, ai)
				}
			}
			return out
		}
		describe := func(idx, forms []int) string {
			var s []string
			for i, ai := range idx {
				s = append(s, fmt.Sprintf("a%d%s", ai, []string{"", "/p2p/own", "/p2p/other"}[forms[i]]))
			}
			return "[" + strings.Join(s, " ") + "]"
		}

		skipObservation := false
		for i := 0; i < nOps; i++ {
			now := wall()
			m.expire(now)
			p := g.Int(nPeers)
			switch kind := g.Weighted(5, 4, 3, 1, 3, 5, 1); kind {
			case 0:
				idx, forms, addrs := pickBatch(p)
				ttl := ttls[g.Int(len(ttls))]
				o.Logf("#%d t=%v AddAddrs(p%d, %s, %s)", i, simrt.Now(), p, describe(idx, forms), ttlName(ttl))
				for _, b := range books {
					b.b.AddAddrs(pids[p], addrs, ttl)
				}
				m.add(now, p, effective(idx, forms), ttl)
				m.expire(now)
				lastOp = "AddAddrs"
				mutating++
			case 1:
				idx, forms, addrs := pickBatch(p)
				ttl := ttls[g.Int(len(ttls))]
				o.Logf("#%d t=%v SetAddrs(p%d, %s, %s)", i, simrt.Now(), p, describe(idx, forms), ttlName(ttl))
				for _, b := range books {
					b.b.SetAddrs(pids[p], addrs, ttl)
				}
				m.set(now, p, effective(idx, forms), ttl)
				lastOp = "SetAddrs"
				mutating++
			case 2:
				oldTTL, newTTL := ttls[g.Int(len(ttls))], ttls[g.Int(len(ttls))]
				o.Logf("#%d t=%v UpdateAddrs(p%d, %s -> %s)", i, simrt.Now(), p, ttlName(oldTTL), ttlName(newTTL))
				for _, b := range books {
					b.b.UpdateAddrs(pids[p], oldTTL, newTTL)
				}
				m.update(now, p, oldTTL, newTTL)
				lastOp = "UpdateAddrs"
				mutating++
			case 3:
				o.Logf("#%d t=%v ClearAddrs(p%d)", i, simrt.Now(), p)
				for _, b := range books {
					b.b.ClearAddrs(pids[p])
				}
				m.clear(p)
				lastOp = "ClearAddrs"
				mutating++
			case 4:
				// signed record for p, signed by p (or, rarely, by another key)
				signer := p
				if g.Chance(1, 8) {
					signer = (p + 1) % nPeers
				}
				seq := uint64(g.Range(1, 4))
				n := g.Int(4)
				var idx []int
				var addrs []ma.Multiaddr
				for k := 0; k < n; k++ {
					ai := g.Int(nAddrs)
					dup := false
					for _, x := range idx {
						dup = dup || x == ai
					}
					if dup {
						continue
					}
					idx = append(idx, ai)
					addrs = append(addrs, base[ai])
				}
				ttl := ttls[g.Weighted(5, 1, 2, 3, 0, 2, 1)]
				rec := &peer.PeerRecord{PeerID: pids[p], Addrs: addrs, Seq: seq}
				env, err := record.Seal(rec, privs[signer])
				if err != nil {
					o.Trouble = "seal: " + err.Error()
					return
				}
				id := len(envs)
				envs = append(envs, envInfo{env, p, seq})
				o.Logf("#%d t=%v ConsumePeerRecord(peer=p%d signer=p%d seq=%d addrs=%v ttl=%s)", i, simrt.Now(), p, signer, seq, idx, ttlName(ttl))
				var want bool
				if signer == p {
					want = m.consume(now, p, seq, idx, ttl, id)
				}
				for _, b := range books {
					// each book gets its own envelope object (Envelope caches its decoded record)
					e2, _, err := record.ConsumeEnvelope(mustMarshal(env), peer.PeerRecordEnvelopeDomain)
					if err != nil {
						o.Trouble = "re-decode envelope: " + err.Error()
						return
					}
					got, err := b.b.ConsumePeerRecord(e2, ttl)
					if signer != p {
						if got || err == nil {
							o.Violate("C09/record-wrong-signer-accepted/"+b.name, "%s accepted a record for p%d signed by p%d", b.name, p, signer)
						}
						continue
					}
					if err != nil {
						o.Violate("C09/consume-error/"+b.name, "%s: ConsumePeerRecord failed: %v", b.name, err)
						continue
					}
					if got != want {
						o.Violate(fmt.Sprintf("C09/consume-result/%s/got-%v", b.name, got), "%s: ConsumePeerRecord(p%d seq=%d) = %v, reference says %v (stored seq: %v)", b.name, p, seq, got, want, m.peers[p].rec)
					}
				}
				lastOp = "ConsumePeerRecord"
				mutating++
			case 5:
				d := advances[g.Int(len(advances))]
				// Observing is not neutral: Addrs() on the datastore book cleans AND flushes the record it loads, while
				// UpdateAddrs / GetPeerRecord / the sequence lookup clean the cached copy without flushing. If every clock
				// advance were followed by the harness's own Addrs() on every peer, no operation of the history could ever be
				// the first to touch a record after its addresses expired. Half of the advances are therefore not observed.
				skipObservation = g.Chance(1, 2)
				// clock jump (free stratum only, 1 advance in 5): the process is suspended for d — the wall clock the books
				// read is d later, no timer fired meanwhile, the GC tickers are late by d from now on
				if jump := !aligned && g.Int(5) == 4; jump {
					o.Logf("#%d t=%v CLOCK JUMP +%v (suspend; observed: %v)", i, simrt.Now(), d, !skipObservation)
					offset += d
					o.Fault("clock-jump")
					lastOp = "advance"
					break
				}
				o.Logf("#%d t=%v advance %v (observed: %v)", i, simrt.Now(), d, !skipObservation)
				simrt.TimeSleep(d)
				lastOp = "advance"
			case 6:
				// close and reopen the datastore-backed book on the same datastore. The new book is
				// created at a whole minute (see above), which costs one minute of virtual time.
				o.Logf("#%d t=%v reopen ds book", i, simrt.Now())
				books[1].b.Close()
				simrt.TimeSleep(59*time.Second + 500*time.Millisecond)
				nb := openDS()
				if nb == nil {
					books = books[:1]
					return
				}
				books[1].b = nb
				simrt.TimeSleep(500 * time.Millisecond)
				lastOp = "reopen"
				o.Probe("reopen")
			}
			if len(o.Violations) > 0 || o.Trouble != "" {
				return
			}
			when := "later"
			if lastOp != "advance" && lastOp != "reopen" {
				when = "same-instant"
			}
			if lastOp == "advance" && skipObservation {
				o.Probe("advance-not-observed")
				continue
			}
			if !compare(when) {
				return
			}
			fmt.Fprintf(&sig, "%s:", lastOp)
			for p := 0; p < nPeers; p++ {
				fmt.Fprintf(&sig, "%d", len(m.peers[p].addrs))
				if m.peers[p].rec != nil {
					sig.WriteByte('r')
				}
			}
			sig.WriteByte(';')
		}
		// final: far beyond every finite lifetime and several GC rounds — listing must be exact
		simrt.TimeSleep(4 * time.Hour)
		lastOp = "final-gc"
		m.expire(wall())
		for _, b := range books {
			var listed []string
			for _, id := range b.b.PeersWithAddrs() {
				listed = append(listed, id.String())
			}
			sort.Strings(listed)
			if extra, missing := diff(listed, m.peersWithAddrs()); len(extra)+len(missing) > 0 {
				o.Violate(fmt.Sprintf("C09/peers/%s/listed-after-final-gc", b.name), "%s: 4h after the last operation PeersWithAddrs = %v, reference %v (extra %v missing %v)", b.name, listed, m.peersWithAddrs(), extra, missing)
			}
		}
		compare("final")
	})
	o.Sched = res
	o.Virtual = res.Virtual
	o.Sig = sig.String()
	o.Nontrivial = mutating >= 2
	if res.Panic != "" {
		o.Violate("C09/panic", "%s", res.Panic)
	}
	if res.Stuck || res.StepLimit {
		o.Trouble = fmt.Sprintf("run stuck=%v steplimit=%v", res.Stuck, res.StepLimit)
	}
	if len(res.Residue) > 0 && o.Trouble == "" && len(o.Violations) == 0 {
		o.Violate("C09/residue", "goroutines left after Close: %v", res.Residue)
	}
	return o
}

func mustMarshal(e *record.Envelope) []byte {
	b, err := e.Marshal()
	if err != nil {
		panic(err)
	}
	return b
}
