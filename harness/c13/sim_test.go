// C13 — identify attributes what it learns only to the authenticated peer, within bounds.
//
// Full-stack, lock-level simulation (every lock / channel operation / go statement of the instrumented stack is a
// scheduling decision of the seeded scheduler).
//
// OBSERVER: a real basic host (identify service under test, real swarm, upgrader, noise|insecure, yamux, pstoremem,
// pstoremanager, event bus) on simnet. Its peerstore is the real pstoremem behind a pass-through (slowPS) that counts
// and optionally delays the calls about the byzantine peer; it changes no result.
// BYZANTINE peer: a real swarm/transport/upgrader node WITHOUT basic host; its /ipfs/id/1.0.0 and /ipfs/id/push/1.0.0
// behaviour is a generator (gen.go): the harness negotiates multistream itself and writes hand-made, varint-delimited
// identify protobufs. Connections byz->observer are dialled through byz's real TCP transport + upgrader directly
// (Transport.Dial): the only way to hold SEVERAL connections to one peer (the swarm would reuse the first);
// optionally the first connection is dialled by the observer (Host.Connect) and served by byz's swarm.
// HONEST: H1, H2 real basic hosts connected to the observer; H3 known to the observer from its peerstore only
// (addresses, protocols, agent, key, certified record); U appears only inside byzantine messages.
//
// One run: 1-3 connections (each identify REQUEST of the observer answered by a drawn behaviour: message, stall
// after the protocol line, delay, reset, empty, truncated, half a message then silence, write+reset, decline, MUTE =
// the stream is accepted but multistream-select is never answered; in every silent behaviour byz keeps stream and
// connection open, without deadline, until the observer gives up), then 0-4 actions started as tasks: identify PUSH
// of a generated message on a drawn connection (same behaviours: a push stream that says nothing at all, one that
// negotiates and goes silent, half a message); close of one connection or of all of them, by byz or by the observer;
// honest H1 registering a protocol (its real identify pushes concurrently); the OBSERVER registering a protocol (its
// identify opens push streams to every peer; in a third of the runs byz mutes those too). An action starts at once, or when the
// observer's raw socket of a drawn connection reaches a drawn I/O call index (inside the handshake, the identify
// exchange or the push), or when the observer's identify makes its j-th peerstore call about byz, with that call
// held back for 0|400|1200 scheduler decisions (a pause at a chosen point of consumeMessage / Disconnected).
// In a fifth of the runs byz's identity is a fixed RSA key (peer ID does not embed the key) and in half of those the
// application forgets byz (Peerstore.RemovePeer) before the pushes, so that identify's "store the key we were sent"
// path is reached. Then quiescence (12 virtual seconds: past the identify timeouts), oracles, a clock advance with
// the remaining connections, the final closes, a last advance past RecentlyConnectedAddrTTL.
//
// Oracles (all at quiescent instants; readings of the statement, the weaker one where it is silent):
//
//	cross-talk/<peer>  the observer's peerstore entries (Addrs, Protocols, key, AgentVersion, ProtocolVersion, certified
//	                  record, membership in PeersWithKeys/PeersWithAddrs) of H1, H2, H3, U and the set of peers known are
//	                  identical before/after the byzantine activity (H1 may have gained the protocol it announced
//	                  itself); the observer's own entry keeps its key and gains no address from a byzantine message.
//	pubkey-mismatch   the key stored for byz, if any, hashes to byz's ID.
//	addr-not-vouched  Addrs(byz) ⊆ pre-existing ∪ vouched, where vouched (computed by the generator BY CONSTRUCTION,
//	                  not by asking the code under test) = unsigned lists of every message sent (all chunks) ∪ addresses
//	                  of records sealed by byz's own key for byz's own ID under the peer-record domain and left intact.
//	                  WEAKER than "a signed list replaces the unsigned list": the statement only forbids using a record
//	                  that does not validate. For an address with a trailing /p2p/<id> the bare form is accepted too.
//	foreign-suffix-stored  no stored address of byz ends in /p2p/<other peer>.
//	protocol-cap / address-cap  len(Protocols(byz)) <= 1024, len(Addrs(byz)) <= 500 + pre-existing (the documented
//	                  constants maxPeerProtocols / connectedPeerMaxAddrs of id.go, as upper bounds only; opts.go documents
//	                  no option for them). The protocol cap is only observable when pstoremem's own limit (128) is
//	                  raised: half of the runs build the observer's peerstore with WithMaxProtocols(1<<20).
//	unconnected-address-cap/single-batch  the observer's address book is built with pstoremem.WithMaxAddressesPerPeer(n),
//	                  n drawn 64|32|100 ("caps the unconnected addresses stored per peer. When the cap is full, adding a
//	                  new addr evicts the unconnected entry with the nearest expiry"). Reading: ADDING (one by one or as
//	                  one batch) must not take a peer that is at or below n above n. Premise, from the harness's own model
//	                  (singleBatchPremise): a message M was consumed while the observer had, and ever after has, no
//	                  connection to byz, and pre-existing short-lived addresses + everything all OTHER written messages
//	                  vouch for is <= n. Then at a quiescent instant without connection at most n non-permanent addresses
//	                  are kept. Message list sizes sit around the caps (20/21, 60/64/65/100, 499/500/501/700/900); a sixth
//	                  of the runs uses the template "one connection, plain message with 65|100|499|500|700|60|64 used
//	                  addresses as push or response, close started at consumeMessage's first peerstore call which is
//	                  held back until Disconnected has run". The global bound (address-cap: <= 500 beyond pre-existing
//	                  at EVERY quiescent check, connected or not) is independent of it.
//	address-cap-after-disconnect  after the final close of the last connection AT QUIESCENCE at most 20 addresses
//	                  beyond the pre-existing ones remain (recentlyConnectedPeerMaxAddrs: "number of addresses to keep
//	                  for peers we have disconnected from"). Not asserted when the last close raced with activity: a
//	                  message consumed after the disconnect may legally add more.
//	addr-lost-while-connected   if the OBSERVER provably held the first connection without a gap (never closed, and
//	                  its Connected notification on the observer precedes the start of every close of, and of every
//	                  send on, another connection: see connectedWithoutGap. That byz's dial of it returned first is NOT
//	                  enough: the observer may register a later connection first and then rightly treats the close of
//	                  that one as a last disconnect — an earlier version of this harness raised a false alarm there),
//	                  every address present at quiescence (minus harness-inserted short-TTL ones) is still returned by
//	                  Addrs after RecentlyConnectedAddrTTL + 2 min (enough to tell any finite, downgraded lifetime from
//	                  the connected one) or, in 1/8 of the runs, 2 h. In half of the runs all other connections are
//	                  closed at quiescence first (non-last disconnects).
//	addr-kept-after-disconnect  after every connection is closed, RecentlyConnectedAddrTTL + 2 min later Addrs(byz)
//	                  ⊆ addresses the harness inserted with PermanentAddrTTL. (Addrs() filters expiry, so this does
//	                  not depend on address-book GC.)
//	identify-wait-not-released  for every connection the observer's swarm announced (Connected notifee), the channel of
//	                  IdentifyWait(conn) closes within 15 s (5 s timeout for opening + 5 s stream deadline + slack),
//	                  also when the connection closes mid-identify, the responder stalls or declines.
//	                  The bound is in virtual time, which only advances when every task is blocked: held peerstore
//	                  calls and the slow-peerstore stratum cost scheduler decisions, not time, so no stratum makes it
//	                  unsound (StallPermille is 0). A wait younger than the bound at the first check is judged at the end.
//	identify-wait-not-released/service-closing  end-of-run variant (half of the runs): after everything else has been
//	                  judged, 1-3 new byz connections are dialled at drawn positions while the observer closes only its
//	                  identify service (IDService().Close(), network stays up) or the whole host (Host.Close closes the
//	                  identify service BEFORE the network); the close starts at once, after drawn yields, or at a drawn
//	                  I/O call of the first new connection's socket (inside its handshake / identify exchange). The
//	                  liveness clause has no exception for a closing service: every channel IdentifyWait returned for a
//	                  connection admitted before / during / after the close is closed within the same 15 s, both for the
//	                  first IdentifyWait made at Connected (the service's own handler or the harness) and for one the
//	                  harness makes after the close returned (lazy runs). Nothing else about a closed service is asserted.
//	identify-stream-left/<dir>-<proto>  identify.DefaultTimeout is documented "for all id interactions, incoming /
//	                  outgoing, id / id-push": RecentlyConnectedAddrTTL + 2 min after the last activity the observer holds
//	                  no open /ipfs/id/1.0.0 or /ipfs/id/push/1.0.0 stream (either direction) on a connection to byz that is
//	                  still open, whatever byz did with it. This is how a wedged sendPushes / handlePush shows, which
//	                  no IdentifyWait channel depends on.
//	event-*           EvtPeerIdentificationCompleted: Peer == Conn.RemotePeer(); an event carrying a byzantine tag
//	                  names byz and the very connection that message was sent on, at most once per send; an event for
//	                  an honest peer carries that peer's agent string. EvtPeerIdentificationFailed names only peers
//	                  that had a connection, and never an honest peer (their links are fault-free).
//
// HARNESS ARTEFACTS AUDITED. (A) observer effect: every state read (snapPeer on the real pstoremem: PeersWithKeys,
// PeersWithAddrs, Addrs, GetProtocols, Get, GetPeerRecord, Peers; Swarm.ConnsToPeer, Conn.GetStreams/Stat) was read in
// the implementation: read locks only, no clean-up, no write-back; the one caching read, KeyBook.PubKey (stores a key
// extracted from the ID), is only called for peers already listed by PeersWithKeys; reads go to the real pstoremem, not
// through the counting pass-through, and only at quiescent instants. The exception was IdentifyWait: it creates the
// service's entry for a connection and STARTS identify; called at every Connected it made the harness, not the
// service's own Connected handler, the possible starter of every exchange. In half of the runs (lazyIdentifyWait) it is
// now called only after the activity has been judged. (B) warm-up: H1 and H2 used to connect and be identified before
// byz in EVERY run, so the observer's first connection / first identify exchange / first push never met byzantine
// behaviour. A third of the runs is now COLD: byz is the first contact, the honest peers connect afterwards and their
// entries are checked against what they announce (class cross-talk/<H>-identified-after-byz). Dropped in cold runs:
// only the before/after equality of H1/H2 (replaced by "nothing is known about them" until they connect).
//
// OBSERVATION (probe observed-disconnected-peer-above-unconnected-cap, never a violation; decision of the lead: the
// statement says "capped" without a figure and 500, the connected cap, is never exceeded): a disconnected peer can keep
// up to 500 addresses at RecentlyConnectedAddrTTL although the address book's per-peer cap for unconnected addresses
// is n (32|64|100). Root cause, pstoremem/addr_book.go: (1) UpdateAddrs moving entries out of the connected class
// (ConnectedAddrTTL -> Temp/RecentlyConnected) never enforces maxAddrsPerPeer; (2) addAddrsUnlocked evicts exactly ONE
// entry per insert ("count >= cap"), so an entry that is above the cap stays above it; (3) the TTL-upgrade path for
// an address already present has no cap check. Identify normally hides (1) because Disconnected trims to 20 itself;
// it shows when a message with > n addresses is consumed between the swarm dropping the LAST connection and its
// Disconnected notification, after another message with > n addresses was stored while connected. API level:
// AddAddrs(p,500,ConnectedAddrTTL); UpdateAddrs(p,Connected,Temp); AddAddrs(p,100,RecentlyConnected);
// UpdateAddrs(p,Temp,0) => 100 kept with WithMaxAddressesPerPeer(32); AddAddrs(p,500,Connected);
// UpdateAddrs(p,Connected,RecentlyConnected) => 500 kept. About 1 run in 10 000.
//
// A refused push / failed identify (rate limit, oversized chunk, >9 chunks, reset, timeout) is always legal: every
// oracle is an upper bound on what may be recorded.
//
// MUTATIONS TRIED (one at a time, on a private copy of the instrumented overlay; 6 workers x 40 s; "n/6" = workers
// that reported the class, all within the first ~100 runs of a worker unless noted):
//
//	consumeSignedPeerRecord: rec.PeerID != p check removed ................ 6/6 C13/addr-not-vouched
//	consumeSignedPeerRecord: envelope signer != p check removed ............ 6/6 C13/addr-not-vouched
//	signedPeerRecordFromMessage: envelope unmarshalled without validation .. 6/6 C13/addr-not-vouched
//	record failing the peer checks still used for its addresses ............ 6/6 C13/addr-not-vouched
//	consumeMessage: p taken from the message's public key .................. 6/6 C13/cross-talk/{H1,H2,H3,U,peer-set,self-addr}
//	record addresses stored under rec.PeerID ............................... 6/6 C13/cross-talk/{...}
//	Disconnected: no downgrade on the last disconnect ...................... 6/6 C13/addr-kept-after-disconnect (+ address-cap-after-disconnect)
//	Disconnected: downgrade also on a non-last disconnect .................. 6/6 C13/addr-lost-while-connected (4/4 again after the eligibility rule was tightened)
//	maxPeerProtocols truncation removed .................................... 6/6 C13/protocol-cap
//	connectedPeerMaxAddrs truncation removed ............................... 6/6 C13/address-cap
//	recentlyConnectedPeerMaxAddrs truncation removed ....................... 6/6 C13/address-cap-after-disconnect
//	IdentifyWait channel closed only on success ............................ 6/6 C13/identify-wait-not-released
//	EvtPeerIdentificationFailed emitted with the LOCAL peer ................ 6/6 C13/event-failed-wrong-peer
//	consumeReceivedPubKey ID check removed AND pstoremem key book check
//	  removed (two sites) .................................................. 6/6 C13/pubkey-mismatch (RSA + wipe stratum, ~8 s)
//	consumeReceivedPubKey ID check removed alone ........................... MISSED, by construction: pstoremem's
//	  AddPubKey refuses a key that does not match the ID, and with a key already stored identify only compares; the
//	  mutant is equivalent as far as the peerstore can tell (defence in depth).
//	second-round seed C13b: stream deadline moved out of newStreamAndNegotiate/handlePush into the message
//	  handlers, so the outbound multistream negotiation is unbounded (real patch, run through VERIF_REPO on a
//	  scratch copy) ........................................................ C13/identify-wait-not-released (run 0),
//	  C13/identify-stream-left/outbound-id and /outbound-id-push (wedged sendPushes); was MISSED before the MUTE
//	  behaviour existed (byz always answered multistream-select)
//	third-round seed C13c-1: pstoremem addAddrsUnlocked evaluates the per-peer cap once per batch (real patch through
//	  VERIF_REPO) ........................................................... C13/unconnected-address-cap/single-batch
//	  (run 176 of a 45 s / 8 worker quick run; MISSED before: no oracle looked at the unconnected cap)
//	fourth-round seed C13d-1: IdentifyWait returns the freshly created channel without starting identify once the
//	  service's context is cancelled (real patch through VERIF_REPO) ......... C13/identify-wait-not-released/service-closing
//	  (run 32 of a 45 s / 8 worker quick run; MISSED before: the observer was only ever closed after every connection)
//	Disconnected without addrMu (race) ..................................... 6/6 C13/addr-kept-after-disconnect (needs the held peerstore call)
//	consumeMessage reads Connectedness before taking addrMu (race with a
//	  two-decision window, nothing to hold) ................................ 1/8 workers in 50 s in two of three attempts
package c13

import (
	"context"
	"fmt"
	"io"
	"net"
	"sort"
	"strings"
	"testing"
	"time"

	"github.com/libp2p/go-libp2p/core/crypto"
	"github.com/libp2p/go-libp2p/core/event"
	"github.com/libp2p/go-libp2p/core/network"
	"github.com/libp2p/go-libp2p/core/peer"
	"github.com/libp2p/go-libp2p/core/peerstore"
	"github.com/libp2p/go-libp2p/core/protocol"
	"github.com/libp2p/go-libp2p/core/record"
	"github.com/libp2p/go-libp2p/core/transport"
	basichost "github.com/libp2p/go-libp2p/p2p/host/basic"
	"github.com/libp2p/go-libp2p/p2p/host/eventbus"
	"github.com/libp2p/go-libp2p/p2p/host/peerstore/pstoremem"
	"github.com/libp2p/go-libp2p/p2p/protocol/identify"
	ma "github.com/multiformats/go-multiaddr"
	msmux "github.com/multiformats/go-multistream"

	"verifsim/harness/common"
	"verifsim/simhost"
	"verifsim/simnet"
	"verifsim/simrt"
)

func TestSim(t *testing.T) { common.Main(t, common.Harness{Property: "C13", Run: run}) }

// Documented bounds (doc comments of the constants in p2p/protocol/identify/id.go), used as upper bounds only.
const (
	capProtocols          = 1024 // "maximum number of protocols we store for a remote peer"
	capAddrsConnected     = 500  // connectedPeerMaxAddrs
	capAddrsRecentlyConn  = 20   // "number of addresses to keep for peers we have disconnected from"
	identifyTimeout       = identify.DefaultTimeout
	identifyWaitBound     = 2*identifyTimeout + 5*time.Second
	quiesce               = 12 * time.Second // > identify timeout for opening + stream deadline
	honestAgentPrefix     = "honest/"
	observerAgent         = "observer/1"
	maxPushesPerRun       = 4  // documented push rate limit: burst 10 per /24
	maxTriggerCreation    = 45 // a whole connection (handshake + identify) is 20-35 I/O calls on the observer's socket
	maxTriggerDuringPhase = 20 // a push is 8-15
	maxTriggerPeerstore   = 10 // consumeMessage makes 8 of the counted peerstore calls
)

// ---- plan ---------------------------------------------------------------------------------

const (
	modeRespond = iota
	modeStall
	modeDelay
	modeReset
	modeEmpty
	modeTruncated
	modeHalfThenStall
	modeWriteThenReset
	modeDecline
	modeMute // accept the stream, never answer multistream-select, keep stream and connection open
	nModes
)

var modeNames = []string{"respond", "stall", "delay", "reset", "empty", "truncated", "half-then-stall", "write-then-reset", "decline", "mute"}

var delays = []time.Duration{time.Second, 4900 * time.Millisecond, 5100 * time.Millisecond, 9 * time.Second}

type sendPlan struct {
	mode     int
	delay    time.Duration
	coalesce bool
	msg      *genMsg
}

func (s sendPlan) String() string {
	d := ""
	if s.mode == modeDelay {
		d = " " + s.delay.String()
	}
	return fmt.Sprintf("%s%s coalesce=%v [%s]", modeNames[s.mode], d, s.coalesce, s.msg.desc)
}

type connPlan struct {
	outbound bool // dialled by the observer (first connection only)
	resp     sendPlan
	gap      int // after this dial: 0 continue at once, 1 wait for quiescence, 2 one virtual second
}

const (
	actPush = iota
	actClose
	actCloseAll
	actHonestPush   // honest H1 registers a protocol handler: its real identify pushes the new protocol list to the observer
	actObserverPush // the OBSERVER registers a protocol handler: its identify opens push streams to every peer, byz included
)

const observerExtraProto = "/observer/extra/1"

const honestExtraProto = "/h1/extra/1"

type trigPlan struct {
	io       bool // start when the observer's raw socket of conn reaches an I/O call index
	ps       bool // start when the observer's identify makes its j-th peerstore call about byz (see slowPS)
	conn     int
	creation bool // count from the creation of the raw connection / from the start (else from the start of the action phase)
	j        int
	hold     int // ps only: scheduler yields the peerstore call that fires the trigger is held back (a pause at a chosen point of consumeMessage / Disconnected)
}

func (t trigPlan) String() string {
	base := "since action phase"
	if t.creation {
		base = "since creation"
	}
	switch {
	case t.io:
		return fmt.Sprintf("at I/O call %d (%s) of observer's socket of conn %d", t.j, base, t.conn)
	case t.ps:
		return fmt.Sprintf("at the observer's peerstore call %d about byz (%s), holding that call for %d yields", t.j, base, t.hold)
	}
	return "at once"
}

type actPlan struct {
	kind   int
	conn   int
	byObs  bool // close performed by the observer's side
	send   sendPlan
	trig   trigPlan
	yields int // extra scheduler yields before starting (fine positioning)
}

func (a actPlan) String() string {
	side := "byz"
	if a.byObs {
		side = "observer"
	}
	switch a.kind {
	case actPush:
		return fmt.Sprintf("push on conn %d %s: %s", a.conn, a.trig, a.send)
	case actClose:
		return fmt.Sprintf("close conn %d by %s %s", a.conn, side, a.trig)
	case actObserverPush:
		return fmt.Sprintf("observer adds protocol %s (its identify pushes to every peer) %s", observerExtraProto, a.trig)
	case actHonestPush:
		return fmt.Sprintf("honest H1 adds protocol %s (its identify pushes to the observer) %s", honestExtraProto, a.trig)
	}
	return fmt.Sprintf("close ALL by %s %s", side, a.trig)
}

// endPlan is the end-of-run variant "the identify service goes away while connections still arrive".
type endPlan struct {
	kind    int   // 0 none, 1 only the identify service is closed (IDService().Close(), network stays up), 2 Host.Close()
	dials   []int // scheduler yields before each new byz dial starts
	closeIO int   // > 0: the close starts when the observer's socket of the FIRST new connection makes this I/O call
	closeY  int   // else: scheduler yields before the close starts
	resp    sendPlan
}

type plan struct {
	sec         string
	link        simnet.LinkMode
	latency     bool
	bigProtos   bool // observer's peerstore accepts > 128 protocols
	cold        bool // byz is the observer's FIRST contact: the honest peers connect only after the byzantine activity
	lazyWait    bool // the harness calls IdentifyWait (which itself starts identify) only after the activity has been judged
	end         endPlan
	late        bool // template "message consumed after the last disconnect" (see drawPlan)
	perPeer     int  // observer's peerstore is built with pstoremem.WithMaxAddressesPerPeer(perPeer)
	muteObsPush bool // byz never answers multistream-select on the streams the observer opens after its identify request (the observer's own pushes) and keeps them open
	rsaByz      bool // byz's identity is an RSA key: its peer ID does not embed the public key
	wipe        bool // rsaByz only: the application forgets byz (Peerstore.RemovePeer) before the action phase, so the
	//              observer holds NO key for byz while identify messages carrying keys arrive
	slow     int // scheduler yields the observer's peerstore spends in every call about byz ("slow peerstore")
	byzIP    string
	pre      int // 0 nothing, 1 byz listen addr permanent, 2 byz listen addr + one more with TempAddrTTL
	conns    []connPlan
	overlap  bool // do not wait for quiescence between the connection phase and the action phase
	acts     []actPlan
	longAdv  bool // 2 h instead of RecentlyConnectedAddrTTL + 2 min
	trim     bool // close all but the first connection (at quiescence) before the long advance
	finalObs bool // final closes by the observer
}

func drawSend(g simrt.Gen, w *world, idx *int, push bool, over int) sendPlan {
	var s sendPlan
	if push {
		s.mode = g.Weighted(12, 1, 1, 1, 1, 1, 1, 1, 0, 1)
	} else {
		s.mode = g.Weighted(12, 2, 2, 1, 1, 1, 1, 1, 1, 2)
	}
	if s.mode == modeDelay {
		s.delay = delays[g.Int(len(delays))]
	}
	s.coalesce = g.Bool()
	s.msg = genMessage(g, w, *idx, over)
	*idx++
	return s
}

func drawPlan(g simrt.Gen) (*plan, *world) {
	p := &plan{}
	p.sec = []string{"noise", "insecure"}[g.Weighted(3, 1)]
	p.link = []simnet.LinkMode{simnet.Whole, simnet.Fragment}[g.Weighted(2, 1)]
	p.latency = g.Chance(1, 3)
	p.bigProtos = g.Bool()
	p.perPeer = []int{64, 32, 100}[g.Weighted(3, 1, 1)]
	p.cold = g.Chance(1, 3)
	p.lazyWait = g.Bool()
	p.slow = []int{0, 10, 40, 150}[g.Weighted(3, 2, 2, 1)]
	p.byzIP = []string{"10.0.1.2", "44.1.1.2"}[g.Weighted(3, 1)]
	p.pre = g.Weighted(2, 2, 1)
	p.rsaByz = g.Chance(1, 5)
	p.muteObsPush = g.Chance(1, 3)
	p.wipe = p.rsaByz && g.Bool()
	w := newWorld(p.byzIP, p.rsaByz)
	midx := 0
	nconn := 1 + g.Weighted(3, 3, 2)
	for i := 0; i < nconn; i++ {
		var c connPlan
		if i == 0 {
			c.outbound = g.Chance(1, 4)
			if c.outbound && p.pre == 0 {
				p.pre = 1 // the observer needs an address to dial
			}
		}
		c.resp = drawSend(g, w, &midx, false, 0)
		c.gap = g.Weighted(2, 3, 1)
		p.conns = append(p.conns, c)
	}
	p.overlap = g.Chance(1, 3) && !p.wipe
	nact := g.Weighted(1, 3, 4, 3, 2)
	pushes, lastPushConn, honestPush, observerPush := 0, -1, false, false
	for i := 0; i < nact; i++ {
		var a actPlan
		a.kind = g.Weighted(6, 4, 2, 1, 1)
		if (a.kind == actHonestPush && honestPush) || (a.kind == actObserverPush && observerPush) {
			a.kind = actPush
		}
		if a.kind == actHonestPush {
			honestPush = true
		}
		if a.kind == actObserverPush {
			observerPush = true
		}
		if a.kind == actPush && pushes >= maxPushesPerRun {
			a.kind = actClose
		}
		a.conn = g.Int(nconn)
		a.byObs = g.Bool()
		if a.kind == actPush {
			pushes++
			lastPushConn = a.conn
			a.send = drawSend(g, w, &midx, true, 0)
		}
		switch g.Weighted(2, 4, 3) {
		case 2:
			a.trig.ps = true
			a.trig.creation = a.kind != actPush && lastPushConn < 0 && g.Chance(1, 2)
			a.trig.j = 1 + g.Int(maxTriggerPeerstore)
			a.trig.hold = []int{0, 400, 1200}[g.Weighted(1, 2, 1)]
		case 1:
			a.trig.io = true
			a.trig.conn = g.Int(nconn)
			if a.kind != actPush && lastPushConn >= 0 && !g.Chance(1, 3) {
				// position the close by the traffic of the connection the previous push travels on
				a.trig.conn = lastPushConn
			}
			a.trig.creation = a.kind != actPush && lastPushConn < 0 && g.Chance(1, 2)
			if a.trig.creation {
				a.trig.j = 1 + g.Int(maxTriggerCreation)
			} else {
				a.trig.j = 1 + g.Int(maxTriggerDuringPhase)
			}
		}
		a.yields = g.Weighted(4, 1, 1, 1) * g.Range(1, 20)
		p.acts = append(p.acts, a)
	}
	// "consumed after the last disconnect" template (1/6 of the runs): one connection; a plain message whose USED
	// address list has a size around the caps, as push or as the identify response; the close of the connection starts
	// when consumeMessage makes its first peerstore call (GetProtocols), which is held back long enough for the swarm
	// to drop the connection and for Disconnected to run: the message is then consumed for a peer without connection.
	if g.Chance(1, 6) {
		p.late = true
		over := []int{65, 100, 499, 500, 700, 60, 64}[g.Int(7)]
		p.conns = p.conns[:1]
		cl := actPlan{kind: []int{actClose, actCloseAll}[g.Int(2)], byObs: g.Bool()}
		cl.trig = trigPlan{ps: true, j: 1, hold: []int{1200, 2500}[g.Int(2)]}
		if g.Bool() {
			p.overlap = false
			pu := actPlan{kind: actPush, send: drawSend(g, w, &midx, true, over)}
			pu.send.mode = modeRespond
			p.acts = []actPlan{pu, cl}
		} else {
			p.conns[0].resp = drawSend(g, w, &midx, false, over)
			p.conns[0].resp.mode = modeRespond
			cl.trig.creation = true
			p.acts = []actPlan{cl}
		}
	}
	p.end.kind = g.Weighted(2, 1, 1)
	if p.end.kind != 0 {
		for i, n := 0, 1+g.Int(3); i < n; i++ {
			p.end.dials = append(p.end.dials, g.Weighted(2, 1, 1)*g.Range(1, 60))
		}
		if g.Weighted(1, 2) == 1 {
			p.end.closeIO = 1 + g.Int(maxTriggerCreation)
		} else {
			p.end.closeY = g.Weighted(1, 2) * g.Range(1, 120)
		}
		p.end.resp = drawSend(g, w, &midx, false, 0)
		p.end.resp.mode = []int{modeRespond, modeStall, modeMute}[g.Weighted(3, 1, 1)]
	}
	p.longAdv = g.Chance(1, 8)
	p.trim = g.Bool()
	p.finalObs = g.Bool()
	return p, w
}

// ---- execution state ------------------------------------------------------------------------

type bstream interface {
	io.ReadWriteCloser
	CloseWrite() error
	Reset() error
	SetDeadline(time.Time) error
}

// bconn is the byzantine side of one connection.
type bconn struct {
	idx        int
	raw        transport.CapableConn // dialled through the transport
	sw         network.Conn          // accepted by byz's swarm (observer dialled)
	ready      chan struct{}
	failed     bool
	closed     bool   // a close by either side was started
	closeStamp uint64 // taken BEFORE the close call
	streams    int    // streams the observer opened on this connection so far
	resp       sendPlan
	local      ma.Multiaddr
	remote     ma.Multiaddr
}

func (c *bconn) openStream(ctx context.Context) (bstream, error) {
	if c.raw != nil {
		return c.raw.OpenStream(ctx)
	}
	return c.sw.NewStream(ctx)
}

func (c *bconn) close() {
	if c.raw != nil {
		c.raw.Close()
	} else if c.sw != nil {
		c.sw.Close()
	}
}

type obsConn struct {
	c            network.Conn
	connected    uint64
	disconnected uint64
	waitReleased bool
	waitStarted  bool
	waitStart    time.Duration // virtual time of the IdentifyWait call
	waitTimedOut bool
	waitTook     time.Duration
}

type evRec struct {
	stamp     uint64
	completed *event.EvtPeerIdentificationCompleted
	failed    *event.EvtPeerIdentificationFailed
}

type sendRec struct {
	msg        *genMsg
	conn       int
	push       bool
	mode       int
	start, end uint64
	outcome    string
	wrote      bool // at least one byte of the message was handed to the stream
}

type trigger struct {
	at    int
	hold  int
	fire  func()
	done  bool
	fired bool
}

type rawPair struct {
	obsEnd *simnet.Conn
	trig   []*trigger
}

type exec struct {
	o    *common.Outcome
	w    *world
	pl   *plan
	n    *simnet.Net
	O, B *simhost.Node
	H    []*simhost.Node

	conns        []*bconn
	obsConns     []*obsConn
	events       []evRec
	sends        []*sendRec
	raws         []*rawPair
	ps           peerstore.Peerstore // the observer's real pstoremem (harness reads go here, not through slowPS)
	psArmed      bool
	psCalls      int
	psTrig       []*trigger
	psLog        []psCall
	pending      int
	muxFull      *msmux.MultistreamMuxer[protocol.ID]
	muxNoID      *msmux.MultistreamMuxer[protocol.ID]
	phaseB       bool
	endPhase     bool
	endFire      func()
	endConns     []*bconn
	endPending   int
	honestPushed bool
	quiet        bool // past the first quiescent check: closes from here on race with nothing
	fired        int
	preAll       map[string]bool
	prePerm      map[string]bool
	preShort     map[string]bool
	completed    map[string]int // tag -> completed events
}

func (x *exec) logf(format string, a ...any) { x.o.Logf(format, a...) }

func settle(d time.Duration) {
	simrt.WaitIdle()
	simrt.TimeSleep(d)
	simrt.WaitIdle()
}

// ---- the observer's peerstore: real pstoremem behind a pass-through that can be slow -----------------------
//
// slowPS delegates everything to the real memory peerstore. For calls about the byzantine peer it (a) counts them,
// so that a close can be positioned INSIDE consumeMessage / Disconnected, (b) spends a drawn number of scheduler
// yields first, which widens the windows between identify's peerstore calls the way a slow (datastore-backed)
// peerstore would, and (c) logs them for the "disconnect during consumeMessage" probe. It changes no result.

type psCall struct {
	op    string
	stamp uint64 // when the call arrived at the pass-through
	after uint64 // when it was let through to the real peerstore (after the slow / held yields)
	tag   string // Put:AgentVersion only: tag of the byzantine message whose agent string is being stored
}

type slowPS struct {
	peerstore.Peerstore
	cab peerstore.CertifiedAddrBook
	x   *exec
}

func (s *slowPS) hook(op string, p peer.ID) { s.hookTag(op, p, "") }

func (s *slowPS) hookTag(op string, p peer.ID, tag string) {
	x := s.x
	if p != x.w.byz.id || !x.psArmed {
		return
	}
	x.psCalls++
	logged := -1
	if len(x.psLog) < 4000 {
		logged = len(x.psLog)
		x.psLog = append(x.psLog, psCall{op: op, stamp: simrt.Stamp(), tag: tag})
	}
	defer func() {
		if logged >= 0 {
			x.psLog[logged].after = simrt.Stamp()
		}
	}()
	hold := 0
	for _, tr := range x.psTrig {
		if !tr.done && x.psCalls >= tr.at {
			tr.done, tr.fired = true, true
			tr.fire()
			if tr.hold > hold {
				hold = tr.hold
			}
		}
	}
	for i := 0; i < x.pl.slow+hold; i++ {
		simrt.Yield("c13-slow-peerstore")
	}
}

func (s *slowPS) ConsumePeerRecord(e *record.Envelope, ttl time.Duration) (bool, error) {
	return s.cab.ConsumePeerRecord(e, ttl)
}
func (s *slowPS) GetPeerRecord(p peer.ID) *record.Envelope { return s.cab.GetPeerRecord(p) }
func (s *slowPS) AddAddrs(p peer.ID, a []ma.Multiaddr, ttl time.Duration) {
	s.hook("AddAddrs", p)
	s.Peerstore.AddAddrs(p, a, ttl)
}
func (s *slowPS) UpdateAddrs(p peer.ID, o, n time.Duration) {
	s.hook("UpdateAddrs", p)
	s.Peerstore.UpdateAddrs(p, o, n)
}
func (s *slowPS) Addrs(p peer.ID) []ma.Multiaddr {
	s.hook("Addrs", p)
	return s.Peerstore.Addrs(p)
}
func (s *slowPS) GetProtocols(p peer.ID) ([]protocol.ID, error) {
	s.hook("GetProtocols", p)
	return s.Peerstore.GetProtocols(p)
}
func (s *slowPS) SetProtocols(p peer.ID, pr ...protocol.ID) error {
	s.hook("SetProtocols", p)
	return s.Peerstore.SetProtocols(p, pr...)
}
func (s *slowPS) Put(p peer.ID, k string, v any) error {
	tag := ""
	if sv, ok := v.(string); ok && k == "AgentVersion" {
		tag = tagOf(sv)
	}
	s.hookTag("Put:"+k, p, tag)
	return s.Peerstore.Put(p, k, v)
}
func (s *slowPS) AddPubKey(p peer.ID, k crypto.PubKey) error {
	s.hook("AddPubKey", p)
	return s.Peerstore.AddPubKey(p, k)
}

// startWaiter calls IdentifyWait for a connection the observer's swarm announced and watches the channel.
func (x *exec) startWaiter(oc *obsConn) {
	if oc.waitStarted {
		return
	}
	oc.waitStarted = true
	ids := x.O.Host.IDService()
	simrt.GoNamed("c13-idwait", func() {
		t0 := simrt.Now()
		oc.waitStart = t0
		ch := ids.IdentifyWait(oc.c)
		tm := time.NewTimer(identifyWaitBound)
		defer tm.Stop()
		if simrt.Select("c13-idwait", false, simrt.RecvCase(ch), simrt.RecvCase(tm.C)) == 0 {
			oc.waitReleased = true
		} else {
			oc.waitTimedOut = true
		}
		oc.waitTook = simrt.Now() - t0
	})
}

func (x *exec) startWaiters() {
	for _, oc := range x.obsConns {
		x.startWaiter(oc)
	}
}

// ---- byzantine behaviour ------------------------------------------------------------------

func drain(s bstream) {
	buf := make([]byte, 512)
	for {
		if _, err := s.Read(buf); err != nil {
			return
		}
	}
}

// hold keeps a stream open without ever writing or resetting it: a task reads (without deadline) until the other
// side gives up or the connection goes away. It returns at once.
func (x *exec) hold(s bstream) {
	s.SetDeadline(time.Time{})
	simrt.GoNamed("byz-hold", func() {
		drain(s)
		s.Reset()
	})
}

// send executes a send plan on a negotiated stream.
func (x *exec) send(s bstream, sp sendPlan, conn int, push bool) {
	r := &sendRec{msg: sp.msg, conn: conn, push: push, mode: sp.mode, start: simrt.Stamp()}
	x.sends = append(x.sends, r)
	s.SetDeadline(time.Now().Add(30 * time.Second))
	write := func(chunks [][]byte) error {
		r.wrote = true
		if sp.coalesce {
			var all []byte
			for _, c := range chunks {
				all = append(all, c...)
			}
			_, err := s.Write(all)
			return err
		}
		for _, c := range chunks {
			if _, err := s.Write(c); err != nil {
				return err
			}
		}
		return nil
	}
	var err error
	switch sp.mode {
	case modeRespond:
		if err = write(sp.msg.chunks); err == nil {
			err = s.Close()
		}
	case modeDelay:
		simrt.TimeSleep(sp.delay)
		if err = write(sp.msg.chunks); err == nil {
			err = s.Close()
		}
	case modeStall, modeMute: // (mute on an already negotiated stream degenerates to a stall)
		x.hold(s)
	case modeReset:
		err = s.Reset()
	case modeEmpty:
		err = s.Close()
	case modeTruncated:
		var all []byte
		for _, c := range sp.msg.chunks {
			all = append(all, c...)
		}
		r.wrote = true
		if _, err = s.Write(all[:len(all)/2]); err == nil {
			err = s.Close()
		}
	case modeHalfThenStall:
		if len(sp.msg.chunks) >= 2 {
			err = write(sp.msg.chunks[:len(sp.msg.chunks)/2])
		} else { // half of the bytes of the only chunk
			r.wrote = true
			_, err = s.Write(sp.msg.chunks[0][:len(sp.msg.chunks[0])/2])
		}
		if err == nil {
			x.hold(s)
		}
	case modeWriteThenReset:
		if err = write(sp.msg.chunks); err == nil {
			err = s.Reset()
		}
	}
	if err != nil {
		s.Reset()
		r.outcome = "error"
	} else {
		r.outcome = "done"
	}
	r.end = simrt.Stamp()
}

// serve handles a stream opened by the observer towards the byzantine peer.
func (x *exec) serve(s bstream, c *bconn) {
	if c != nil {
		// the first stream the observer opens on a connection is (nearly always) its identify request; later ones
		// are its own identify pushes. A misattribution only swaps which stream is muted.
		c.streams++
		if c.streams == 1 && c.resp.mode == modeMute {
			x.sends = append(x.sends, &sendRec{msg: c.resp.msg, conn: c.idx, mode: modeMute, start: simrt.Stamp(), outcome: "held"})
			x.hold(s)
			return
		}
		if c.streams > 1 && x.pl.muteObsPush {
			x.o.Fault("observer-stream-muted")
			x.hold(s)
			return
		}
	}
	s.SetDeadline(time.Now().Add(30 * time.Second))
	mux := x.muxFull
	if c != nil && c.resp.mode == modeDecline {
		mux = x.muxNoID
	}
	proto, _, err := mux.Negotiate(s)
	if err != nil {
		s.Reset()
		return
	}
	switch proto {
	case identify.ID:
		if c == nil {
			s.Reset()
			return
		}
		x.send(s, c.resp, c.idx, false)
	default: // the observer's own identify push: read and drop
		drain(s)
		s.Close()
	}
}

func (x *exec) acceptLoop(c *bconn) {
	for {
		s, err := c.raw.AcceptStream()
		if err != nil {
			return
		}
		simrt.GoNamed(fmt.Sprintf("byz-serve%d", c.idx), func() { x.serve(s, c) })
	}
}

func (x *exec) push(a actPlan) {
	c := x.conns[a.conn]
	simrt.Recv("c13-ready", c.ready)
	if c.failed {
		x.logf("  push %s skipped: conn %d was never established", a.send.msg.tag, a.conn)
		return
	}
	ctx, cancel := context.WithTimeout(context.Background(), 10*time.Second)
	defer cancel()
	s, err := c.openStream(ctx)
	if err != nil {
		x.logf("  push %s on conn %d: cannot open stream", a.send.msg.tag, a.conn)
		return
	}
	if a.send.mode == modeMute {
		// open a stream towards the observer and say nothing at all
		x.sends = append(x.sends, &sendRec{msg: a.send.msg, conn: a.conn, push: true, mode: modeMute, start: simrt.Stamp(), outcome: "held"})
		x.hold(s)
		return
	}
	s.SetDeadline(time.Now().Add(30 * time.Second))
	if err := msmux.SelectProtoOrFail(protocol.ID(identify.IDPush), s); err != nil {
		x.logf("  push %s on conn %d: negotiation failed", a.send.msg.tag, a.conn)
		s.Reset()
		return
	}
	x.send(s, a.send, a.conn, true)
}

func (x *exec) findObsConn(c *bconn) network.Conn {
	for _, oc := range x.O.Swarm.ConnsToPeer(x.w.byz.id) {
		if c.local != nil && oc.RemoteMultiaddr().Equal(c.local) && oc.LocalMultiaddr().Equal(c.remote) {
			return oc
		}
	}
	return nil
}

func (x *exec) closeConn(c *bconn, byObs bool, why string) {
	c.closed = true
	if c.closeStamp == 0 {
		c.closeStamp = simrt.Stamp()
	}
	if !x.quiet {
		x.o.Fault("close-during-activity")
	}
	if byObs {
		if oc := x.findObsConn(c); oc != nil {
			x.logf("  [%d] observer closes conn %d (%s)", simrt.Stamp(), c.idx, why)
			oc.Close()
			return
		}
		x.logf("  conn %d not (yet/any more) in the observer's swarm: byz closes instead", c.idx)
	}
	x.logf("  [%d] byz closes conn %d (%s)", simrt.Stamp(), c.idx, why)
	c.close()
}

func (x *exec) doAction(k int, a actPlan) {
	defer func() { x.pending-- }()
	for i := 0; i < a.yields; i++ {
		simrt.Yield("c13-position")
	}
	switch a.kind {
	case actPush:
		x.push(a)
	case actClose:
		c := x.conns[a.conn]
		simrt.Recv("c13-ready", c.ready)
		x.closeConn(c, a.byObs, fmt.Sprintf("action %d", k))
	case actObserverPush:
		x.logf("  [%d] observer registers %s", simrt.Stamp(), observerExtraProto)
		x.O.Host.SetStreamHandler(observerExtraProto, func(s network.Stream) { s.Reset() })
	case actHonestPush:
		x.honestPushed = true
		x.logf("  [%d] H1 registers %s", simrt.Stamp(), honestExtraProto)
		x.H[0].Host.SetStreamHandler(honestExtraProto, func(s network.Stream) { s.Reset() })
	case actCloseAll:
		for _, c := range x.conns {
			simrt.Recv("c13-ready", c.ready)
		}
		if a.byObs {
			for _, c := range x.conns {
				c.closed = true
				if c.closeStamp == 0 {
					c.closeStamp = simrt.Stamp()
				}
			}
			x.o.Fault("close-during-activity")
			x.logf("  [%d] observer closes all connections to byz (action %d)", simrt.Stamp(), k)
			x.O.Swarm.ClosePeer(x.w.byz.id)
			// connections the observer's swarm does not list yet are closed by byz
			for _, c := range x.conns {
				c.close()
			}
			return
		}
		for _, c := range x.conns {
			x.closeConn(c, false, fmt.Sprintf("action %d, all", k))
		}
	}
}

func (x *exec) startAction(k int, a actPlan) {
	x.pending++
	x.fired++
	simrt.GoNamed(fmt.Sprintf("c13-act%d", k), func() { x.doAction(k, a) })
}

// ---- peerstore snapshots ----------------------------------------------------------------------

type peerSnap struct {
	inKeys, inAddrs bool
	key             string
	addrs, protos   []string
	agent, pv       string
	rec             string
}

func (s peerSnap) String() string {
	return fmt.Sprintf("{keys=%v key=%s addrs=%v protos=%v agent=%q pv=%q rec=%s}", s.inKeys, s.key, s.addrs, s.protos, s.agent, s.pv, s.rec)
}

func short(b []byte) string {
	if len(b) == 0 {
		return "-"
	}
	h := uint64(14695981039346656037)
	for _, c := range b {
		h = (h ^ uint64(c)) * 1099511628211
	}
	return fmt.Sprintf("#%x/%d", h&0xffffff, len(b))
}

func snapPeer(ps peerstore.Peerstore, p peer.ID) peerSnap {
	var s peerSnap
	// PubKey(p) of the memory key book CACHES a key extracted from the ID: ask for membership first so that
	// taking the snapshot does not change what it measures.
	for _, q := range ps.PeersWithKeys() {
		if q == p {
			s.inKeys = true
		}
	}
	if s.inKeys {
		if k := ps.PubKey(p); k != nil {
			b, _ := crypto.MarshalPublicKey(k)
			s.key = short(b)
		}
	}
	for _, q := range ps.PeersWithAddrs() {
		if q == p {
			s.inAddrs = true
		}
	}
	for _, a := range ps.Addrs(p) {
		s.addrs = append(s.addrs, a.String())
	}
	sort.Strings(s.addrs)
	pr, _ := ps.GetProtocols(p)
	for _, q := range pr {
		s.protos = append(s.protos, string(q))
	}
	sort.Strings(s.protos)
	if v, err := ps.Get(p, "AgentVersion"); err == nil {
		s.agent = fmt.Sprint(v)
	}
	if v, err := ps.Get(p, "ProtocolVersion"); err == nil {
		s.pv = fmt.Sprint(v)
	}
	if cab, ok := peerstore.GetCertifiedAddrBook(ps); ok {
		if env := cab.GetPeerRecord(p); env != nil {
			b, _ := env.Marshal()
			s.rec = short(b)
		}
	}
	return s
}

func peerSet(w *world, ps peerstore.Peerstore) string {
	var names []string
	for _, p := range ps.Peers() {
		names = append(names, w.name(p))
	}
	sort.Strings(names)
	return strings.Join(names, ",")
}

// ---- the run --------------------------------------------------------------------------------

func run(t *testing.T, tape *simrt.Tape) *common.Outcome {
	g := simrt.Gen{S: tape.G}
	o := &common.Outcome{}
	pl, w := drawPlan(g)
	x := &exec{o: o, w: w, pl: pl, completed: map[string]int{}}
	o.Logf("security=%s link=%d latency=%v bigProtos=%v addrsPerPeer=%d lateTemplate=%v cold=%v lazyIdentifyWait=%v slowPeerstore=%d muteObserverPushes=%v rsaByz=%v wipe=%v byzIP=%s pre=%d overlap=%v longAdvance=%v trim=%v finalByObserver=%v", pl.sec, pl.link, pl.latency, pl.bigProtos, pl.perPeer, pl.late, pl.cold, pl.lazyWait, pl.slow, pl.muteObsPush, pl.rsaByz, pl.wipe, pl.byzIP, pl.pre, pl.overlap, pl.longAdv, pl.trim, pl.finalObs)
	for i, c := range pl.conns {
		dir := "byz dials"
		if c.outbound {
			dir = "observer dials"
		}
		o.Logf("conn %d: %s; identify response: %s; gap=%d", i, dir, c.resp, c.gap)
	}
	for i, a := range pl.acts {
		o.Logf("action %d: %s (yields %d)", i, a, a.yields)
	}
	if e := pl.end; e.kind != 0 {
		o.Logf("end of run: %s while %d new byz connections arrive (dial yields %v; close at I/O call %d of the first one / after %d yields); identify response: %s", []string{"", "IDService().Close()", "Host.Close()"}[e.kind], len(e.dials), e.dials, e.closeIO, e.closeY, e.resp)
	}

	res := simrt.Run(t, simrt.Config{MaxSteps: 3000000, IdleLimit: 24 * time.Hour, TraceCap: 200000}, tape.S, func() { x.main(tape) })
	o.Sched = res
	o.Virtual = res.Virtual
	if res.Panic != "" {
		o.Violate("C13/panic", "%s", res.Panic)
	}
	if (res.Stuck || res.StepLimit) && o.Trouble == "" {
		o.Trouble = fmt.Sprintf("stuck=%v steplimit=%v", res.Stuck, res.StepLimit)
	}
	if len(res.Residue) > 0 && o.Trouble == "" {
		o.Trouble = fmt.Sprintf("goroutines left after shutdown: %v", res.Residue)
	}
	return o
}

func (x *exec) node(id *ident, port int, withHost bool, agent string, ps peerstore.Peerstore) *simhost.Node {
	opts := simhost.Opts{Key: id.key, IP: id.ip, Port: port, Security: x.pl.sec, WithHost: withHost, Peerstore: ps}
	if withHost {
		opts.HostOpts = &basichost.HostOpts{UserAgent: agent}
	}
	nd, err := simhost.New(x.n, opts)
	if err != nil {
		if x.o.Trouble == "" {
			x.o.Trouble = "node " + id.name + ": " + err.Error()
		}
		return nil
	}
	return nd
}

func (x *exec) main(tape *simrt.Tape) {
	o, w, pl := x.o, x.w, x.pl
	cfg := simnet.Config{Mode: pl.link}
	if pl.latency {
		cfg.Latencies = []time.Duration{0, 200 * time.Microsecond, time.Millisecond, 3 * time.Millisecond}
	}
	x.n = simnet.New(tape.S, cfg)
	x.n.OnConn(func(d, l *simnet.Conn) {
		dip := d.LocalAddr().(*net.TCPAddr).IP.String()
		lip := l.LocalAddr().(*net.TCPAddr).IP.String()
		var obsEnd *simnet.Conn
		switch {
		case dip == w.byz.ip && lip == w.obs.ip:
			obsEnd = l
		case dip == w.obs.ip && lip == w.byz.ip:
			obsEnd = d
		default:
			return
		}
		rp := &rawPair{obsEnd: obsEnd}
		idx := len(x.raws)
		x.raws = append(x.raws, rp)
		if x.endPhase && x.endFire != nil && pl.end.closeIO > 0 {
			rp.trig = append(rp.trig, &trigger{at: pl.end.closeIO, fire: x.endFire})
			x.endFire = nil // first new connection only
		}
		for k, a := range pl.acts {
			if a.trig.io && a.trig.creation && a.trig.conn == idx {
				k, a := k, a
				rp.trig = append(rp.trig, &trigger{at: a.trig.j, fire: func() { x.startAction(k, a) }})
			}
		}
		obsEnd.SetOnCall(func(call int, _ bool) {
			for _, tr := range rp.trig {
				if !tr.done && call >= tr.at {
					tr.done, tr.fired = true, true
					tr.fire()
				}
			}
		})
	})

	// ---- observer
	var popts []pstoremem.Option
	if pl.bigProtos {
		popts = append(popts, pstoremem.WithMaxProtocols(1<<20))
	}
	popts = append(popts, pstoremem.WithMaxAddressesPerPeer(pl.perPeer))
	realPS, err := pstoremem.NewPeerstore(popts...)
	if err != nil {
		o.Trouble = err.Error()
		return
	}
	defer realPS.Close()
	x.ps = realPS
	cab, _ := peerstore.GetCertifiedAddrBook(realPS)
	x.O = x.node(w.obs, 4001, true, observerAgent, &slowPS{Peerstore: realPS, cab: cab, x: x})
	if x.O == nil {
		return
	}
	O := x.O
	closedO := false
	closeO := func() {
		if !closedO {
			closedO = true
			O.Close()
		}
	}
	defer closeO()

	var sub event.Subscription
	sub, err = O.Bus.Subscribe([]any{new(event.EvtPeerIdentificationCompleted), new(event.EvtPeerIdentificationFailed)}, eventbus.BufSize(512))
	if err != nil {
		o.Trouble = "subscribe: " + err.Error()
		return
	}
	collectorDone := make(chan struct{})
	simrt.GoNamed("c13-events", func() {
		defer close(collectorDone)
		for {
			e, ok := simrt.Recv2("c13-evt", sub.Out())
			if !ok {
				return
			}
			switch v := e.(type) {
			case event.EvtPeerIdentificationCompleted:
				x.events = append(x.events, evRec{stamp: simrt.Stamp(), completed: &v})
			case event.EvtPeerIdentificationFailed:
				x.events = append(x.events, evRec{stamp: simrt.Stamp(), failed: &v})
			}
		}
	})
	defer func() {
		sub.Close()
		simrt.Recv("c13-collector", collectorDone)
	}()

	O.Swarm.Notify(&network.NotifyBundle{
		ConnectedF: func(_ network.Network, c network.Conn) {
			oc := &obsConn{c: c, connected: simrt.Stamp()}
			x.obsConns = append(x.obsConns, oc)
			// IdentifyWait is not a pure observation: it creates the service's entry for the connection when the
			// service's own Connected handler has not run yet, and it STARTS the identify exchange when nobody has.
			// Calling it here for every connection would make it impossible for the service's own first-contact path
			// (or a Disconnected) to be the first to meet a connection. In half of the runs it is therefore called
			// only after the activity has been judged (startWaiters).
			if !pl.lazyWait {
				x.startWaiter(oc)
			}
		},
		DisconnectedF: func(_ network.Network, c network.Conn) {
			for _, oc := range x.obsConns {
				if oc.c == c {
					oc.disconnected = simrt.Stamp()
				}
			}
		},
	})

	// ---- honest peers. Warm runs: they connect and are identified BEFORE byz shows up (baseline for the cross-talk
	// comparison). Cold runs (a third): they only exist; byz is the first peer the observer ever meets, so the first
	// inbound connection, identify's first exchange, the first push (rate limiter, emitters, lazily started parts) meet
	// the byzantine behaviour, the races and the closes. The honest peers connect after the activity has been judged.
	for i, id := range []*ident{w.h1, w.h2} {
		h := x.node(id, 4001, true, fmt.Sprintf("%s%d", honestAgentPrefix, i+1), nil)
		if h == nil {
			return
		}
		x.H = append(x.H, h)
		defer h.Close()
	}
	connectHonest := func() bool {
		for _, h := range x.H {
			ctx, cancel := context.WithTimeout(context.Background(), 30*time.Second)
			err := h.Host.Connect(ctx, O.AddrInfo())
			cancel()
			if err != nil {
				o.Trouble = "honest connect: " + err.Error()
				return false
			}
		}
		return true
	}
	if !pl.cold && !connectHonest() {
		return
	}

	// ---- byzantine node
	x.B = x.node(w.byz, 4001, false, "", nil)
	if x.B == nil {
		return
	}
	B := x.B
	defer B.Close()
	x.muxFull = msmux.NewMultistreamMuxer[protocol.ID]()
	x.muxFull.AddHandler(identify.ID, nil)
	x.muxFull.AddHandler(identify.IDPush, nil)
	x.muxNoID = msmux.NewMultistreamMuxer[protocol.ID]()
	x.muxNoID.AddHandler(identify.IDPush, nil)
	for i, cp := range pl.conns {
		x.conns = append(x.conns, &bconn{idx: i, ready: make(chan struct{}), resp: cp.resp})
	}
	B.Swarm.SetStreamHandler(func(s network.Stream) {
		var c *bconn
		for _, bc := range x.conns {
			if bc.sw == s.Conn() {
				c = bc
			}
		}
		x.serve(s, c)
	})
	B.Swarm.Notify(&network.NotifyBundle{ConnectedF: func(_ network.Network, c network.Conn) {
		bc := x.conns[0]
		if pl.conns[0].outbound && bc.sw == nil {
			bc.sw, bc.local, bc.remote = c, c.LocalMultiaddr(), c.RemoteMultiaddr()
			close(bc.ready)
		}
	}})

	settle(time.Second)

	// ---- what the observer knows beforehand
	x.preAll, x.prePerm, x.preShort = map[string]bool{}, map[string]bool{}, map[string]bool{}
	x.ps.AddAddrs(w.h3.id, []ma.Multiaddr{w.h3.addr}, peerstore.PermanentAddrTTL)
	x.ps.SetProtocols(w.h3.id, "/h3/1")
	x.ps.Put(w.h3.id, "AgentVersion", "honest/3")
	x.ps.AddPubKey(w.h3.id, w.h3.key.GetPublic())
	if cab, ok := peerstore.GetCertifiedAddrBook(x.ps); ok {
		env, _, err := record.ConsumeEnvelope(w.honestRecs["H3"], peer.PeerRecordEnvelopeDomain)
		if err == nil {
			cab.ConsumePeerRecord(env, peerstore.PermanentAddrTTL)
		}
	}
	switch pl.pre {
	case 1:
		x.ps.AddAddrs(w.byz.id, []ma.Multiaddr{w.byz.addr}, peerstore.PermanentAddrTTL)
		x.prePerm[w.byz.addr.String()] = true
	case 2:
		extra := tcpAddr(w.byz.ip, 5999)
		x.ps.AddAddrs(w.byz.id, []ma.Multiaddr{w.byz.addr}, peerstore.PermanentAddrTTL)
		x.ps.AddAddrs(w.byz.id, []ma.Multiaddr{extra}, peerstore.TempAddrTTL)
		x.prePerm[w.byz.addr.String()] = true
		x.preShort[extra.String()] = true
	}
	// (when the observer dials, Host.Connect absorbs byz's listen address with TempAddrTTL itself; the plan forces
	// pre >= 1 in that case, so the address is already among the permanent pre-existing ones)
	for a := range x.prePerm {
		x.preAll[a] = true
	}
	for a := range x.preShort {
		x.preAll[a] = true
	}
	bystanders := []*ident{w.h1, w.h2, w.h3, w.u}
	before := map[string]peerSnap{}
	for _, id := range bystanders {
		before[id.name] = snapPeer(x.ps, id.id)
	}
	selfBefore := snapPeer(x.ps, w.obs.id)
	peersBefore := peerSet(w, x.ps)
	for _, name := range []string{"H1", "H2"} {
		if pl.cold {
			break // nothing known about them yet: the comparison below then demands that this stays so
		}
		if s := before[name]; len(s.addrs) == 0 || len(s.protos) == 0 || !strings.HasPrefix(s.agent, honestAgentPrefix) {
			o.Trouble = fmt.Sprintf("honest peer %s not identified before the run: %v", name, s)
			return
		}
	}

	x.psArmed = true
	for k, a := range pl.acts {
		if a.trig.ps && a.trig.creation {
			k, a := k, a
			x.psTrig = append(x.psTrig, &trigger{at: a.trig.j, hold: a.trig.hold, fire: func() { x.startAction(k, a) }})
		}
	}

	// ---- connection phase
	for i, cp := range pl.conns {
		bc := x.conns[i]
		if cp.outbound {
			simrt.GoNamed("c13-obs-connect", func() {
				ctx, cancel := context.WithTimeout(context.Background(), 20*time.Second)
				defer cancel()
				err := O.Host.Connect(ctx, peer.AddrInfo{ID: w.byz.id, Addrs: []ma.Multiaddr{w.byz.addr}})
				if bc.sw == nil {
					bc.failed = true
					close(bc.ready)
					x.logf("  observer could not connect to byz: %v", err != nil)
				}
			})
			simrt.Recv("c13-ready", bc.ready)
		} else {
			ctx, cancel := context.WithTimeout(context.Background(), 20*time.Second)
			cc, err := B.Tpt.Dial(ctx, O.Addr, w.obs.id)
			cancel()
			if err != nil {
				bc.failed = true
				close(bc.ready)
				x.logf("  byz could not dial conn %d (a close action may have hit the handshake)", i)
			} else {
				bc.raw, bc.local, bc.remote = cc, cc.LocalMultiaddr(), cc.RemoteMultiaddr()
				simrt.GoNamed(fmt.Sprintf("byz-accept%d", i), func() { x.acceptLoop(bc) })
				close(bc.ready)
			}
		}
		switch cp.gap {
		case 1:
			simrt.WaitIdle()
		case 2:
			settle(time.Second)
		}
	}
	if !pl.overlap {
		simrt.WaitIdle()
	}

	// ---- action phase
	x.phaseB = true
	if pl.wipe {
		// the application drops what it knows about byz (documented: everything except addresses), connections stay
		x.ps.RemovePeer(w.byz.id)
		o.Fault("application-forgets-peer")
		x.logf("  Peerstore.RemovePeer(byz): keys=%v", snapPeer(x.ps, w.byz.id).inKeys)
	}
	for i, rp := range x.raws {
		x.logf("  raw conn %d: observer's socket made %d I/O calls before the action phase", i, rp.obsEnd.Stats().Calls)
	}
	for k, a := range pl.acts {
		k, a := k, a
		switch {
		case !a.trig.io && !a.trig.ps:
			x.startAction(k, a)
		case a.trig.ps && !a.trig.creation:
			x.psTrig = append(x.psTrig, &trigger{at: x.psCalls + a.trig.j, hold: a.trig.hold, fire: func() { x.startAction(k, a) }})
		case a.trig.io && !a.trig.creation:
			if a.trig.conn < len(x.raws) {
				rp := x.raws[a.trig.conn]
				rp.trig = append(rp.trig, &trigger{at: rp.obsEnd.Stats().Calls + a.trig.j, fire: func() { x.startAction(k, a) }})
			}
		}
	}
	settle(quiesce)
	for i, rp := range x.raws {
		x.logf("  raw conn %d: observer's socket made %d I/O calls until quiescence", i, rp.obsEnd.Stats().Calls)
	}
	for _, rp := range x.raws {
		for _, tr := range rp.trig {
			tr.done = true // triggers that were never reached stay unfired
		}
	}
	for _, tr := range x.psTrig {
		tr.done = true
	}
	if x.pending != 0 {
		settle(quiesce)
		if x.pending != 0 {
			o.Trouble = fmt.Sprintf("%d action tasks still running at quiescence", x.pending)
			return
		}
	}

	// ---- Q1: everything sent has been consumed or refused
	x.quiet = true
	x.checkEvents()
	x.checkByz("after-activity", false)
	for _, id := range bystanders {
		after := snapPeer(x.ps, id.id)
		b := before[id.name]
		if id == w.h1 && x.honestPushed && b.String() != after.String() {
			// H1 itself announced one more protocol; whether its push has been consumed is not asserted (weaker)
			b.protos = append(append([]string(nil), b.protos...), honestExtraProto)
			sort.Strings(b.protos)
			if b.String() == after.String() {
				o.Probe("honest-push-consumed-concurrently")
			}
		}
		if b.String() != after.String() {
			o.Violate("C13/cross-talk/"+id.name, "observer's peerstore entry of %s changed during byzantine activity:\n before %v\n after  %v", id.name, b, after)
		}
	}
	selfAfter := snapPeer(x.ps, w.obs.id)
	if selfAfter.key != selfBefore.key || selfAfter.inKeys != selfBefore.inKeys {
		o.Violate("C13/cross-talk/self-key", "observer's own key entry changed: %v -> %v", selfBefore, selfAfter)
	}
	for _, a := range selfAfter.addrs {
		if !contains(selfBefore.addrs, a) && x.vouchedByAny(a) {
			o.Violate("C13/cross-talk/self-addr", "observer's own entry gained %s, an address taken from a byzantine message", a)
		}
	}
	if pa := peerSet(w, x.ps); pa != peersBefore && pa != addName(peersBefore, "BYZ") {
		o.Violate("C13/cross-talk/peer-set", "peers known to the observer: before %s, after %s", peersBefore, pa)
	}
	for _, oc := range x.obsConns {
		// (a wait that is younger than the bound at this instant is judged at the end of the run)
		if oc.waitTimedOut || (oc.waitStarted && !oc.waitReleased && simrt.Now()-oc.waitStart > identifyWaitBound) {
			o.Violate("C13/identify-wait-not-released", "IdentifyWait of the observer's connection to %s (%s) did not close within %v (released=%v; sends: %s)", w.name(oc.c.RemotePeer()), oc.c.Stat().Direction, identifyWaitBound, oc.waitReleased, x.sendSummary())
		}
	}

	// ---- lazy runs: only now does the harness itself ask for the identify-wait of every connection
	x.startWaiters()

	// ---- cold runs: the honest peers meet an observer whose identify has so far only dealt with byz
	if pl.cold {
		if !connectHonest() {
			return
		}
		settle(time.Second)
		x.startWaiters()
		for i, id := range []*ident{w.h1, w.h2} {
			hs := snapPeer(x.ps, id.id)
			ok := hs.agent == fmt.Sprintf("%s%d", honestAgentPrefix, i+1) && hs.inKeys && contains(hs.addrs, id.addr.String()) && len(hs.protos) > 0
			if k := x.ps.PubKey(id.id); ok && (k == nil || !id.id.MatchesPublicKey(k)) {
				ok = false
			}
			for _, a := range hs.addrs {
				if a != id.addr.String() && x.vouchedByAny(a) {
					ok = false
				}
			}
			if !ok {
				o.Violate("C13/cross-talk/"+id.name+"-identified-after-byz", "honest %s connected after the byzantine activity; the observer's entry is not what %s announced (agent %s%d, its key, its listen address %s, nothing from a byzantine message): %v", id.name, id.name, honestAgentPrefix, i+1, id.addr, hs)
			}
		}
		o.Probe("cold-start-honest-identified-afterwards")
	}

	// ---- honest peers leave (their keep-alives would dominate the long advances)
	for _, h := range x.H {
		h.Close()
	}
	settle(time.Second)

	// ---- long advance with the remaining connections
	open := 0
	for _, c := range x.conns {
		if !c.failed && !c.closed {
			open++
		}
	}
	firstKept := x.connectedWithoutGap()
	// Everything that was downgraded to a finite lifetime (TempAddrTTL, RecentlyConnectedAddrTTL) is gone after this:
	adv := peerstore.RecentlyConnectedAddrTTL + 2*time.Minute
	if pl.longAdv {
		adv = 2 * time.Hour
	}
	if open > 0 {
		s1 := snapPeer(x.ps, w.byz.id)
		if pl.trim && firstKept {
			// non-last disconnects at quiescence: nothing may be downgraded
			for _, c := range x.conns[1:] {
				if !c.failed && !c.closed {
					x.closeConn(c, pl.finalObs, "trim before the advance")
					settle(time.Second)
					open--
				}
			}
		}
		settle(adv)
		if firstKept && len(O.Swarm.ConnsToPeer(w.byz.id)) > 0 {
			o.Probe("survive-checked")
			s2 := snapPeer(x.ps, w.byz.id)
			for _, a := range s1.addrs {
				if x.preShort[a] {
					continue
				}
				if !contains(s2.addrs, a) {
					o.Violate("C13/addr-lost-while-connected", "address %s of byz, present at quiescence, is gone after %v although the first connection (and %d in total) stayed open; before %d addrs, after %d", a, adv, open, len(s1.addrs), len(s2.addrs))
					break
				}
			}
		}
		x.checkByz("after-advance", false)
		// Stream audit (identify.DefaultTimeout: "for all id interactions, incoming / outgoing, id / id-push"): long
		// after the last activity no identify or identify-push stream of the observer is still open on a connection
		// to byz, whatever byz did with it (never negotiated, negotiated and went silent, half a message).
		o.Probe("stream-audit")
		for _, oc := range O.Swarm.ConnsToPeer(w.byz.id) {
			for _, st := range oc.GetStreams() {
				name := ""
				switch st.Protocol() {
				case identify.ID:
					name = "id"
				case identify.IDPush:
					name = "id-push"
				default:
					continue
				}
				dir := "inbound"
				if st.Stat().Direction == network.DirOutbound {
					dir = "outbound"
				}
				o.Violate("C13/identify-stream-left/"+dir+"-"+name, "%v after the last activity the observer still holds an open %s %s stream on a connection to byz (sends: %s)", adv, dir, st.Protocol(), x.sendSummary())
			}
		}
		// ---- final closes, one at a time, at quiescence
		for _, c := range x.conns {
			if !c.failed && !c.closed {
				x.closeConn(c, pl.finalObs, "final")
				settle(time.Second)
			}
		}
		settle(quiesce)
		x.checkByz("after-final-close", true)
	}
	x.startWaiters()
	settle(peerstore.RecentlyConnectedAddrTTL + 2*time.Minute)
	if n := len(O.Swarm.ConnsToPeer(w.byz.id)); n != 0 {
		o.Trouble = fmt.Sprintf("observer still lists %d connections to byz after the final closes", n)
		return
	}
	final := snapPeer(x.ps, w.byz.id)
	for _, a := range final.addrs {
		if !x.prePerm[a] {
			o.Violate("C13/addr-kept-after-disconnect", "%v after the last connection closed Addrs(byz) still returns %s (%d addresses in total)", peerstore.RecentlyConnectedAddrTTL+2*time.Minute, a, len(final.addrs))
			break
		}
	}
	for _, id := range []*ident{w.h3, w.u} {
		after := snapPeer(x.ps, id.id)
		if b := before[id.name]; b.String() != after.String() {
			o.Violate("C13/cross-talk/"+id.name, "observer's peerstore entry of %s changed by the end of the run:\n before %v\n after  %v", id.name, b, after)
		}
	}
	for _, oc := range x.obsConns {
		if oc.waitTimedOut || !oc.waitReleased {
			o.Violate("C13/identify-wait-not-released", "IdentifyWait of the observer's connection to %s did not close within %v", w.name(oc.c.RemotePeer()), identifyWaitBound)
		}
	}

	// ---- end-of-run variant: the identify service (alone, or as part of Host.Close, which closes it BEFORE the
	// network) goes away while new connections are still arriving. The statement's liveness clause has no exception
	// for a closing service: every channel IdentifyWait ever returned closes within the bound, whether the first
	// IdentifyWait for the connection (the service's own Connected handler, or the harness) came before, during or
	// after the close. Nothing else about a closed service is asserted.
	if pl.end.kind != 0 {
		known := len(x.obsConns)
		x.endPhase = true
		closeStarted := false
		x.endFire = func() {
			if closeStarted {
				return
			}
			closeStarted = true
			x.endPending++
			simrt.GoNamed("c13-end-close", func() {
				defer func() { x.endPending-- }()
				if pl.end.kind == 1 {
					x.logf("  [%d] observer: IDService().Close()", simrt.Stamp())
					O.Host.IDService().Close()
					o.Fault("identify-service-closed-while-connections-arrive")
				} else {
					x.logf("  [%d] observer: Host.Close()", simrt.Stamp())
					closeO()
					o.Fault("host-closed-while-connections-arrive")
				}
				x.logf("  [%d] close returned", simrt.Stamp())
			})
		}
		fire := x.endFire
		for i, y := range pl.end.dials {
			bc := &bconn{idx: 100 + i, ready: make(chan struct{}), resp: pl.end.resp}
			x.endConns = append(x.endConns, bc)
			x.endPending++
			simrt.GoNamed(fmt.Sprintf("c13-end-dial%d", i), func() {
				defer func() { x.endPending-- }()
				for k := 0; k < y; k++ {
					simrt.Yield("c13-position")
				}
				ctx, cancel := context.WithTimeout(context.Background(), 20*time.Second)
				cc, err := B.Tpt.Dial(ctx, O.Addr, w.obs.id)
				cancel()
				if err != nil {
					bc.failed = true
					x.logf("  end dial %d failed (observer closing)", i)
					return
				}
				bc.raw, bc.local, bc.remote = cc, cc.LocalMultiaddr(), cc.RemoteMultiaddr()
				simrt.GoNamed(fmt.Sprintf("byz-accept%d", bc.idx), func() { x.acceptLoop(bc) })
			})
		}
		if pl.end.closeIO == 0 {
			x.endPending++
			simrt.GoNamed("c13-end-closer-position", func() {
				defer func() { x.endPending-- }()
				for k := 0; k < pl.end.closeY; k++ {
					simrt.Yield("c13-position")
				}
				fire()
			})
		}
		settle(identifyWaitBound + 10*time.Second)
		if !closeStarted {
			fire() // the I/O position was never reached: close now, with the new connections established
			settle(identifyWaitBound + 10*time.Second)
		}
		if x.endPending != 0 {
			o.Trouble = fmt.Sprintf("%d end-of-run tasks still running", x.endPending)
			return
		}
		judge := func(when string) {
			for _, oc := range x.obsConns[known:] {
				if oc.waitStarted && (oc.waitTimedOut || !oc.waitReleased) {
					o.Violate("C13/identify-wait-not-released/service-closing", "%s: IdentifyWait of a connection from %s that reached the observer around %s did not close within %v (connected [%d], disconnected [%d])", when, w.name(oc.c.RemotePeer()), []string{"", "IDService().Close()", "Host.Close()"}[pl.end.kind], identifyWaitBound, oc.connected, oc.disconnected)
				}
			}
		}
		judge("after the close")
		if n := len(x.obsConns) - known; n > 0 {
			o.Probe("connection-admitted-around-service-close")
		}
		// the harness itself asks (again, or for the first time in the lazy runs) after the close has returned
		x.startWaiters()
		settle(identifyWaitBound + 10*time.Second)
		judge("asked after the close returned")
		for _, bc := range x.endConns {
			bc.close()
		}
		settle(time.Second)
	}
	x.summarise()
}

// connectedWithoutGap reports whether the OBSERVER provably held the first connection, open, at every instant at
// which identify decided about byz's address lifetimes. That byz's dial of connection 0 returned first does not mean
// the observer registered it first: its accept/upgrade side may finish after a later connection has been
// established, identified and closed again; from the observer's point of view that close was a LAST disconnect
// (legal downgrade), and a failed identify on the connections registered afterwards need not restore anything.
// Sound rule over stamps taken by the harness: the observer's Connected notification of connection 0 (issued after
// the swarm lists the connection) precedes (a) the START of every close of another connection (stamp taken before
// the call) and (b) the START of every send on another connection; no dial failed (a half-established connection
// would be a disconnect the harness has no stamp for); connection 0 was never closed.
func (x *exec) connectedWithoutGap() bool {
	c0 := x.conns[0]
	if c0.failed || c0.closed || c0.local == nil {
		return false
	}
	var t0 uint64
	for _, oc := range x.obsConns {
		if oc.c.RemotePeer() == x.w.byz.id && oc.disconnected == 0 && oc.c.RemoteMultiaddr().Equal(c0.local) && oc.c.LocalMultiaddr().Equal(c0.remote) {
			t0 = oc.connected
		}
	}
	if t0 == 0 {
		return false
	}
	for _, c := range x.conns[1:] {
		if c.failed || (c.closeStamp != 0 && c.closeStamp < t0) {
			return false
		}
	}
	for _, s := range x.sends {
		if s.conn != 0 && s.start < t0 {
			return false
		}
	}
	// every observer-side connection to byz must be one the harness knows (otherwise its disconnect is unstamped)
	for _, oc := range x.obsConns {
		if oc.c.RemotePeer() != x.w.byz.id {
			continue
		}
		known := false
		for _, c := range x.conns {
			if c.local != nil && oc.c.RemoteMultiaddr().Equal(c.local) && oc.c.LocalMultiaddr().Equal(c.remote) {
				known = true
			}
		}
		if !known {
			return false
		}
	}
	return true
}

func contains(l []string, s string) bool {
	for _, x := range l {
		if x == s {
			return true
		}
	}
	return false
}

func addName(set, name string) string {
	l := strings.Split(set, ",")
	if set == "" {
		l = nil
	}
	l = append(l, name)
	sort.Strings(l)
	return strings.Join(l, ",")
}

func (x *exec) vouchedByAny(a string) bool {
	for _, s := range x.sends {
		if s.wrote && s.msg.vouched[a] {
			return true
		}
	}
	return false
}

// checkByz applies the state oracles to the observer's entry of the byzantine peer.
func (x *exec) checkByz(when string, afterQuiescentLastClose bool) {
	o, w := x.o, x.w
	ps := x.ps
	s := snapPeer(ps, w.byz.id)
	if s.inKeys {
		if k := ps.PubKey(w.byz.id); k != nil {
			if id, err := peer.IDFromPublicKey(k); err != nil || id != w.byz.id {
				o.Violate("C13/pubkey-mismatch", "%s: the key stored for byz hashes to %s", when, w.name(id))
			}
		}
	}
	if x.pl.wipe && x.phaseB && s.inKeys && when == "after-activity" {
		o.Probe("pubkey-stored-from-message")
	}
	if len(s.protos) > capProtocols {
		o.Violate("C13/protocol-cap", "%s: %d protocols stored for byz (documented cap %d)", when, len(s.protos), capProtocols)
	}
	if len(s.protos) > 128 {
		o.Probe("more-than-128-protocols-stored")
	}
	extra := 0
	for _, a := range s.addrs {
		if !x.preAll[a] {
			extra++
		}
		m, err := ma.NewMultiaddr(a)
		if err != nil {
			o.Trouble = "unparsable stored address " + a
			return
		}
		if _, id := peer.SplitAddr(m); id != "" && id != w.byz.id {
			o.Violate("C13/foreign-suffix-stored", "%s: Addrs(byz) contains %s which names %s", when, a, w.name(id))
		}
		if !x.preAll[a] && !x.vouchedByAny(a) {
			o.Violate("C13/addr-not-vouched", "%s: Addrs(byz) contains %s: not pre-existing, in no unsigned list byz sent and in no record byz validly signed for itself (sends: %s)", when, a, x.sendSummary())
		}
	}
	if extra > capAddrsConnected {
		o.Violate("C13/address-cap", "%s: %d addresses stored for byz beyond the %d pre-existing (documented cap %d)", when, extra, len(x.preAll), capAddrsConnected)
	}
	if extra > 400 {
		o.Probe("more-than-400-addrs-stored")
	}
	// The address book's per-peer cap on addresses that no live connection holds, configured by THIS harness through
	// pstoremem.WithMaxAddressesPerPeer(n) ("caps the unconnected addresses stored per peer. When the cap is full, adding
	// a new addr evicts the unconnected entry with the nearest expiry. Addresses held by a live connection ... bypass
	// the cap"). Reading asserted (the statement says "capped" without a figure; the figure is the one the package
	// documents for callers and that the harness itself passed in, not an implementation constant): ADDING must not
	// take a peer that is at or below the cap above it — whether the addresses arrive one by one or as one batch.
	// It is asserted only under a premise established from the harness's own model of the history (singleBatchPremise):
	// some message M was consumed while the observer had, and ever after has, no connection to byz, and everything else
	// that can ever have been stored for byz (pre-existing short-lived addresses + what all OTHER written messages vouch
	// for) is at most n addresses. Then at a later quiescent instant without connection at most n non-permanent
	// addresses may be kept. The doc is silent about UpdateAddrs moving a larger, legally connected entry into the
	// unconnected class, so a disconnected peer above n WITHOUT that premise is only counted (see OBSERVATION in the
	// header), never a violation.
	if notPerm := len(s.addrs) - x.countPresent(s.addrs, x.prePerm); len(x.O.Swarm.ConnsToPeer(w.byz.id)) == 0 {
		o.Probe("unconnected-cap-checked")
		if notPerm > x.pl.perPeer {
			if tag := x.singleBatchPremise(); tag != "" {
				o.Violate("C13/unconnected-address-cap/single-batch", "%s: the observer has no connection to byz and keeps %d addresses for it that no connection holds; the address book was built with WithMaxAddressesPerPeer(%d); %s was consumed for a peer without connection that held at most %d addresses before (sends: %s)", when, notPerm, x.pl.perPeer, tag, x.pl.perPeer, x.sendSummary())
			} else {
				o.Probe("observed-disconnected-peer-above-unconnected-cap")
			}
		}
		if notPerm > 20 {
			o.Probe("more-than-20-addrs-kept-for-disconnected-peer")
		}
	}
	if afterQuiescentLastClose && extra > capAddrsRecentlyConn {
		o.Violate("C13/address-cap-after-disconnect", "%s: %d addresses kept for byz after the last connection closed at quiescence (documented: %d)", when, extra, capAddrsRecentlyConn)
	}
	x.logf("  %s: byz entry: %d addrs (%d beyond pre-existing) %d protocols agent=%.20q keys=%v", when, len(s.addrs), extra, len(s.protos), s.agent, s.inKeys)
}

// singleBatchPremise returns the tag of a message M for which the premise of the single-batch oracle holds, or "".
//
//	(ii) M's consumeMessage started (its first peerstore call, GetProtocols, was let through to the real peerstore at
//	     stamp L; with several consumes in flight the EARLIEST open one is taken, which only makes L smaller) after the
//	     observer's swarm had announced Connected AND Disconnected for every connection to byz it ever had: no
//	     connection at any instant from L on. (Stamps of the harness's own notifee and pass-through.)
//	(i)  |pre-existing short-lived addresses| + sum of |vouched(m)| over every OTHER message m of which at least one byte
//	     was written <= n. By addr-not-vouched nothing else can be stored for byz, so apart from M's own addresses
//	     the entry never holds more than n non-permanent addresses, in particular not when M arrived.
func (x *exec) singleBatchPremise() string {
	byz := x.w.byz.id
	var lastDisc uint64
	for _, oc := range x.obsConns {
		if oc.c.RemotePeer() != byz {
			continue
		}
		if oc.disconnected == 0 {
			return ""
		}
		if oc.disconnected > lastDisc {
			lastDisc = oc.disconnected
		}
	}
	var open []uint64
	for _, c := range x.psLog {
		switch c.op {
		case "GetProtocols":
			open = append(open, c.after)
		case "Put:AgentVersion":
			if len(open) == 0 {
				continue
			}
			l := open[0]
			open = open[1:]
			if c.tag == "" || l == 0 || l < lastDisc {
				continue
			}
			others := len(x.preShort)
			for _, sr := range x.sends {
				if sr.msg.tag != c.tag && sr.wrote {
					others += len(sr.msg.vouched)
				}
			}
			if others <= x.pl.perPeer {
				return c.tag
			}
		}
	}
	return ""
}

func (x *exec) countPresent(addrs []string, set map[string]bool) int {
	n := 0
	for _, a := range addrs {
		if set[a] {
			n++
		}
	}
	return n
}

func (x *exec) sendSummary() string {
	var l []string
	for _, s := range x.sends {
		l = append(l, fmt.Sprintf("%s/%s", s.msg.tag, modeNames[s.mode]))
	}
	return strings.Join(l, " ")
}

func tagOf(agent string) string {
	if !strings.HasPrefix(agent, "byz/m") {
		return ""
	}
	rest := agent[len("byz/"):]
	if i := strings.IndexByte(rest, '/'); i >= 0 {
		rest = rest[:i]
	}
	return "byz/" + rest
}

// checkEvents applies the attribution oracles to the identify events seen so far.
func (x *exec) checkEvents() {
	o, w := x.o, x.w
	hadConn := map[peer.ID]bool{}
	for _, oc := range x.obsConns {
		hadConn[oc.c.RemotePeer()] = true
	}
	honestAgent := map[peer.ID]string{w.h1.id: honestAgentPrefix + "1", w.h2.id: honestAgentPrefix + "2"}
	for _, s := range x.sends {
		x.logf("  send [%d..%d] %s push=%v conn %d %s: %s", s.start, s.end, s.msg.tag, s.push, s.conn, modeNames[s.mode], s.outcome)
	}
	for _, oc := range x.obsConns {
		x.logf("  observer conn to %s %s: connected [%d] disconnected [%d] identify-wait released=%v after %v", w.name(oc.c.RemotePeer()), oc.c.RemoteMultiaddr(), oc.connected, oc.disconnected, oc.waitReleased, oc.waitTook)
	}
	for _, e := range x.events {
		if f := e.failed; f != nil {
			x.logf("  event [%d] identification FAILED peer=%s reason=%.80q", e.stamp, w.name(f.Peer), fmt.Sprint(f.Reason))
		} else {
			x.logf("  event [%d] identification completed peer=%s conn=%s agent=%.24q %d protocols %d listen addrs record=%v", e.stamp, w.name(e.completed.Peer), e.completed.Conn.RemoteMultiaddr(), e.completed.AgentVersion, len(e.completed.Protocols), len(e.completed.ListenAddrs), e.completed.SignedPeerRecord != nil)
		}
		if f := e.failed; f != nil {
			if !hadConn[f.Peer] {
				o.Violate("C13/event-failed-wrong-peer", "EvtPeerIdentificationFailed names %s, which never had a connection", w.name(f.Peer))
			}
			if _, honest := honestAgent[f.Peer]; honest {
				o.Violate("C13/event-failed-wrong-peer", "EvtPeerIdentificationFailed names honest %s whose links are fault-free", w.name(f.Peer))
			}
			if f.Peer == w.byz.id {
				o.Probe("identify-failed-event")
			}
			continue
		}
		c := e.completed
		if c.Conn == nil || c.Peer != c.Conn.RemotePeer() {
			o.Violate("C13/event-peer-mismatch", "EvtPeerIdentificationCompleted.Peer=%s but the connection's remote peer differs", w.name(c.Peer))
			continue
		}
		tag := tagOf(c.AgentVersion)
		if ha, honest := honestAgent[c.Peer]; honest {
			if c.AgentVersion != ha {
				o.Violate("C13/event-wrong-content", "completed event for honest %s carries agent %.30q", w.name(c.Peer), c.AgentVersion)
			}
			continue
		}
		if c.Peer != w.byz.id {
			o.Violate("C13/event-peer-mismatch", "EvtPeerIdentificationCompleted for unexpected peer %s", w.name(c.Peer))
			continue
		}
		if tag == "" {
			continue // message without agent field: cannot be told apart
		}
		x.completed[tag]++
		var sent []*sendRec
		for _, s := range x.sends {
			if s.msg.tag == tag {
				sent = append(sent, s)
			}
		}
		if len(sent) == 0 {
			o.Violate("C13/event-wrong-content", "completed event carries tag %s which byz never sent", tag)
			continue
		}
		if x.completed[tag] > len(sent) {
			o.Violate("C13/event-duplicated", "message %s sent %d time(s), %d completed events", tag, len(sent), x.completed[tag])
		}
		bc := x.conns[sent[0].conn]
		if bc.local != nil && !(c.Conn.RemoteMultiaddr().Equal(bc.local) && c.Conn.LocalMultiaddr().Equal(bc.remote)) {
			o.Violate("C13/event-wrong-conn", "message %s was sent on conn %d (%s) but the completed event names connection %s", tag, bc.idx, bc.local, c.Conn.RemoteMultiaddr())
		}
		if len(c.Protocols) > capProtocols {
			o.Probe("event-protocols-over-cap") // informational only: the event is not "retained"
		}
	}
}

// summarise derives probes, signature and the non-trivial flag.
func (x *exec) summarise() {
	o := x.o
	byz := x.w.byz.id
	var sig []string
	adversarialConsumed := false
	for _, s := range x.sends {
		kind := "resp"
		if s.push {
			kind = "push"
		}
		n := x.completed[s.msg.tag]
		sig = append(sig, fmt.Sprintf("%s:%s:%s:%s:c%d:done%d", s.msg.tag, kind, modeNames[s.mode], s.outcome, s.conn, n))
		o.Probe("sent-" + kind + "-" + modeNames[s.mode])
		if s.mode != modeRespond {
			o.Fault(kind + "-" + modeNames[s.mode])
		}
		if n > 0 {
			o.Probe("consumed-" + kind)
			for _, f := range s.msg.feats {
				o.Probe("consumed-" + f)
				adversarialConsumed = true
			}
		}
	}
	raced := false
	for _, e := range x.events {
		c := e.completed
		if c == nil || c.Peer != byz {
			continue
		}
		// consumed although every connection the observer had announced was already reported closed
		open := 0
		for _, oc := range x.obsConns {
			if oc.c.RemotePeer() == byz && oc.connected < e.stamp && (oc.disconnected == 0 || oc.disconnected > e.stamp) {
				open++
			}
		}
		if open == 0 {
			o.Probe("consumed-while-disconnected")
			raced = true
		}
		for _, oc := range x.obsConns {
			if oc.c == c.Conn && oc.disconnected != 0 && oc.disconnected < e.stamp {
				o.Probe("consumed-on-closed-connection")
				raced = true
			}
		}
		for _, s := range x.sends {
			if s.msg.tag != tagOf(c.AgentVersion) {
				continue
			}
			for _, oc := range x.obsConns {
				if oc.c.RemotePeer() == byz && oc.disconnected > s.start && oc.disconnected < e.stamp {
					o.Probe("disconnect-between-send-and-consumed")
					raced = true
				}
			}
		}
	}
	for _, oc := range x.obsConns {
		if oc.c.RemotePeer() != byz {
			continue
		}
		if oc.waitTook >= identifyTimeout {
			o.Probe("identify-wait-released-by-timeout")
		}
		// the connection was reported closed while its identify-wait was still pending
		if oc.disconnected != 0 {
			for _, e := range x.events {
				if f := e.failed; f != nil && f.Peer == byz && e.stamp > oc.disconnected && oc.waitTook < identifyTimeout {
					o.Probe("identify-failed-after-disconnect")
					break
				}
			}
		}
	}
	triggered := 0
	for _, rp := range x.raws {
		for _, tr := range rp.trig {
			if tr.fired {
				triggered++
			}
		}
	}
	if triggered > 0 {
		o.Probe("io-positioned-action-fired")
	}
	for _, tr := range x.psTrig {
		if tr.fired {
			triggered++
			o.Probe("peerstore-positioned-action-fired")
		}
	}
	// a Disconnected notification of a byz connection delivered while consumeMessage was between its first
	// (GetProtocols) and last (Put AgentVersion) peerstore call
	var start uint64
	for _, c := range x.psLog {
		switch c.op {
		case "GetProtocols":
			start = c.stamp
		case "Put:AgentVersion":
			for _, oc := range x.obsConns {
				if start != 0 && oc.c.RemotePeer() == byz && oc.disconnected > start && oc.disconnected < c.stamp {
					o.Probe("disconnect-during-consumeMessage")
					raced = true
				}
			}
			start = 0
		}
	}
	sort.Strings(sig)
	o.Sig = fmt.Sprintf("cold=%v|lazy=%v|", x.pl.cold, x.pl.lazyWait) + fmt.Sprintf("%s|%d|%v|conns=%d|acts=%d/%d|trig=%d|%s", x.pl.sec, x.pl.link, x.pl.bigProtos, len(x.conns), x.fired, len(x.pl.acts), triggered, strings.Join(sig, ";"))
	o.Nontrivial = adversarialConsumed || raced || triggered > 0
}
