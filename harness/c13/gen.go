package c13

// Generator of byzantine Identify messages. Everything is a pure function of the G stream.
//
// For every generated message the generator also computes, BY CONSTRUCTION (not by asking the
// code under test), what the sender legitimately vouched for: the addresses of the unsigned
// lists of all chunks plus the addresses of every record that the byzantine peer sealed
// itself, for itself, under the peer-record domain, left uncorrupted.

import (
	"encoding/binary"
	"fmt"
	"strings"

	"github.com/libp2p/go-libp2p/core/crypto"
	"github.com/libp2p/go-libp2p/core/peer"
	"github.com/libp2p/go-libp2p/core/record"
	"github.com/libp2p/go-libp2p/p2p/protocol/identify"
	"github.com/libp2p/go-libp2p/p2p/protocol/identify/pb"
	ma "github.com/multiformats/go-multiaddr"
	"google.golang.org/protobuf/proto"

	"verifsim/simhost"
	"verifsim/simrt"
)

// ---- the universe of identities -----------------------------------------------------------

type ident struct {
	name string
	key  crypto.PrivKey
	id   peer.ID
	ip   string
	addr ma.Multiaddr // listen address
}

func mkIdent(name string, seed int, ip string) *ident {
	return mkIdentKey(name, simhost.DetKey(seed), ip)
}

func mkIdentKey(name string, k crypto.PrivKey, ip string) *ident {
	id, err := peer.IDFromPrivateKey(k)
	if err != nil {
		panic(err)
	}
	return &ident{name: name, key: k, id: id, ip: ip, addr: ma.StringCast(fmt.Sprintf("/ip4/%s/tcp/4001", ip))}
}

type world struct {
	obs, byz   *ident
	h1, h2     *ident // honest, connected to the observer
	h3         *ident // honest, known to the observer from its peerstore only (never connected)
	u          *ident // never mentioned to the observer except inside byzantine messages
	others     []*ident
	nameOf     map[peer.ID]string
	honestRecs map[string][]byte // sealed, valid records of h1/h3/u/obs (replay material)
}

func newWorld(byzIP string, rsaByz bool) *world {
	byz := mkIdent("BYZ", 2, byzIP)
	if rsaByz {
		byz = mkIdentKey("BYZ", fixedRSAKey(), byzIP)
	}
	w := &world{
		obs: mkIdent("O", 1, "10.0.0.1"),
		byz: byz,
		h1:  mkIdent("H1", 3, "10.0.2.3"),
		h2:  mkIdent("H2", 4, "10.0.3.4"),
		h3:  mkIdent("H3", 5, "10.0.4.5"),
		u:   mkIdent("U", 6, "10.0.5.6"),
	}
	w.others = []*ident{w.h1, w.h3, w.u, w.obs, w.h2}
	w.nameOf = map[peer.ID]string{}
	for _, x := range []*ident{w.obs, w.byz, w.h1, w.h2, w.h3, w.u} {
		w.nameOf[x.id] = x.name
	}
	w.honestRecs = map[string][]byte{}
	for _, x := range w.others {
		w.honestRecs[x.name] = sealRecord(x.key, x.id, []ma.Multiaddr{x.addr, tcpAddr(x.ip, 4002)}, 7, "")
	}
	return w
}

func (w *world) name(p peer.ID) string {
	if n, ok := w.nameOf[p]; ok {
		return n
	}
	return "?unknown-peer"
}

// ---- addresses ----------------------------------------------------------------------------

func tcpAddr(ip string, port int) ma.Multiaddr {
	return ma.StringCast(fmt.Sprintf("/ip4/%s/tcp/%d", ip, port))
}

// rawTCP builds the binary form of /ip4/a.b.c.d/tcp/port without going through the parser
// (bulk lists).
func rawTCP(ip [4]byte, port int) []byte {
	return []byte{0x04, ip[0], ip[1], ip[2], ip[3], 0x06, byte(port >> 8), byte(port)}
}

func ip4(s string) [4]byte {
	var a, b, c, d int
	fmt.Sscanf(s, "%d.%d.%d.%d", &a, &b, &c, &d)
	return [4]byte{byte(a), byte(b), byte(c), byte(d)}
}

// ---- records ------------------------------------------------------------------------------

// wrongDomainRec is a peer record that signs under another domain.
type wrongDomainRec struct {
	*peer.PeerRecord
	domain string
}

func (r wrongDomainRec) Domain() string { return r.domain }

func sealRecord(signer crypto.PrivKey, about peer.ID, addrs []ma.Multiaddr, seq uint64, domain string) []byte {
	rec := &peer.PeerRecord{PeerID: about, Addrs: addrs, Seq: seq}
	var r record.Record = rec
	if domain != "" {
		r = wrongDomainRec{rec, domain}
	}
	env, err := record.Seal(r, signer)
	if err != nil {
		panic(err)
	}
	b, err := env.Marshal()
	if err != nil {
		panic(err)
	}
	return b
}

// ---- generated message --------------------------------------------------------------------

type genMsg struct {
	tag      string
	desc     string
	chunks   [][]byte        // wire form: uvarint length + protobuf, one entry per chunk
	vouched  map[string]bool // string forms of the addresses the sender legitimately vouched for (see vouch)
	feats    []string        // adversarial features present (probe names)
	nProto   int
	nAddr    int
	hasAgent bool
}

func (m *genMsg) feat(f string) {
	for _, x := range m.feats {
		if x == f {
			return
		}
	}
	m.feats = append(m.feats, f)
}

// vouch records a as vouched. The peerstore documents that it strips a trailing /p2p/<id>; the
// stripped form is accepted for ANY id (weaker reading: whether an address with a foreign
// suffix is dropped or stored bare under the sender is not decided by the statement; what IS
// checked separately is that no stored address carries a foreign suffix).
func (m *genMsg) vouch(a ma.Multiaddr) {
	if a == nil {
		return
	}
	m.vouched[a.String()] = true
	if t, id := peer.SplitAddr(a); id != "" && t != nil {
		m.vouched[t.String()] = true
	}
}

func (m *genMsg) vouchBytes(b []byte) {
	if a, err := ma.NewMultiaddrBytes(b); err == nil {
		m.vouch(a)
	}
}

var protoCounts = []int{3, 0, 127, 128, 129, 1023, 1024, 1025, 3000}

// list sizes sit around the three caps that exist: 20 (kept after a disconnect), 64 (unconnected addresses per
// peer in the address book), 500 (connected)
var addrCounts = []int{2, 0, 1, 20, 21, 60, 64, 65, 100, 499, 500, 501, 700, 900}
var recAddrCounts = []int{2, 0, 21, 64, 65, 100, 500, 501, 700}
var chunkCounts = []int{1, 2, 3, 9, 10, 11}

const (
	recNone = iota
	recValidSelf
	recValidOther     // a genuine record of another peer, replayed
	recWrongDomain    // sealed by the sender for itself under another domain
	recPeerNotSigner  // sealed by the sender, record names another peer
	recSignerNotPeer  // names the sender, sealed by another peer's key
	recCorruptSig     // valid-self with the last signature byte flipped
	recCorruptPayload // valid-self with a payload byte flipped
	recTruncated
	recGarbage
	nRecKinds
)

var recNames = []string{"none", "valid-self", "valid-other", "wrong-domain", "rec-peer-not-signer", "signer-not-peer", "corrupt-sig", "corrupt-payload", "truncated", "garbage"}

const (
	keyOwn = iota
	keyAbsent
	keyOther
	keyGarbage
	keyEmpty
	nKeyKinds
)

var keyNames = []string{"own", "absent", "other", "garbage", "empty"}

type scalars struct {
	pubKey   []byte
	hasKey   bool
	rec      []byte
	observed []byte
	hasObs   bool
	agent    *string
	pv       *string
}

// genRecord returns the bytes of a signed-record field of the given kind.
func genRecord(g simrt.Gen, w *world, m *genMsg, kind int, portBase int, over int) []byte {
	byzIP := ip4(w.byz.ip)
	nAddr := recAddrCounts[g.Weighted(6, 1, 1, 1, 2, 2, 1, 2, 1)]
	if over > 0 {
		nAddr = over
	}
	var addrs []ma.Multiaddr
	for i := 0; i < nAddr; i++ {
		a, _ := ma.NewMultiaddrBytes(rawTCP(byzIP, portBase+i))
		addrs = append(addrs, a)
	}
	if g.Chance(1, 4) {
		// a record address with a foreign / own suffix
		other := w.others[g.Int(len(w.others))]
		addrs = append(addrs, ma.StringCast(fmt.Sprintf("/ip4/%s/tcp/%d/p2p/%s", w.byz.ip, portBase+990, other.id)))
		addrs = append(addrs, ma.StringCast(fmt.Sprintf("/ip4/%s/tcp/%d/p2p/%s", w.byz.ip, portBase+991, w.byz.id)))
		m.feat("foreign-p2p-suffix")
	}
	seq := uint64(1 + g.Int(3))
	switch kind {
	case recValidSelf:
		for _, a := range addrs {
			m.vouch(a)
		}
		if nAddr > 500 {
			m.feat("addr-cap-exceeded")
		}
		if nAddr > 64 {
			m.feat("more-than-64-addrs")
		}
		return sealRecord(w.byz.key, w.byz.id, addrs, seq, "")
	case recValidOther:
		other := w.others[g.Int(len(w.others))]
		return w.honestRecs[other.name]
	case recWrongDomain:
		return sealRecord(w.byz.key, w.byz.id, addrs, seq, "libp2p-routing-state")
	case recPeerNotSigner:
		other := w.others[g.Int(len(w.others))]
		return sealRecord(w.byz.key, other.id, addrs, seq, "")
	case recSignerNotPeer:
		other := w.others[g.Int(len(w.others))]
		return sealRecord(other.key, w.byz.id, addrs, seq, "")
	case recCorruptSig:
		b := sealRecord(w.byz.key, w.byz.id, addrs, seq, "")
		b[len(b)-1] ^= 0x01
		return b
	case recCorruptPayload:
		b := sealRecord(w.byz.key, w.byz.id, addrs, seq, "")
		// the payload sits between the key/type header (~45 bytes) and the 64-byte signature
		i := len(b) - 64 - 4 - 3
		if i < 48 {
			i = 48
		}
		if i >= len(b) {
			i = len(b) - 1
		}
		b[i] ^= 0x10
		return b
	case recTruncated:
		b := sealRecord(w.byz.key, w.byz.id, addrs, seq, "")
		return b[:len(b)/2]
	case recGarbage:
		return []byte{0xff, 0x00, 0x13, 0x37, 0x0a, 0x80}
	}
	return nil
}

func genKey(g simrt.Gen, w *world, m *genMsg, kind int) ([]byte, bool) {
	switch kind {
	case keyOwn:
		b, _ := crypto.MarshalPublicKey(w.byz.key.GetPublic())
		return b, true
	case keyOther:
		other := w.others[g.Int(len(w.others))]
		b, _ := crypto.MarshalPublicKey(other.key.GetPublic())
		m.feat("foreign-public-key")
		return b, true
	case keyGarbage:
		m.feat("garbage-public-key")
		return []byte{0x08, 0x01, 0x12, 0x05, 1, 2, 3, 4, 5}, true
	case keyEmpty:
		return []byte{}, true
	}
	return nil, false
}

func pad(s string, n int) string {
	if len(s) >= n {
		return s
	}
	return s + strings.Repeat("x", n-len(s))
}

// genMessage draws one message. idx numbers the messages of the run (the tag).
// genMessage draws one message. over > 0 forces the size of the address list that will be USED (the unsigned list,
// or the record when the message carries a valid one) and keeps forged records out of it.
func genMessage(g simrt.Gen, w *world, idx int, over int) *genMsg {
	m := &genMsg{tag: fmt.Sprintf("byz/m%d", idx), vouched: map[string]bool{}}
	byzIP := ip4(w.byz.ip)

	// --- repeated fields
	nProto := protoCounts[g.Weighted(8, 1, 1, 1, 1, 1, 1, 3, 2)]
	protos := make([]string, 0, nProto+2)
	for i := 0; i < nProto; i++ {
		protos = append(protos, fmt.Sprintf("/b/%d", i))
	}
	withPush := !g.Chance(1, 3)
	if withPush {
		protos = append(protos, identify.IDPush, identify.ID)
	}
	if g.Chance(1, 6) && len(protos) > 0 {
		protos = append(protos, protos[0], protos[0]) // duplicates
	}
	m.nProto = len(protos)
	if len(protos) > 1024 {
		m.feat("proto-cap-exceeded")
	}

	nAddr := addrCounts[g.Weighted(8, 1, 1, 1, 1, 1, 1, 3, 3, 1, 1, 3, 1, 1)]
	if over > 0 {
		nAddr = over
	}
	portBase := 6000 + 1000*(idx%2) // two address families so that consecutive messages differ
	var laddrs [][]byte
	for i := 0; i < nAddr; i++ {
		laddrs = append(laddrs, rawTCP(byzIP, portBase+i))
	}
	// decorations
	for k, nDeco := 0, g.Weighted(3, 3, 2, 1); k < nDeco; k++ {
		other := w.others[g.Int(len(w.others))]
		switch g.Int(9) {
		case 0: // a fresh address with a foreign /p2p suffix
			laddrs = append(laddrs, ma.StringCast(fmt.Sprintf("/ip4/%s/tcp/%d/p2p/%s", w.byz.ip, 6900+k, other.id)).Bytes())
			m.feat("foreign-p2p-suffix")
		case 1: // the listen address of another peer, with that peer's suffix
			laddrs = append(laddrs, ma.StringCast(fmt.Sprintf("%s/p2p/%s", other.addr, other.id)).Bytes())
			m.feat("foreign-p2p-suffix")
		case 2: // the listen address of another peer, bare (claiming it is legal: it is recorded under the sender)
			laddrs = append(laddrs, other.addr.Bytes())
			m.feat("claims-honest-address")
		case 3: // own suffix
			laddrs = append(laddrs, ma.StringCast(fmt.Sprintf("/ip4/%s/tcp/%d/p2p/%s", w.byz.ip, 6950+k, w.byz.id)).Bytes())
		case 4: // garbage bytes
			laddrs = append(laddrs, []byte{0xff, 0xfe, 0x01})
			m.feat("garbage-address")
		case 5: // circuit address through another peer, and one ending in a foreign id
			laddrs = append(laddrs, ma.StringCast(fmt.Sprintf("%s/p2p/%s/p2p-circuit", other.addr, other.id)).Bytes())
			laddrs = append(laddrs, ma.StringCast(fmt.Sprintf("%s/p2p/%s/p2p-circuit/p2p/%s", other.addr, other.id, w.u.id)).Bytes())
			m.feat("foreign-p2p-suffix")
		case 6: // loopback and public
			laddrs = append(laddrs, tcpAddr("127.0.0.1", 6960+k).Bytes(), tcpAddr("44.1.2.3", 6960+k).Bytes())
		case 7: // bare /p2p/<other>
			laddrs = append(laddrs, ma.StringCast("/p2p/"+other.id.String()).Bytes())
			m.feat("foreign-p2p-suffix")
		case 8: // duplicate of the first
			if len(laddrs) > 0 {
				laddrs = append(laddrs, laddrs[0], laddrs[0])
			}
		}
	}
	m.nAddr = len(laddrs)
	if len(laddrs) > 500 {
		m.feat("addr-cap-exceeded")
	}
	if len(laddrs) > 64 {
		m.feat("more-than-64-addrs")
	}
	for _, b := range laddrs {
		m.vouchBytes(b)
	}

	// --- scalar fields: a primary set and, sometimes, a second set placed in another chunk
	recKind := g.Weighted(4, 4, 2, 1, 2, 2, 1, 1, 1, 1)
	if over > 0 && recKind > recValidSelf {
		recKind = recNone
	}
	keyKind := g.Weighted(5, 2, 3, 1, 1)
	var prim, alt scalars
	prim.rec = genRecord(g, w, m, recKind, 7000+1000*(idx%2), over)
	if recKind >= recValidOther {
		m.feat("forged-record-" + recNames[recKind])
	}
	prim.pubKey, prim.hasKey = genKey(g, w, m, keyKind)
	switch g.Weighted(4, 1, 1, 1) {
	case 0:
		prim.observed, prim.hasObs = w.obs.addr.Bytes(), true
	case 2:
		prim.observed, prim.hasObs = []byte{0xde, 0xad, 0xbe, 0xef}, true
		m.feat("junk-observed-addr")
	case 3:
		prim.observed, prim.hasObs = ma.StringCast(fmt.Sprintf("/ip4/66.6.6.6/tcp/666/p2p/%s", w.h1.id)).Bytes(), true
	}
	agentKind := g.Weighted(14, 2, 2, 1)
	switch agentKind {
	case 0:
		s := m.tag
		prim.agent = &s
	case 2:
		s := pad(m.tag+"/", 4000)
		prim.agent = &s
		m.feat("oversized-agent")
	case 3:
		s := pad(m.tag+"/", 9000)
		prim.agent = &s
		m.feat("oversized-agent")
	}
	m.hasAgent = prim.agent != nil
	switch g.Weighted(4, 1, 1) {
	case 0:
		s := "ipfs/0.1.0"
		prim.pv = &s
	case 2:
		s := pad("pv/", 3000)
		prim.pv = &s
	}
	dup := g.Chance(1, 4) && over == 0
	altRecKind, altKeyKind := recNone, keyAbsent
	if dup {
		m.feat("scalar-duplicated-across-chunks")
		altRecKind = g.Weighted(0, 2, 2, 1, 2, 2, 1, 1, 1, 1)
		altKeyKind = g.Weighted(2, 0, 3, 1, 1)
		alt.rec = genRecord(g, w, m, altRecKind, 8000, 0)
		if altRecKind >= recValidOther {
			m.feat("forged-record-" + recNames[altRecKind])
		}
		alt.pubKey, alt.hasKey = genKey(g, w, m, altKeyKind)
		if prim.agent != nil {
			s := m.tag + "/alt"
			alt.agent = &s
		}
	}

	// --- chunking
	size := 0
	for _, p := range protos {
		size += len(p) + 2
	}
	for _, a := range laddrs {
		size += len(a) + 2
	}
	scalarSize := func(s scalars) int {
		n := len(s.pubKey) + len(s.rec) + len(s.observed)
		if s.agent != nil {
			n += len(*s.agent)
		}
		if s.pv != nil {
			n += len(*s.pv)
		}
		return n
	}
	need := size/7000 + 1
	nChunks := chunkCounts[g.Weighted(6, 2, 1, 2, 1, 1)]
	allowOversize := g.Chance(1, 10)
	if nChunks < need && !allowOversize {
		nChunks = need
	}
	if dup && nChunks == 1 {
		nChunks = 2 // one chunk cannot carry a scalar twice
	}
	interleave := g.Bool()
	primDraw, altDraw := g.Int(1000), g.Int(1000)
	var msgs []*pb.Identify
	var primAt, altAt int
	for {
		msgs = make([]*pb.Identify, nChunks)
		for i := range msgs {
			msgs[i] = &pb.Identify{}
		}
		primAt, altAt = primDraw%nChunks, -1
		if dup {
			altAt = (primAt + 1 + altDraw%(nChunks-1)) % nChunks
		}
		// chunks that carry a large scalar set take no repeated items (when there are other chunks)
		var carriers []int
		for c := 0; c < nChunks; c++ {
			if (c == primAt && scalarSize(prim) > 2500) || (c == altAt && scalarSize(alt) > 2500) {
				continue
			}
			carriers = append(carriers, c)
		}
		if len(carriers) == 0 {
			carriers = []int{primAt}
		}
		place := func(i, n int) int { // chunk of item i of n
			if interleave {
				return carriers[i%len(carriers)]
			}
			return carriers[i*len(carriers)/n]
		}
		for i, p := range protos {
			c := msgs[place(i, len(protos))]
			c.Protocols = append(c.Protocols, p)
		}
		for i, a := range laddrs {
			c := msgs[place(i, len(laddrs))]
			c.ListenAddrs = append(c.ListenAddrs, a)
		}
		setScalars := func(c *pb.Identify, s scalars) {
			if s.hasKey {
				c.PublicKey = s.pubKey
			}
			if s.rec != nil {
				c.SignedPeerRecord = s.rec
			}
			if s.hasObs {
				c.ObservedAddr = s.observed
			}
			if s.agent != nil {
				c.AgentVersion = s.agent
			}
			if s.pv != nil {
				c.ProtocolVersion = s.pv
			}
		}
		setScalars(msgs[primAt], prim)
		if dup {
			setScalars(msgs[altAt], alt)
		}
		big := false
		for _, c := range msgs {
			if proto.Size(c) > 8*1024 {
				big = true
			}
		}
		if !big || allowOversize || nChunks >= 9 {
			break
		}
		nChunks++
	}
	if nChunks > 9 {
		m.feat("too-many-chunks")
	}
	for _, c := range msgs {
		b, err := proto.Marshal(c)
		if err != nil {
			panic(err)
		}
		if len(b) > 8*1024 {
			m.feat("oversized-chunk")
		}
		wire := binary.AppendUvarint(nil, uint64(len(b)))
		m.chunks = append(m.chunks, append(wire, b...))
	}
	m.desc = fmt.Sprintf("%s: %d protocols (push=%v) %d listen addrs, key=%s record=%s", m.tag, len(protos), withPush, len(laddrs), keyNames[keyKind], recNames[recKind])
	if dup {
		m.desc += fmt.Sprintf(" | second scalar set in chunk %d: key=%s record=%s", altAt, keyNames[altKeyKind], recNames[altRecKind])
	}
	m.desc += fmt.Sprintf(" | %d chunks (scalars in %d, interleave=%v) agent=%d feats=%v", nChunks, primAt, interleave, agentKind, m.feats)
	return m
}
