// C10 — blocked peers, addresses and subnets never obtain a connection; rules persist.
//
// Four strata, drawn first (hooks-direct | full-stack over TCP | full-stack with QUIC next to TCP | full-stack with a relay):
//
//	full-stack   three REAL nodes on simnet (swarm, TCP dial path, gated listener, upgrader, Noise, yamux):
//	             G owns a real conngater.BasicConnectionGater on a simdisk.Disk; P and Q (no gater) sit on IP
//	             addresses drawn from the edges of the subnets that get blocked (IPv4 and IPv6). A history of
//	             Block*/Unblock* calls (peer / addr in 4- and 16-byte form / subnets in canonical and non-canonical spellings), each optionally
//	             cut by a process stop right after its datastore mutation or failed by an I/O error, clean
//	             restarts, and rounds of concurrent dials in both directions (G dials P/Q through /ip4, /ip6,
//	             /ip6/::ffff:a.b.c.d, /dns4, /dns6, /dns forms resolved by a fake resolver, plus decoy addresses
//	             nobody listens on; P/Q dial G; every dial is triggered either by Swarm.DialPeer or by
//	             Swarm.NewStream, which dials when it finds no connection). A restart closes G and builds a new node with a NEW gater
//	             opened on the same Disk.
//	full-stack-quic the same histories with every node listening on TCP, QUIC AND WebTransport (real p2p/transport/quic,
//	             quicreuse, p2p/transport/webtransport, quic-go, http3, webtransport-go, all instrumented, over simnet's UDP
//	             model; crypto/rand pinned by simrand). Per dial the dialler knows a drawn non-empty subset of the peer's
//	             address kinds {QUIC, WebTransport, TCP} (with several the swarm's dial ranker races them). G's QUIC
//	             forms: /ip4|/ip6/…/udp/4001/quic-v1, /ip6/::ffff:a.b.c.d/udp/… (never connectable: Go refuses "udp6" for
//	             a mapped address — the gater is still asked first), /dns4|/dns6; WebTransport forms: the peer's
//	             node.WTAddr() (current certhashes) in the same three spellings; QUIC / WebTransport decoys. Here the
//	             transports call the gater themselves: QUIC — InterceptAccept + InterceptSecured in listener.Accept (after
//	             the QUIC handshake: the connection arrives secured), InterceptSecured(outbound) in transport.dial;
//	             WebTransport — InterceptAccept in the HTTP handler of the CONNECT request (refusal = 403), then a Noise
//	             handshake on the session's first stream, then InterceptSecured(inbound) (refusal = session closed);
//	             InterceptSecured(outbound) after the dialler's Noise handshake. In 2/5 of these runs datagrams are
//	             lost (<= 30 %), duplicated and delayed/reordered; the faults stop before the final round (everything
//	             closed on both sides + 45 virtual seconds > QUIC idle timeout); only rounds without faults expect
//	             liveness, and under faults 15 virtual seconds (> the WebTransport listener's 10 s handshake timeout)
//	             pass after a round, so that no inbound handshake that passed InterceptAccept straddles a rule change.
//	             Hole-punch rounds (QUIC stratum only, see punchRound): G punches towards P or Q in the SERVER role
//	             (Swarm.DialPeer or the QUIC transport's Dial with WithSimultaneousConnect(ctx,false,…)) while the host
//	             or its twin (same key, on the host's decoy IP, alive for that round) dials G over QUIC after 0 / 50 ms /
//	             1 s / 4.9 s; optionally one Block/Unblock on a rule matching the host or the twin returns mid-punch.
//	full-stack-relay  full-stack over TCP with basic hosts: Q runs the REAL circuit-v2 relay service (unlimited), P has
//	             the circuit client transport and holds a reservation on Q, G has the real client transport (wrapped:
//	             every address that reaches its Dial is judged). In half of G's dials of P the relayed address
//	             /ip/Q/tcp/4001/p2p/Q/p2p-circuit is all G knows, and connections are kept across steps in 5/8 of the
//	             rounds, so that "G connected to the relay, then the relay's IP / subnet is blocked, then G dials P through
//	             the circuit" occurs: the client transport reuses the existing connection, no dial of the relay happens,
//	             and only InterceptAddrDial on the circuit address (its IP component is the relay's) stands in the way.
//	             In the other full-stack strata a STUB transport on G claims /p2p-circuit addresses and fails every dial at
//	             once: it is the observation point "this address was handed to a transport's Dial" (relay = the other
//	             host or the peer's decoy IP under a relay identity nobody runs).
//	hooks-direct the gater alone (same histories, faults, restarts); after every call every Intercept* hook is
//	             asked about every pool IP in every textual form (/ip4, /ip6, /ip6/::ffff:…, /ip6zone, quic-v1,
//	             webtransport, webrtc-direct, ws, bare IP) and about forms without IP component.
//
// Harness hygiene (audit): the calls made only to observe — ListBlocked*, Swarm.ConnsToPeer, simnet's Conns/Dials/
// Stats, simdisk.Keys, the Intercept* sweep of hooks-direct — read under read locks and write nothing. There is no
// warm-up: the first step may be a Block, UDP faults are on from the first datagram, every restart gives a node
// whose first contacts happen under the restored rules. Two set-up actions used to reset swarm state before every
// round and are drawn now: the dial back-off is left in place after 1/4 of the rounds/restarts (no liveness is
// expected for that pair in the next round) and G's / the remote's peerstore record of the other side is kept
// instead of replaced in 1/3 of the dials (addresses learned before the last rule change, incl. the swarm's own
// resolved TempAddrTTL entries, are met by the next dial). Rule changes happen at quiescent instants (except
// mid-punch): Block*/Unblock* never race with an in-flight handshake in ordinary rounds — a stated assumption.
//
// Subnet spellings: BlockSubnet / UnblockSubnet are also called with non-canonical values (host bits set, 16-byte IPv4
// with a 4-byte mask, IPv4-mapped with and without host bits), and Unblock uses the very spelling of an earlier call.
// The model keys a subnet by the network it denotes; lists are compared by network (a reloaded rule may be listed in
// canonical spelling). Where one network was blocked under two spellings and one is unblocked the statement is
// silent (one rule or two?): the other spelling becomes "unknown" (weaker reading). (Non-contiguous masks are not
// generated: IPNet.String() prints them in a form ParseCIDR cannot read back.)
//
// Reference model: the ACKNOWLEDGED rule set. A call that returned nil sets its rule to blocked/unblocked; a
// call that returned an error or was cut by the process stop leaves the rule "unknown" (either way is legal)
// unless it already was in the target state. Oracles use definite states only.
//
// Oracles (all for G, the owner of the gater; the remote may see a connection for an instant):
//
//	admitted-*       a Connected notification on G (judged when it arrives) / a ConnsToPeer entry nobody was notified
//	                 of, whose remote matches a rule that is definitely in force (rules only change at quiescent
//	                 instants between rounds, and gating hooks -> addConn -> notification of an inbound connection
//	                 needs no virtual time, so "in force now" = "in force when it had to pass"; connections that
//	                 existed before are exempt: documented to survive). QUIC / WebTransport connections get ".../quic", ".../webtransport" classes.
//	dialed-*         a simnet dial attempt from G's IP to an address matching a definitely blocked addr/subnet, or
//	                 to an address of a definitely blocked peer; QUIC-based (dialed-*/quic|webtransport|
//	                 quic-or-webtransport, by what G knew of that IP in the round): a client Initial packet from G
//	                 to such an address seen on the UDP wire (an Initial whose destination connection id the
//	                 destination never announced as its source connection id — see udpDial; traffic of connections
//	                 that exist already and G's answers as a server are not attempts)
//	refused-inbound-not-closed  (rounds without UDP faults) 5 virtual seconds after its dial a remote that matches a
//	                 definitely blocked rule, had no connection before the round and is not listed by G still lists a
//	                 connection to G: G refused a QUIC / WebTransport connection without closing it (these arrive fully
//	                 established at the gating point, so "closed at accept / right after the handshake" is visible only
//	                 as the remote's connection going away; far below the 30 s idle timeout)
//	punch-returned-* what the QUIC transport's server-role Dial RETURNS (called directly) matches a rule definitely in force
//	dialed-*/circuit, hook-not-consulted/InterceptAddrDial/outbound/circuit  a relayed address reached a transport's Dial on
//	                 G although its IP component (the relay's) matches a rule definitely in force / although the
//	                 gater never allowed it at InterceptAddrDial; admitted-*/outbound/circuit for relayed connections
//	hook-not-consulted  a connection is admitted on G although the gater did not allow it, since this node started,
//	                 at one of the call sites the ConnectionGater interface documents for it (outbound: PeerDial,
//	                 AddrDial for that transport+IP, Secured(outbound) for that peer+transport+IP, Upgraded for that
//	                 very connection: existence; inbound: Accept, Secured(inbound): COUNTED — connections admitted per
//	                 (transport, IP[, peer]) never exceed the allowing answers — and Upgraded). A connection handed
//	                 out by a server-role QUIC hole punch is the remote's inbound connection (the swarm files it as
//	                 outbound): it is held to the inbound call sites. From the interface documentation
//	                 and the quantifier's "each transport's own gating call sites". BasicConnectionGater answers
//	                 Secured(outbound) with true always, so this is the only oracle that can see a transport whose
//	                 dial path does not ask.
//	inbound-*        raw listener-end connection from a definitely blocked IP not closed, or any byte read/written
//	                 on it, at the first quiescent instant after the dials returned (= closed at accept, no
//	                 handshake); from a definitely blocked peer: not closed at that instant (no time has passed, so
//	                 "right after the handshake" needs no timer)
//	hook/*           (live calls seen by a delegating recorder, and the direct sweep) the hook designated by the
//	                 statement lets a definitely matching remote pass: InterceptPeerDial / InterceptSecured(inbound)
//	                 for peers, InterceptAddrDial / InterceptAccept for addresses and subnets; or any hook refuses a
//	                 remote that no possibly-in-force rule matches (reading of "every unblock whose call returned
//	                 success is not enforced"; a never-blocked remote is the same case)
//	list/*           ListBlocked* misses an acknowledged block or lists a rule whose state is "unblocked"; checked
//	                 after every call and after every reopen (discriminator live|restored = the rule's state was set
//	                 by this gater object | came from the datastore)
//	restart-changed  the listed rule set before a restart differs from the one after it, except for the rule of
//	                 the call that was in flight at the stop ("rules written through the gater survive a restart";
//	                 this is what catches a rule that lives in memory only after a failed write)
//
// Weaker readings taken: nothing is asserted about rules in "unknown" state, about InterceptSecured(outbound) /
// InterceptUpgraded for blocked remotes (the statement names the earlier hooks), about address forms without IP
// component (only: no panic), about the error value of a refused dial, about the remote side. A failed
// connection although no rule matches is harness trouble unless a hook refused.
//
// Not simulated (gap): the WebRTC and websocket listeners' own InterceptAccept / InterceptSecured call sites; their
// address forms reach the real gater in the hooks-direct stratum only. QUIC's and WebTransport's call sites run in the
// full-stack-quic stratum. For those two "closed at accept" cannot mean "before any handshake": the statement's accept
// is the transport's gating point, which quic-go / the HTTP handler reach after the QUIC handshake; asserted is that
// such a connection is never admitted (no notification, no ConnsToPeer entry, hence no stream), that the hooks were
// asked, and that G closes what it refuses (refused-inbound-not-closed). An inbound remote multiaddr in
// /ip6/::ffff:a.b.c.d form cannot occur over TCP or UDP (Go's net.TCPAddr / simnet fold it to IPv4; a host configured
// with the mapped spelling as source IP is still seen as /ip4 by G — exercised as "mapped-source"), so that form is
// covered inbound by hooks-direct only and outbound by every stratum.
//
// Sensitivity. Each mutation was applied alone to a private copy of the instrumented overlay (conngater.go,
// swarm_dial.go, upgrader/listener.go, upgrader/upgrader.go), one worker, budget 60 s; all 27 of the first batch were reported within
// 25 s (most within 5 s). Class that fired first in the default stratum mix / classes that fired with
// C10_ONLY=full (full-stack stratum alone), where that was run:
//
//	IPv4-mapped form bypasses BlockAddr (lookup keyed by ::ffff: text)   hook/Intercept{AddrDial,Accept}/allowed-blocked-addr/ip6-mapped
//	                                                                     full: + dialed-blocked-addr, admitted-blocked-addr/outbound
//	IPv4-mapped form bypasses BlockSubnet (length-strict Contains)       hook/…/allowed-blocked-subnet/ip6-mapped; full: + dialed-blocked-subnet, admitted-blocked-subnet/outbound
//	subnet: last address excluded                                        hook/…/allowed-blocked-subnet/{ip4,ip6,ip6zone,ip6-mapped}; full: + inbound-not-closed-at-accept/subnet, dialed-…, admitted-…/inbound+outbound
//	subnet: first address excluded                                       same classes
//	subnet: one address beyond the last included                         hook/Intercept{AddrDial,Accept}/refused-non-matching
//	InterceptSecured ignores inbound peers                               hook/InterceptSecured/allowed-blocked-peer; full: + inbound-blocked-peer-not-closed-after-handshake, admitted-blocked-peer/inbound
//	InterceptAccept looks at the local address                           hook/InterceptAccept/allowed-blocked-addr, inbound-not-closed-at-accept/addr, admitted-blocked-addr/inbound
//	BlockSubnet / BlockPeer: datastore Put skipped                       list/acked-block-missing/{subnet,peer}/restored, restart-changed-rules/…/vanished
//	UnblockAddr: datastore Delete skipped                                list/not-blocked-listed/addr/restored, restart-changed-rules/addr/appeared, hook/…/refused-non-matching
//	BlockAddr updates memory before the write (I/O error leaves it)      restart-changed-rules/addr/vanished
//	UnblockPeer updates memory before the write                          restart-changed-rules/peer/appeared
//	BlockPeer / UnblockSubnet swallow the datastore error                list/acked-block-missing/peer/restored | list/not-blocked-listed/subnet/restored (+ restart-changed-rules, admitted-blocked-peer/outbound)
//	BlockAddr datastore key depends on the byte length of the IP         list/not-blocked-listed/addr/restored, restart-changed-rules/addr/appeared
//	BlockSubnet persists "<ip>/32" as value                              list/acked-block-missing/subnet/restored, list/not-blocked-listed/subnet
//	loadRules skips peers | addrs | subnets, stops after the first addr  list/acked-block-missing/<kind>/restored, restart-changed-rules/<kind>/vanished (+ hook/…, dialed-…, admitted-… restored)
//	loadRules swallows the error of the subnet query                     list/acked-block-missing/subnet/restored
//	swarm: InterceptAddrDial not consulted                               dialed-blocked-addr, admitted-blocked-addr/outbound
//	swarm: InterceptPeerDial not consulted                               dialed-blocked-peer, admitted-blocked-peer/outbound
//	swarm: existing-conn lookup + InterceptPeerDial moved from dialPeer   dialed-blocked-peer, admitted-blocked-peer/outbound (seeded change C10b/1; MISSED while DialPeer was the
//	  up into the public DialPeer (Swarm.NewStream dials ungated)        only dial trigger, caught within 60 s on 8 workers since Swarm.NewStream is a trigger too)
//	swarm: addresses produced by DNS resolution are not gated            dialed-blocked-subnet, admitted-blocked-subnet/outbound (only the swarm-level oracles can see this one)
//	gated listener: InterceptAccept not consulted                        inbound-not-closed-at-accept/addr, admitted-blocked-addr/inbound
//	upgrader: InterceptSecured not consulted                             inbound-blocked-peer-not-closed-after-handshake, admitted-blocked-peer/inbound
//
// QUIC stratum (same procedure, overlay copies of p2p/transport/quic/{listener,transport}.go; seconds to detect):
//
//	listener.go: InterceptSecured dropped from the inbound check           hook-not-consulted/InterceptSecured/inbound/quic (first connection), admitted-blocked-peer/inbound/quic/{live,restored}
//	listener.go: InterceptSecured inverted                                  admitted-blocked-peer/inbound/quic
//	listener.go: InterceptAccept dropped                                    hook-not-consulted/InterceptAccept/inbound/quic, admitted-blocked-{addr,subnet}/inbound/quic/{ip4,ip6}/{live,restored}
//	listener.go: gated connection not closed / handed to the swarm anyway   admitted-blocked-peer/inbound/quic
//	transport.go dial path: InterceptSecured(outbound) dropped              hook-not-consulted/InterceptSecured/outbound/quic ONLY (invisible in behaviour with this gater, see above)
//	listener.go: gated connection refused but left open (no closeWithError)  refused-inbound-not-closed/{peer,addr,subnet}/quic/{live,restored}
//	swarm: InterceptAddrDial / InterceptPeerDial not consulted (C10_ONLY=quic)  dialed-blocked-{addr,subnet,peer}/quic, admitted-…/outbound/quic, hook-not-consulted/Intercept{Addr,Peer}Dial/outbound/{tcp,quic}
//
// Seeded changes C10c/1 and C10c/2 (QUIC hole-punch hand-off; scratch copies of the tree, `./check C10 quick`, 8 workers):
//
//	listener.Accept hands a connection matching a pending punch to the Dial BEFORE the gater check   hook-not-consulted/Intercept{Accept,Secured}/inbound/quic, punch-returned-blocked-{addr,subnet}/quic, admitted-blocked-{subnet,…}/outbound/quic, refused-inbound-not-closed/*/quic
//	punch matched by peer id alone + InterceptAccept skipped for connections answering a punch       admitted-blocked-{addr,subnet}/outbound/quic/{ip4,ip6}, punch-returned-blocked-{addr,subnet}/quic, refused-inbound-not-closed/{addr,subnet}/quic (twin from a blocked IP)
//	(both MISSED before hole-punch rounds existed)
//
// Seeded changes C10d/1 and C10d/2 (scratch copies of the tree, `./check C10 quick`, 8 workers; both MISSED before):
//
//	swarm filterKnownUndialables lets /p2p-circuit addresses through without InterceptAddrDial   hook-not-consulted/InterceptAddrDial/outbound/circuit, dialed-blocked-{addr,subnet}/circuit/{live,restored} (stub and real relay); relay stratum: admitted-blocked-addr/outbound/circuit/… (existing relay connection reused)
//	loadRules keys a reloaded subnet by its canonical spelling (Unblock of a host-bits spelling after a restart misses it)   list/not-blocked-listed/subnet/live, hook/Intercept{AddrDial,Accept}/refused-non-matching, restart-changed-rules/subnet/{appeared,vanished}
//
// WebTransport (overlay copies of p2p/transport/webtransport/{listener,transport}.go, C10_ONLY=quic, one worker, <= 60 s):
//
//	listener.go: InterceptAccept skipped                                    hook-not-consulted/InterceptAccept/inbound/webtransport, admitted-blocked-{addr,subnet}/inbound/webtransport/{ip4,ip6}/{live,restored}
//	listener.go: InterceptSecured(inbound) skipped                          hook-not-consulted/InterceptSecured/inbound/webtransport, admitted-blocked-peer/inbound/webtransport/{live,restored}
//	listener.go: InterceptSecured(inbound) inverted                         admitted-blocked-peer/inbound/webtransport/{live,restored}
//	listener.go: gated session neither closed nor dropped (admitted)        admitted-blocked-peer/inbound/webtransport/{live,restored}
//	listener.go: gated session dropped but not closed                       refused-inbound-not-closed/peer/webtransport/{live,restored}
//	transport.go dial path: InterceptSecured(outbound) dropped              hook-not-consulted/InterceptSecured/outbound/webtransport ONLY (as for QUIC)
//
// Missed: none of those tried. (A first version of the DNS mutation — gating before resolution — broke
// connectivity altogether and was reported as harness trouble, not as a violation; it was replaced by the one above.)
package c10

import (
	"context"
	"errors"
	"fmt"
	"net"
	"os"
	"sort"
	"strings"
	"sync"
	"testing"
	"time"

	"github.com/libp2p/go-libp2p/core/control"
	"github.com/libp2p/go-libp2p/core/network"
	"github.com/libp2p/go-libp2p/core/peer"
	"github.com/libp2p/go-libp2p/core/peerstore"
	"github.com/libp2p/go-libp2p/core/transport"
	"github.com/libp2p/go-libp2p/p2p/net/conngater"
	"github.com/libp2p/go-libp2p/p2p/net/swarm"
	"github.com/libp2p/go-libp2p/p2p/protocol/circuitv2/client"
	"github.com/libp2p/go-libp2p/p2p/protocol/circuitv2/relay"
	ma "github.com/multiformats/go-multiaddr"

	"verifsim/harness/common"
	"verifsim/simdisk"
	"verifsim/simhost"
	"verifsim/simnet"
	"verifsim/simrand"
	"verifsim/simrt"
)

// forceStratum: development knob for sensitivity runs (C10_ONLY=full|hooks|quic|relay restricts the sweep to one stratum;
// C10_DEBUG=1 prints the decoded trace of a run that ends in trouble or a violation).
// Unset in every registered run; the stratum draw is still consumed, so tapes stay comparable.
var forceStratum = func() int {
	switch os.Getenv("C10_ONLY") {
	case "full":
		return 1
	case "hooks":
		return 0
	case "quic":
		return 2
	case "relay":
		return 3
	}
	return -1
}()

func TestSim(t *testing.T) { common.Main(t, common.Harness{Property: "C10", Run: run}) }

// ---- gater + disk + model (both strata) ----------------------------------------------------------------

type world struct {
	o  *common.Outcome
	g  simrt.Gen
	mu sync.Mutex // real mutex, leaf: guards what swarm goroutines write (events, outcome maps)

	disk  *simdisk.Disk
	gater *conngater.BasicConnectionGater
	inc   int // gater incarnation
	m     *model
	cat   []*rule
	names map[peer.ID]string
	ids   map[string]peer.ID

	touched    []*rule // rules (by key and spelling) some call was made on, in order of first use
	lastListed map[string]bool
	inflight   string
	ackedBlock int
	checked    int // oracle evaluations that had a definite expectation after the first acknowledged block
	sig        []string
	dead       bool // stop the history (harness trouble)
}

func (w *world) violate(class, format string, a ...any) {
	w.mu.Lock()
	w.o.Violate(class, format, a...)
	w.mu.Unlock()
}
func (w *world) probe(name string) { w.mu.Lock(); w.o.Probe(name); w.mu.Unlock() }
func (w *world) logf(format string, a ...any) {
	w.mu.Lock()
	w.o.Logf(format, a...)
	w.mu.Unlock()
}
func (w *world) trouble(format string, a ...any) {
	w.mu.Lock()
	if w.o.Trouble == "" {
		w.o.Trouble = fmt.Sprintf(format, a...)
	}
	w.mu.Unlock()
	w.dead = true
}

// phase tells whether the state of rule key was set by the current gater object or by an earlier one
// (i.e. the current object knows it from the datastore).
func (w *world) phase(key string) string {
	if e, ok := w.m.epoch[key]; ok && e != w.inc {
		return "restored"
	}
	return "live"
}

func opName(block bool, kind int) string {
	n := "Unblock"
	if block {
		n = "Block"
	}
	return n + []string{"Peer", "Addr", "Subnet"}[kind]
}

// crashCall runs f; a simdisk.Crash panic is the simulated process stop.
func crashCall(f func()) (crashed bool) {
	defer func() {
		if r := recover(); r != nil {
			if _, ok := r.(simdisk.Crash); ok {
				crashed = true
				return
			}
			panic(r)
		}
	}()
	f()
	return false
}

// applyRule performs one Block*/Unblock* call under the drawn fault (0 none, 1 process stop right after the
// datastore mutation, 2 I/O error on the datastore operation) and updates the model from what the caller saw.
func (w *world) applyRule(block bool, r *rule, fault int) (crashed bool) {
	name := opName(block, r.kind)
	switch fault {
	case 1:
		w.disk.CrashAfter = w.disk.Mutations() + 1
	case 2:
		w.disk.FailOp = w.disk.Ops() + 1
	}
	var err error
	crashed = crashCall(func() {
		switch {
		case block && r.kind == kPeer:
			err = w.gater.BlockPeer(r.pid)
		case block && r.kind == kAddr:
			err = w.gater.BlockAddr(r.ip)
		case block && r.kind == kSubnet:
			err = w.gater.BlockSubnet(r.ipnet)
		case r.kind == kPeer:
			err = w.gater.UnblockPeer(r.pid)
		case r.kind == kAddr:
			err = w.gater.UnblockAddr(r.ip)
		default:
			err = w.gater.UnblockSubnet(r.ipnet)
		}
	})
	w.disk.CrashAfter, w.disk.FailOp = 0, 0
	res := "ok"
	switch {
	case crashed:
		res = "PROCESS-STOP after the datastore mutation"
		w.o.Fault("process-stop-after-mutation")
		w.probe("stop-in-" + name)
		w.inflight = r.key
	case err != nil && errors.Is(err, simdisk.ErrInjected):
		res = "error (injected I/O error)"
		w.o.Fault("ds-io-error")
		w.probe("io-error-in-" + name)
	case err != nil:
		w.trouble("%s(%s) failed without an injected fault: %v", name, r.label, err)
		return false
	}
	acked := !crashed && err == nil
	w.m.update(r, block, acked, w.inc)
	known := false
	for _, t := range w.touched {
		if t.key == r.key && t.spell == r.spell && len(t.ip) == len(r.ip) {
			known = true
		}
	}
	if !known {
		w.touched = append(w.touched, r)
	}
	if r.kind == kSubnet && r.spell != strings.TrimPrefix(r.key, "s:") {
		w.probe("subnet-call-non-canonical-spelling")
	}
	if acked && block {
		w.ackedBlock++
	}
	w.logf("%s(%s) -> %s; model: %s = %s", name, r.label, res, r.key, w.m.state[r.key])
	w.sig = append(w.sig, fmt.Sprintf("%s(%s)=%s", name, r.label, res[:2]))
	if !crashed {
		w.checkLists()
	}
	return crashed
}

func (w *world) listed() map[string]bool {
	out := map[string]bool{}
	for _, p := range w.gater.ListBlockedPeers() {
		if n, ok := w.names[p]; ok {
			out["p:"+n] = true
		} else {
			out["p:?"] = true
		}
	}
	for _, ip := range w.gater.ListBlockedAddrs() {
		if ip == nil {
			out["a:?"] = true
		} else {
			out["a:"+normIP(ip)] = true
		}
	}
	for _, n := range w.gater.ListBlockedSubnets() {
		if n == nil {
			out["s:?"] = true
		} else {
			out["s:"+canonNet(n)] = true // by network: a reloaded rule may be listed in canonical spelling
		}
	}
	return out
}

func keyKind(k string) string {
	switch k[0] {
	case 'p':
		return "peer"
	case 'a':
		return "addr"
	}
	return "subnet"
}

func sortedKeys(m map[string]bool) []string {
	ks := make([]string, 0, len(m))
	for k := range m {
		ks = append(ks, k)
	}
	sort.Strings(ks)
	return ks
}

// checkLists: the rule lists equal the acknowledged set (unknown rules may go either way).
func (w *world) checkLists() {
	l := w.listed()
	for _, k := range w.m.keys() {
		if w.m.state[k] == stBlocked && !l[k] {
			w.violate("C10/list/acked-block-missing/"+keyKind(k)+"/"+w.phase(k), "rule %s: Block returned nil (and no later Unblock was invoked) but ListBlocked* of gater incarnation %d does not contain it; listed: %v", k, w.inc, sortedKeys(l))
		}
		if w.m.state[k] == stBlocked && w.ackedBlock > 0 {
			w.bump()
		}
	}
	for _, k := range sortedKeys(l) {
		if w.m.state[k] == stUnblocked {
			w.violate("C10/list/not-blocked-listed/"+keyKind(k)+"/"+w.phase(k), "rule %s is listed by gater incarnation %d although it was never blocked or its Unblock returned nil", k, w.inc)
		}
	}
	w.lastListed = l
}

// reopen: open a NEW gater on the same disk (the old object is abandoned). afterStop = the process stopped
// in the middle of a call. Returns false on harness trouble.
func (w *world) reopen(afterStop bool) bool {
	before := w.lastListed
	loadFault := 0
	if w.g.Chance(1, 5) {
		loadFault = 1 + w.g.Int(3) // the 1st..3rd datastore operation of the load fails
	}
	var cg *conngater.BasicConnectionGater
	for attempt := 0; attempt < 2; attempt++ {
		if attempt == 0 && loadFault > 0 {
			w.disk.FailOp = w.disk.Ops() + loadFault
		}
		var err error
		cg, err = conngater.NewBasicConnectionGater(w.disk)
		w.disk.FailOp = 0
		if err == nil {
			break
		}
		cg = nil
		if attempt == 0 && loadFault > 0 && errors.Is(err, simdisk.ErrInjected) {
			w.o.Fault("ds-io-error")
			w.probe("io-error-in-load")
			w.logf("open gater on the same disk -> error (injected I/O error in load); retry")
			continue
		}
		w.trouble("NewBasicConnectionGater failed without injected fault: %v", err)
		return false
	}
	if cg == nil {
		w.trouble("NewBasicConnectionGater failed twice")
		return false
	}
	w.gater = cg
	w.inc++
	if afterStop {
		w.probe("reopen-after-stop")
		w.sig = append(w.sig, "reopen!")
	} else {
		w.probe("reopen-clean")
		w.sig = append(w.sig, "reopen")
	}
	w.logf("gater incarnation %d opened on the same disk (keys on disk: %v)", w.inc, w.disk.Keys())
	w.checkLists()
	now := w.lastListed
	for _, k := range sortedKeys(before) {
		if !now[k] && k != w.inflight {
			w.violate("C10/restart-changed-rules/"+keyKind(k)+"/vanished", "rule %s was listed before the restart and is not listed after it (in-flight call at the stop: %q)", k, w.inflight)
		}
	}
	for _, k := range sortedKeys(now) {
		if !before[k] && k != w.inflight {
			w.violate("C10/restart-changed-rules/"+keyKind(k)+"/appeared", "rule %s was not listed before the restart and is listed after it (in-flight call at the stop: %q)", k, w.inflight)
		}
	}
	w.inflight = ""
	return true
}

// drawOp draws a Block/Unblock call: (block?, rule, fault).
func (w *world) drawOp() (bool, *rule, int) {
	block := w.g.Weighted(3, 2) == 0
	var r *rule
	if !block && len(w.touched) > 0 && !w.g.Chance(1, 6) {
		// unblock something that was touched before (mostly), in the very spelling that was used
		r = w.touched[w.g.Int(len(w.touched))]
	} else {
		r = w.cat[w.g.Int(len(w.cat))]
	}
	fault := w.g.Weighted(8, 2, 1)
	return block, r, fault
}

// ---- hook expectations (shared by the live recorder and the direct sweep) ----------------------------------

func safeBool(f func() bool) (res bool, panicked any) {
	defer func() {
		if r := recover(); r != nil {
			if _, ok := r.(simdisk.Crash); ok {
				panic(r)
			}
			panicked = r
		}
	}()
	return f(), nil
}

// judgeHook compares one hook answer with the model. addrV / peerV: verdicts for the remote's IP and peer ID
// (zero verdict = that aspect is absent). which: "peer" if the statement designates this hook for peer
// rules, "addr" for address/subnet rules, "" for none (only the non-matching clause applies).
func (w *world) judgeHook(hook, which string, allow bool, peerV, addrV verdict, fam, what, origin string) (refusedNonMatching bool) {
	switch {
	case which == "peer" && peerV.def:
		w.bump()
		if allow {
			w.violate("C10/hook/"+hook+"/allowed-blocked-peer/"+w.phase(peerV.key), "%s: %s allowed %s although %s is blocked", origin, hook, what, peerV.key)
		}
	case which == "addr" && addrV.def:
		w.bump()
		if allow {
			w.violate("C10/hook/"+hook+"/allowed-blocked-"+kindName[addrV.kind]+"/"+fam+"/"+w.phase(addrV.key), "%s: %s allowed %s although %s is blocked", origin, hook, what, addrV.key)
		}
	case !peerV.poss && !addrV.poss:
		if w.ackedBlock > 0 {
			w.bump()
		}
		if !allow {
			w.violate("C10/hook/"+hook+"/refused-non-matching", "%s: %s refused %s although no rule that is or may be in force matches it; model: %s", origin, hook, what, w.modelString())
			return true
		}
	}
	return false
}

func (w *world) bump() { w.mu.Lock(); w.checked++; w.mu.Unlock() }

func (w *world) modelString() string {
	var parts []string
	for _, k := range w.m.keys() {
		if s := w.m.state[k]; s != stUnblocked {
			parts = append(parts, k+"="+s.String())
		}
	}
	return "{" + strings.Join(parts, " ") + "}"
}

// Non-canonical spellings of the subnets above (and of each other): what an application that builds net.IPNet values
// itself may hand to BlockSubnet / UnblockSubnet.
var rawSubnets4 = []*rule{
	rawSubnetRule("10.0.1.70", 26, 32, 4, "host-bits"),
	rawSubnetRule("10.0.1.127", 26, 32, 4, "host-bits"),
	rawSubnetRule("10.0.1.70", 24, 32, 4, "host-bits"),
	rawSubnetRule("10.0.1.70", 26, 32, 16, "16B-ip+4B-mask"),
	rawSubnetRule("10.0.1.70", 122, 128, 16, "mapped+host-bits"),
	rawSubnetRule("10.0.1.64", 122, 128, 16, "mapped"),
}
var rawSubnets6 = []*rule{
	rawSubnetRule("fd00:1::50", 122, 128, 16, "host-bits"),
	rawSubnetRule("fd00:1::7f", 122, 128, 16, "host-bits"),
	rawSubnetRule("fd00:1::50", 64, 128, 16, "host-bits"),
}

// ---- stratum 2: hooks-direct ---------------------------------------------------------------------------

func (w *world) sweep() {
	local := ma.StringCast("/ip4/" + gIP + "/tcp/4001")
	plain := connAddrs{l: local, r: ma.StringCast("/ip4/172.16.0.9/tcp/5555")} // matches no rule of the universe
	for _, name := range []string{"P", "Q", "X"} {
		id := w.ids[name]
		pv := w.peerVerdict(name)
		got, pn := safeBool(func() bool { return w.gater.InterceptPeerDial(id) })
		if pn != nil {
			w.violate("C10/hook-panic/InterceptPeerDial", "peer %s: %v", name, pn)
			continue
		}
		w.judgeHook("InterceptPeerDial", "peer", got, pv, verdict{}, "", "peer "+name, "direct")
		got, pn = safeBool(func() bool { return w.gater.InterceptSecured(network.DirInbound, id, plain) })
		if pn != nil {
			w.violate("C10/hook-panic/InterceptSecured", "peer %s: %v", name, pn)
			continue
		}
		w.judgeHook("InterceptSecured", "peer", got, pv, verdict{}, "", "inbound peer "+name, "direct")
		if !got {
			w.probe("direct-refused-Secured")
		}
	}
	// an identity that matches no peer rule, for the address hooks
	anon := w.ids["Y"]
	for _, p := range pool {
		iv := w.m.ipVerdict(net.ParseIP(p.ip))
		for _, f := range formsWithIP(p.ip) {
			a, err := ma.NewMultiaddr(f)
			if err != nil {
				w.trouble("bad form %s: %v", f, err)
				return
			}
			fam := famTag(a)
			got, pn := safeBool(func() bool { return w.gater.InterceptAddrDial(anon, a) })
			if pn != nil {
				w.violate("C10/hook-panic/InterceptAddrDial", "%s: %v", f, pn)
			} else {
				w.judgeHook("InterceptAddrDial", "addr", got, verdict{}, iv, fam, f, "direct")
			}
			got, pn = safeBool(func() bool { return w.gater.InterceptAccept(connAddrs{l: local, r: a}) })
			if pn != nil {
				w.violate("C10/hook-panic/InterceptAccept", "%s: %v", f, pn)
			} else {
				w.judgeHook("InterceptAccept", "addr", got, verdict{}, iv, fam, "remote "+f, "direct")
			}
			if iv.def {
				w.probe("direct-blocked-" + fam)
			}
		}
	}
	for _, f := range formsWithoutIP {
		a, err := ma.NewMultiaddr(f)
		if err != nil {
			w.trouble("bad form %s: %v", f, err)
			return
		}
		if _, pn := safeBool(func() bool { return w.gater.InterceptAddrDial(anon, a) }); pn != nil {
			w.violate("C10/hook-panic/InterceptAddrDial", "%s: %v", f, pn)
		}
		if _, pn := safeBool(func() bool { return w.gater.InterceptAccept(connAddrs{l: local, r: a}) }); pn != nil {
			w.violate("C10/hook-panic/InterceptAccept", "%s: %v", f, pn)
		}
		w.probe("direct-no-ip-form")
	}
}

func (w *world) peerVerdict(name string) verdict { return w.m.peerVerdict(name) }

func (w *world) runHooksDirect() {
	for _, p := range pool {
		ip := net.ParseIP(p.ip)
		w.cat = append(w.cat, addrRule(ip))
		if v4 := ip.To4(); v4 != nil {
			w.cat = append(w.cat, addrRule(v4))
		}
	}
	for _, s := range append(append([]string{}, subnets4...), subnets6...) {
		w.cat = append(w.cat, subnetRule(s), subnetRule(s)) // subnets twice: as likely as addresses
	}
	w.cat = append(w.cat, subnetRule("10.0.1.70/32"), subnetRule("fd00:1::50/128"), subnetRule("10.0.1.127/32"))
	w.cat = append(w.cat, rawSubnets4...)
	w.cat = append(w.cat, rawSubnets6...)
	steps := 3 + w.g.Int(18)
	w.sweep()
	for i := 0; i < steps && !w.dead; i++ {
		if w.g.Chance(1, 7) {
			if !w.reopen(false) {
				return
			}
		} else {
			block, r, fault := w.drawOp()
			if w.applyRule(block, r, fault) {
				if !w.reopen(true) {
					return
				}
			}
		}
		w.sweep()
	}
}

// ---- stratum 1: full stack --------------------------------------------------------------------------------

type host struct {
	name   string
	seed   int
	ip     string // canonical text
	srcIP  string // what simhost gets (may be the IPv4-mapped spelling)
	v6     bool
	decoy  string   // an address of the pool nobody listens on, attributed to this peer
	forms  []string // TCP address forms G may know
	qforms []string // QUIC address forms (QUIC stratum)
	node   *simhost.Node
	hadDef bool // some rule definitely matched this host in an earlier round
	// dial back-off entries between G and this host may be left from earlier steps (the harness did not clear
	// them): the next dial may legitimately fail without a dial attempt, so no liveness is expected
	mayBackoff bool
}

type connEvent struct {
	stamp uint64
	conn  network.Conn
	peer  peer.ID
	addr  ma.Multiaddr
	dir   network.Direction
}

type fullStack struct {
	*world
	n      *simnet.Net
	G      *simhost.Node
	P, Q   *host
	events []connEvent
	dns    *fakeDNS
	// set by the live recorder during a round
	refusedNonMatching bool
	gClosed            bool
	secu               string
	relay              bool // relay stratum: nodes are basic hosts, Q runs a circuit-v2 relay, P holds a reservation on it

	// QUIC stratum
	quic      bool
	udpCfg    simnet.UDPConfig
	faultsOn  bool            // drawn UDP faults are in force
	calls     map[string]int  // ALLOWING answers per gating call site in this incarnation of G (see noteCall)
	admitted  map[string]int  // admitted inbound-type connections per call-site key (must not exceed calls)
	punching  map[string]bool // peers G is hole punching towards in the current round (server role)
	upgraded  map[network.Conn]bool
	everSeen  map[network.Conn]bool // connections G was notified of
	scidFrom  map[string]bool       // "<remote ip>|<scid>" of every long-header packet sent to G
	udpDials  []udpDial             // client Initial packets sent by G = QUIC dial attempts
	udpJudged int
}

// udpDial is one QUIC connection attempt of G seen on the wire: an Initial packet from G's IP whose destination
// connection id was NOT announced before as source connection id by the destination. (RFC 9000 7.2: a server's
// packets carry the client's source connection id as destination; a client's first flight carries a fresh random
// one. The filter sees datagrams when they are sent, so a server's answer always comes after the packet it
// answers.) Short-header traffic of connections that exist already is not a dial attempt.
type udpDial struct {
	to    net.IP
	stamp uint64
}

// quicLongHeader parses the version-independent part of a long-header packet (RFC 8999) and tells whether it is
// a QUIC v1 Initial.
func quicLongHeader(b []byte) (dcid, scid []byte, initial, ok bool) {
	if len(b) < 7 || b[0]&0x80 == 0 {
		return nil, nil, false, false
	}
	ver := uint32(b[1])<<24 | uint32(b[2])<<16 | uint32(b[3])<<8 | uint32(b[4])
	dl := int(b[5])
	if len(b) < 7+dl {
		return nil, nil, false, false
	}
	dcid = b[6 : 6+dl]
	sl := int(b[6+dl])
	if len(b) < 7+dl+sl {
		return nil, nil, false, false
	}
	scid = b[7+dl : 7+dl+sl]
	return dcid, scid, ver == 1 && b[0]&0x30 == 0, true
}

func (fs *fullStack) udpFilter(from, to *net.UDPAddr, b []byte) simnet.UDPVerdict {
	dcid, scid, initial, ok := quicLongHeader(b)
	if !ok {
		return simnet.UDPPass
	}
	fs.mu.Lock()
	defer fs.mu.Unlock()
	switch {
	case normIP(to.IP) == gIP && normIP(from.IP) != gIP:
		fs.scidFrom[normIP(from.IP)+"|"+string(scid)] = true
	case normIP(from.IP) == gIP && initial && !fs.scidFrom[normIP(to.IP)+"|"+string(dcid)]:
		fs.udpDials = append(fs.udpDials, udpDial{to: append(net.IP(nil), to.IP...), stamp: simrt.Stamp()})
	}
	return simnet.UDPPass
}

func tptOf(a ma.Multiaddr) string {
	if a != nil {
		s := a.String()
		switch {
		case strings.Contains(s, "/p2p-circuit"):
			return "circuit"
		case strings.Contains(s, "/webtransport"):
			return "webtransport"
		case strings.Contains(s, "/quic-v1"):
			return "quic"
		}
	}
	return "tcp"
}

// noteCall records that a gating call site was reached (for the hook-not-consulted oracle).
func (fs *fullStack) noteCall(key string, allow bool) {
	if !allow {
		return
	}
	fs.mu.Lock()
	fs.calls[key]++
	fs.mu.Unlock()
}

// fakeDNS resolves x.test names to the host addresses: dns4 -> /ip4 (v4 hosts), dns6 -> /ip6 (for a v4 host the
// IPv4-mapped spelling, as an AAAA record may carry it), dns -> both.
type fakeDNS struct{ ip map[string]string }

func (d *fakeDNS) ResolveDNSAddr(context.Context, peer.ID, ma.Multiaddr, int, int) ([]ma.Multiaddr, error) {
	return nil, errors.New("fakeDNS: no dnsaddr records")
}

func (d *fakeDNS) ResolveDNSComponent(_ context.Context, m ma.Multiaddr, limit int) ([]ma.Multiaddr, error) {
	first, rest := ma.SplitFirst(m)
	if first == nil {
		return nil, errors.New("fakeDNS: empty")
	}
	ip, ok := d.ip[first.Value()]
	if !ok {
		return nil, errors.New("fakeDNS: NXDOMAIN")
	}
	v4 := "/ip4/" + ip
	v6 := "/ip6/" + ip
	if !isV6(ip) {
		v6 = "/ip6/::ffff:" + ip
	}
	var heads []string
	switch first.Protocol().Code {
	case ma.P_DNS4:
		if !isV6(ip) {
			heads = []string{v4}
		}
	case ma.P_DNS6:
		heads = []string{v6}
	case ma.P_DNS:
		if !isV6(ip) {
			heads = []string{v4, v6}
		} else {
			heads = []string{v6}
		}
	}
	var out []ma.Multiaddr
	for _, h := range heads {
		if len(out) >= limit {
			break
		}
		out = append(out, ma.StringCast(h).Encapsulate(rest))
	}
	return out, nil
}

// recGater delegates every hook to the current real gater and compares the answer with the model.
type recGater struct{ fs *fullStack }

func (r *recGater) hostByID(p peer.ID) string { return r.fs.names[p] }

func (r *recGater) InterceptPeerDial(p peer.ID) bool {
	fs := r.fs
	allow := fs.gater.InterceptPeerDial(p)
	fs.noteCall("PeerDial|"+r.hostByID(p), allow)
	if !allow {
		fs.probe("refused-PeerDial")
	}
	if n := r.hostByID(p); n != "" {
		fs.liveJudge("InterceptPeerDial", "peer", allow, fs.m.peerVerdict(n), verdict{}, "", "dial of peer "+n)
	}
	return allow
}

func (r *recGater) InterceptAddrDial(p peer.ID, a ma.Multiaddr) bool {
	fs := r.fs
	allow := fs.gater.InterceptAddrDial(p, a)
	if ip := ipOf(a); ip != nil {
		fs.noteCall("AddrDial|"+r.hostByID(p)+"|"+tptOf(a)+"|"+normIP(ip), allow)
	}
	if !allow {
		fs.probe("refused-AddrDial")
		fs.probe("refused-AddrDial-" + famTag(a))
		if t := tptOf(a); t != "tcp" {
			fs.probe("refused-AddrDial-" + t)
		}
	}
	if n := r.hostByID(p); n != "" {
		// the peer aspect is not this hook's business: only "no possibly matching rule at all" involves it
		pv := fs.m.peerVerdict(n)
		fs.liveJudge("InterceptAddrDial", "addr", allow, verdict{poss: pv.poss}, fs.m.ipVerdict(ipOf(a)), famTag(a), fmt.Sprintf("dial of %s at %s", n, a))
	}
	return allow
}

func (r *recGater) InterceptAccept(c network.ConnMultiaddrs) bool {
	fs := r.fs
	allow := fs.gater.InterceptAccept(c)
	a := c.RemoteMultiaddr()
	if ip := ipOf(a); ip != nil {
		fs.noteCall("Accept|"+tptOf(a)+"|"+normIP(ip), allow)
	}
	if !allow {
		fs.probe("refused-Accept")
		if t := tptOf(a); t != "tcp" {
			fs.probe("refused-Accept-" + t)
		}
	}
	fs.liveJudge("InterceptAccept", "addr", allow, verdict{}, fs.m.ipVerdict(ipOf(a)), famTag(a), fmt.Sprintf("inbound from %s", stripPort(a)))
	return allow
}

func (r *recGater) InterceptSecured(d network.Direction, p peer.ID, c network.ConnMultiaddrs) bool {
	fs := r.fs
	allow := fs.gater.InterceptSecured(d, p, c)
	n := r.hostByID(p)
	if n == "" {
		return allow
	}
	pv := fs.m.peerVerdict(n)
	ra := c.RemoteMultiaddr()
	iv := fs.m.ipVerdict(ipOf(ra))
	if ip := ipOf(ra); ip != nil {
		fs.noteCall("Secured|"+strings.ToLower(d.String())+"|"+n+"|"+tptOf(ra)+"|"+normIP(ip), allow)
	}
	if t := tptOf(ra); t != "tcp" {
		fs.probe(t + "-Secured-" + strings.ToLower(d.String()))
	}
	if d == network.DirInbound {
		if !allow {
			fs.probe("refused-Secured-inbound")
			if t := tptOf(ra); t != "tcp" {
				fs.probe("refused-Secured-inbound-" + t)
			}
		}
		fs.liveJudge("InterceptSecured", "peer", allow, pv, verdict{poss: iv.poss}, "", "inbound peer "+n)
	} else {
		fs.liveJudge("InterceptSecured", "", allow, pv, verdict{poss: iv.poss}, "", "outbound peer "+n)
	}
	return allow
}

func (r *recGater) InterceptUpgraded(c network.Conn) (bool, control.DisconnectReason) {
	fs := r.fs
	allow, reason := fs.gater.InterceptUpgraded(c)
	fs.mu.Lock()
	fs.upgraded[c] = true
	fs.mu.Unlock()
	if n := r.hostByID(c.RemotePeer()); n != "" {
		pv := fs.m.peerVerdict(n)
		iv := fs.m.ipVerdict(ipOf(c.RemoteMultiaddr()))
		fs.liveJudge("InterceptUpgraded", "", allow, verdict{poss: pv.poss}, verdict{poss: iv.poss}, "", "conn with "+n)
	}
	return allow, reason
}

func (fs *fullStack) liveJudge(hook, which string, allow bool, pv, iv verdict, fam, what string) {
	if fs.judgeHook(hook, which, allow, pv, iv, fam, what, "live") {
		fs.mu.Lock()
		fs.refusedNonMatching = true
		fs.mu.Unlock()
	}
}

func stripPort(a ma.Multiaddr) string {
	// the ephemeral source port is a counter of simnet: reproducible, but noise in details
	first, _ := ma.SplitFirst(a)
	if first == nil {
		return a.String()
	}
	return first.String()
}

func (fs *fullStack) startG() bool {
	fs.mu.Lock()
	fs.calls = map[string]int{}
	fs.admitted = map[string]int{}
	fs.upgraded = map[network.Conn]bool{}
	fs.mu.Unlock()
	nd, err := simhost.New(fs.n, simhost.Opts{Key: simhost.DetKey(1), IP: gIP, Port: tcpPort, Security: fs.secu, Gater: &recGater{fs: fs}, QUIC: fs.quic, WebTransport: fs.quic, WithHost: fs.relay,
		SwarmOpts: []swarm.Option{swarm.WithMultiaddrResolver(fs.dns)}})
	if err != nil {
		fs.trouble("node G: %v", err)
		return false
	}
	fs.G = nd
	fs.gClosed = false
	if fs.relay {
		// the real circuit-v2 client transport (wired as p2p/protocol/circuitv2/relay/relay_test.go does)
		cl, err := client.New(nd.Host, nd.Up)
		if err == nil {
			err = nd.Swarm.AddTransport(&recCircuit{Client: cl, fs: fs})
		}
		if err != nil {
			fs.trouble("circuit client transport on G: %v", err)
			return false
		}
		cl.Start()
	} else {
		if err := nd.Swarm.AddTransport(&stubCircuit{fs: fs}); err != nil {
			fs.trouble("stub circuit transport: %v", err)
			return false
		}
		nd.Swarm.SetStreamHandler(func(s network.Stream) { s.Reset() })
	}
	nd.Swarm.Notify(&network.NotifyBundle{ConnectedF: func(_ network.Network, c network.Conn) {
		ev := connEvent{stamp: simrt.Stamp(), conn: c, peer: c.RemotePeer(), addr: c.RemoteMultiaddr(), dir: c.Stat().Direction}
		fs.mu.Lock()
		fs.events = append(fs.events, ev)
		fs.everSeen[c] = true
		fs.mu.Unlock()
		fs.judgeAdmitted(ev)
	}})
	return true
}

// judgeAdmitted: a connection is being admitted to G's swarm (Connected notification, or a ConnsToPeer entry
// nobody was notified of). The rule set changes only at quiescent instants and the chain "gating hooks ->
// addConn -> notification" of an inbound connection needs no virtual time, so the rules in force now are the rules
// the connection had to pass; an outbound connection is admitted while its dial call runs, i.e. inside a round.
func (fs *fullStack) judgeAdmitted(e connEvent) {
	n := fs.names[e.peer]
	how := "Connected notification"
	if e.stamp == 0 {
		how = "ConnsToPeer entry (no notification seen)"
	}
	dir := strings.ToLower(e.dir.String())
	tpt := tptOf(e.addr)
	dirT := dir
	if tpt != "tcp" {
		dirT = dir + "/" + tpt
		fs.probe(tpt + "-conn-admitted-" + dir)
	}
	if v := fs.m.peerVerdict(n); v.def {
		fs.violate("C10/admitted-blocked-peer/"+dirT+"/"+fs.phase(v.key), "%s on G for a NEW %s %s connection with blocked peer %s (%s); rules change only at quiescent instants between rounds", how, dir, tpt, n, stripPort(e.addr))
	}
	ip := ipOf(e.addr)
	if v := fs.m.ipVerdict(ip); v.def {
		fs.violate("C10/admitted-blocked-"+kindName[v.kind]+"/"+dirT+"/"+famTag(e.addr)+"/"+fs.phase(v.key), "%s on G for a NEW %s %s connection with %s at %s, which matches blocked %s", how, dir, tpt, n, stripPort(e.addr), v.key)
	}
	// Every admitted connection must have passed the call sites the ConnectionGater interface documents
	// (core/connmgr/gater.go): outbound InterceptPeerDial, InterceptAddrDial, InterceptSecured, InterceptUpgraded;
	// inbound InterceptAccept, InterceptSecured, InterceptUpgraded — "for every transport ... each transport's own
	// gating call sites". Outbound: an allowing answer since this incarnation of G started is enough (weak, but a
	// transport that never asks is caught by its first connection). Inbound: every admitted connection needs an
	// allowing answer of its own, so the number of admitted connections per (transport, IP[, peer]) never exceeds the
	// number of allowing answers. BasicConnectionGater answers InterceptSecured(outbound) with true always, so only
	// this oracle can see a transport that does not ask on its dial path.
	// A QUIC hole punch in the server role does not dial: the transport hands out the remote's INBOUND connection
	// (listener.Accept runs the inbound hooks on it) and the swarm files it as outbound. While G punches towards
	// the peer, an "outbound" QUIC connection with it is therefore held to the inbound call sites.
	if n == "" || ip == nil || e.stamp == 0 {
		return
	}
	fs.mu.Lock()
	punched := e.dir == network.DirOutbound && tpt == "quic" && fs.punching[n]
	fs.mu.Unlock()
	fs.judgeCallSites(n, ip, tpt, e.dir, punched, e.conn, stripPort(e.addr))
}

func (fs *fullStack) judgeCallSites(n string, ip net.IP, tpt string, d network.Direction, punched bool, c network.Conn, where string) {
	dir := strings.ToLower(d.String())
	var exist, counted []string
	switch {
	case punched:
		fs.probe("punched-conn-handed-out")
		exist = []string{"PeerDial|" + n, "AddrDial|" + n + "|" + tpt + "|" + normIP(ip)}
		counted = []string{"Accept|" + tpt + "|" + normIP(ip), "Secured|inbound|" + n + "|" + tpt + "|" + normIP(ip)}
		dir = "inbound"
	case d == network.DirOutbound:
		exist = []string{"PeerDial|" + n, "AddrDial|" + n + "|" + tpt + "|" + normIP(ip), "Secured|outbound|" + n + "|" + tpt + "|" + normIP(ip)}
	default:
		counted = []string{"Accept|" + tpt + "|" + normIP(ip), "Secured|inbound|" + n + "|" + tpt + "|" + normIP(ip)}
	}
	fs.mu.Lock()
	var missing []string
	for _, k := range exist {
		if fs.calls[k] == 0 {
			missing = append(missing, k)
		}
	}
	for _, k := range counted {
		fs.admitted[k]++
		if fs.admitted[k] > fs.calls[k] {
			missing = append(missing, fmt.Sprintf("%s (connections handed out: %d, allowing answers: %d)", k, fs.admitted[k], fs.calls[k]))
		}
	}
	if c != nil && !fs.upgraded[c] {
		missing = append(missing, "Upgraded")
	}
	fs.mu.Unlock()
	fs.bump()
	what := "admitted"
	if punched {
		what = "handed out by a server-role hole punch"
	}
	for _, k := range missing {
		hook := "Intercept" + strings.SplitN(k, "|", 2)[0]
		if i := strings.IndexByte(hook, ' '); i > 0 {
			hook = hook[:i]
		}
		fs.violate("C10/hook-not-consulted/"+hook+"/"+dir+"/"+tpt, "a %s %s connection with %s (%s) was %s on G but the gater did not allow it at %s since this node started", dir, tpt, n, where, what, k)
	}
}

// stubCircuit claims /p2p-circuit addresses on G and fails every dial at once. There is no relay in this
// harness; the stub is the observation point "an address was handed to a transport's Dial": the statement wants
// outbound dials refused BEFORE any transport dial to a blocked address, for every textual form — and the IP
// component of a relayed address (/ip4/R/tcp/…/p2p/R/p2p-circuit) is the relay's, which is what the gater matches.
type stubCircuit struct{ fs *fullStack }

func (t *stubCircuit) Dial(_ context.Context, raddr ma.Multiaddr, p peer.ID) (transport.CapableConn, error) {
	t.fs.judgeCircuitDial(raddr, p)
	return nil, errors.New("stub circuit transport: there is no relay here")
}

// recCircuit (relay stratum) is the REAL circuit-v2 client transport; Dial first judges the address like the stub.
type recCircuit struct {
	*client.Client
	fs *fullStack
}

func (t *recCircuit) Dial(ctx context.Context, raddr ma.Multiaddr, p peer.ID) (transport.CapableConn, error) {
	t.fs.judgeCircuitDial(raddr, p)
	return t.Client.Dial(ctx, raddr, p)
}

func (fs *fullStack) judgeCircuitDial(raddr ma.Multiaddr, p peer.ID) {
	fs.probe("circuit-addr-reached-transport")
	n := fs.names[p]
	ip := ipOf(raddr)
	if v := fs.m.ipVerdict(ip); v.def {
		fs.violate("C10/dialed-blocked-"+kindName[v.kind]+"/circuit/"+fs.phase(v.key), "the swarm handed %s (for peer %s) to a transport's Dial although its IP component matches blocked %s", raddr, n, v.key)
	}
	if v := fs.m.peerVerdict(n); v.def {
		fs.violate("C10/dialed-blocked-peer/circuit/"+fs.phase(v.key), "the swarm handed %s to a transport's Dial although peer %s is blocked", raddr, n)
	}
	if n != "" && ip != nil {
		fs.mu.Lock()
		asked := fs.calls["AddrDial|"+n+"|circuit|"+normIP(ip)] > 0
		fs.mu.Unlock()
		fs.bump()
		if !asked {
			fs.violate("C10/hook-not-consulted/InterceptAddrDial/outbound/circuit", "the swarm handed %s (for peer %s) to a transport's Dial but the gater never allowed that address at InterceptAddrDial since this node started", raddr, n)
		}
	}
}
func (t *stubCircuit) CanDial(a ma.Multiaddr) bool {
	_, err := a.ValueForProtocol(ma.P_CIRCUIT)
	return err == nil
}
func (t *stubCircuit) Listen(ma.Multiaddr) (transport.Listener, error) {
	return nil, errors.New("stub circuit transport does not listen")
}
func (t *stubCircuit) Protocols() []int { return []int{ma.P_CIRCUIT} }
func (t *stubCircuit) Proxy() bool      { return true }

func (fs *fullStack) closeG() {
	if !fs.gClosed {
		fs.gClosed = true
		fs.G.Close()
	}
}

func (fs *fullStack) settle(d time.Duration) {
	simrt.WaitIdle()
	simrt.TimeSleep(d)
	simrt.WaitIdle()
}

// restartG is the process restart: node closed (all its connections die), new gater from the disk, new node.
func (fs *fullStack) restartG(afterStop bool) bool {
	fs.closeG()
	fs.settle(2 * time.Second)
	if !fs.reopen(afterStop) {
		return false
	}
	if !fs.startG() {
		return false
	}
	// the remotes' dial back-off towards G survives G's restart in reality; mostly cleared so that the next round can
	// expect liveness, sometimes (drawn) left in place
	keep := fs.g.Chance(1, 4)
	for _, h := range []*host{fs.P, fs.Q} {
		if keep {
			h.mayBackoff = true
		} else {
			h.node.Swarm.Backoff().Clear(fs.G.ID)
		}
	}
	if keep {
		fs.probe("backoff-kept")
	}
	return true
}

func (fs *fullStack) hostByIP(ip net.IP) *host {
	for _, h := range []*host{fs.P, fs.Q} {
		if normIP(ip) == h.ip || normIP(ip) == h.decoy {
			return h
		}
	}
	return nil
}

type dialTask struct {
	label    string
	from, to string
	trigger  int // 0 Swarm.DialPeer, 1 Swarm.NewStream (dials when it finds no connection)
	err      error
}

var triggerName = []string{"DialPeer", "NewStream"}

// kinds of addresses a dialler may know of a peer (bit mask)
const (
	kQUIC = 1
	kWT   = 2
	kTCP  = 4
)

func kindsName(k int) string {
	var p []string
	if k&kQUIC != 0 {
		p = append(p, "quic")
	}
	if k&kWT != 0 {
		p = append(p, "webtransport")
	}
	if k&kTCP != 0 {
		p = append(p, "tcp")
	}
	return strings.Join(p, "+")
}

// noCerthash shortens a WebTransport address for traces and signatures.
func noCerthash(a string) string {
	if i := strings.Index(a, "/certhash/"); i >= 0 {
		return a[:i] + "/certhash…"
	}
	return a
}

// wtForms: the WebTransport address of the host as its swarm advertises it now (with the current certhashes) in the
// textual forms of its IP: plain, IPv4-mapped (not connectable, like the QUIC one), and by name.
func (fs *fullStack) wtForms(h *host) []string {
	a := h.node.WTAddr()
	if a == nil {
		return nil
	}
	s := a.String()
	rest := s[strings.Index(s, "/udp/"):]
	low := strings.ToLower(h.name)
	if h.v6 {
		return []string{"/ip6/" + h.ip + rest, "/dns6/" + low + ".test" + rest}
	}
	return []string{"/ip4/" + h.ip + rest, "/ip6/::ffff:" + h.ip + rest, "/dns4/" + low + ".test" + rest}
}

func short(err error) string {
	if err == nil {
		return "ok"
	}
	s := err.Error()
	if len(s) > 160 {
		s = s[:160] + "…"
	}
	return strings.ReplaceAll(s, "\n", " ")
}

// round: a set of concurrent dials while the rule set is fixed, then the oracles.
func (fs *fullStack) round() {
	mask := 1 + fs.g.Int(15) // bit0 G->P, bit1 P->G, bit2 G->Q, bit3 Q->G
	hosts := []*host{fs.P, fs.Q}
	involved := map[*host]bool{}
	// expectLive: some dial of the round between G and the host uses an address a connection can be made through.
	// /ip6/::ffff:a.b.c.d/udp/…/quic-v1 is not one: the QUIC transport resolves it with network "udp6", which Go
	// refuses for an IPv4-mapped address ("no suitable address found") — the gater is still asked about it first.
	expectLive := map[*host]bool{}
	usedAsRelay := map[*host]bool{}
	udpKinds := map[string]int{} // QUIC-based address kinds G knows per destination IP in this round (class of dialed-*)
	var tasks []*dialTask
	var desc []string
	for i, h := range hosts {
		if mask&(1<<(2*i)) != 0 {
			kinds := kTCP // which kinds of addresses of the peer G knows (with several the dial ranker races them)
			if fs.quic {
				kinds = 1 + fs.g.Int(7)
				fs.probe("G-knows-" + kindsName(kinds))
			}
			var addrs []ma.Multiaddr
			var names []string
			pick := func(forms []string, kind int) {
				m := fs.g.Int(1 << len(forms))
				if m == 0 {
					m = 1
				}
				for k, f := range forms {
					if m&(1<<k) == 0 {
						continue
					}
					addrs = append(addrs, ma.StringCast(f))
					names = append(names, noCerthash(f))
					if kind == kTCP || !strings.HasPrefix(f, "/ip6/::ffff:") {
						expectLive[h] = true
					}
					if kind != kTCP {
						udpKinds[normIP(net.ParseIP(h.ip))] |= kind
					}
					switch {
					case kind == kTCP && strings.HasPrefix(f, "/dns"):
						fs.probe("dial-form-dns")
					case kind == kTCP && strings.HasPrefix(f, "/ip6/::ffff:"):
						fs.probe("dial-form-ip6-mapped")
					case kind == kWT && strings.HasPrefix(f, "/dns"):
						fs.probe("dial-form-webtransport-dns")
					case kind == kWT && strings.HasPrefix(f, "/ip6/::ffff:"):
						fs.probe("dial-form-webtransport-ip6-mapped")
					}
				}
			}
			if kinds&kQUIC != 0 {
				pick(h.qforms, kQUIC)
			}
			if kinds&kWT != 0 {
				pick(fs.wtForms(h), kWT)
			}
			// relay stratum: in half of G's dials of P the relayed address is all G knows, so that the connection really
			// goes through the relay (otherwise a direct address wins the race and the circuit dial is cancelled)
			circuitOnly := fs.relay && h == fs.P && fs.g.Bool()
			if kinds&kTCP != 0 && !circuitOnly {
				pick(h.forms, kTCP)
			}
			if circuitOnly || fs.g.Chance(1, 4) {
				// a relayed address of the peer (relay stratum: P's REAL address through relay Q): "relay" = the other host (or the peer's own decoy IP under the
				// relay identity R); nobody runs a relay, the stub transport on G records what reaches a Dial
				rip, rid := hosts[1-i].ip, hosts[1-i].node.ID.String()
				if fs.g.Bool() && !fs.relay {
					rip, rid = h.decoy, relayIDText
				} else if fs.relay {
					// the real client transport connects to the relay for the circuit dial and drops that
					// connection again when the dial is cancelled (a direct address won): what the relay host
					// itself dialled in the same round may have been that very connection — no liveness for it
					usedAsRelay[hosts[1-i]] = true
				}
				rf := "ip4"
				if isV6(rip) {
					rf = "ip6"
				}
				ca := fmt.Sprintf("/%s/%s/tcp/%d/p2p/%s/p2p-circuit", rf, rip, tcpPort, rid)
				addrs = append(addrs, ma.StringCast(ca))
				names = append(names, fmt.Sprintf("/%s/%s/tcp/%d/p2p/…/p2p-circuit", rf, rip, tcpPort))
				fs.probe("dial-with-circuit-addr")
			}
			if fs.g.Chance(1, 4) {
				fam := "ip4"
				if isV6(h.decoy) {
					fam = "ip6"
				}
				d := fmt.Sprintf("/%s/%s/tcp/%d", fam, h.decoy, tcpPort)
				if kinds&kTCP == 0 || (kinds != kTCP && fs.g.Bool()) {
					// a QUIC-based decoy: plain QUIC, or WebTransport with the peer's real certhashes on a foreign IP
					d = fmt.Sprintf("/%s/%s/udp/%d/quic-v1", fam, h.decoy, tcpPort)
					dk := kQUIC
					if kinds&kQUIC == 0 {
						wf := fs.wtForms(h)[0]
						d = fmt.Sprintf("/%s/%s%s", fam, h.decoy, wf[strings.Index(wf, "/udp/"):])
						dk = kWT
					}
					udpKinds[normIP(net.ParseIP(h.decoy))] |= dk
				}
				addrs = append(addrs, ma.StringCast(d))
				names = append(names, noCerthash(d)+"(decoy)")
				fs.probe("dial-with-decoy")
			}
			// Mostly G's record of the peer is replaced by this round's addresses; sometimes (drawn) what earlier
			// rounds and the swarm itself (resolved addresses, TempAddrTTL) left in the peerstore stays, so that a
			// dial meets addresses learned before the last rule change.
			if !circuitOnly && fs.g.Chance(1, 3) {
				names = append(names, "+ whatever the peerstore still holds")
				fs.probe("peerstore-addrs-kept")
				if fs.quic {
					udpKinds[normIP(net.ParseIP(h.ip))] |= kQUIC | kWT
					udpKinds[normIP(net.ParseIP(h.decoy))] |= kQUIC | kWT
				}
			} else {
				fs.G.PS.ClearAddrs(h.node.ID)
			}
			fs.G.PS.AddAddrs(h.node.ID, addrs, peerstore.PermanentAddrTTL)
			tr := fs.g.Int(2)
			fs.probe("G-dials-by-" + triggerName[tr])
			tasks = append(tasks, &dialTask{label: "G->" + h.name, from: "G", to: h.name, trigger: tr})
			desc = append(desc, fmt.Sprintf("G->%s by %s via %v", h.name, triggerName[tr], names))
			involved[h] = true
		}
		if mask&(1<<(2*i+1)) != 0 {
			tr := fs.g.Int(2)
			via := "tcp"
			if fs.quic {
				kinds := 1 + fs.g.Int(7)
				via = kindsName(kinds)
				fs.probe("remote-knows-" + via)
				var ga []ma.Multiaddr
				if kinds&kQUIC != 0 {
					ga = append(ga, fs.G.QAddr)
				}
				if kinds&kWT != 0 {
					ga = append(ga, fs.G.WTAddr()) // with G's current certhashes
				}
				if kinds&kTCP != 0 {
					ga = append(ga, fs.G.Addr)
				}
				if fs.g.Chance(1, 3) {
					via += "+kept"
					fs.probe("peerstore-addrs-kept")
				} else {
					h.node.PS.ClearAddrs(fs.G.ID)
				}
				h.node.PS.AddAddrs(fs.G.ID, ga, peerstore.PermanentAddrTTL)
			}
			tasks = append(tasks, &dialTask{label: h.name + "->G", from: h.name, to: "G", trigger: tr})
			desc = append(desc, fmt.Sprintf("%s->G by %s via %s", h.name, triggerName[tr], via))
			involved[h] = true
			expectLive[h] = true
		}
	}
	// state before the round
	survivors := map[network.Conn]bool{}
	nSurv := map[*host]int{}
	xSurv := map[*host]int{} // the remote's own view before the round
	for _, h := range hosts {
		for _, c := range fs.G.Swarm.ConnsToPeer(h.node.ID) {
			survivors[c] = true
			nSurv[h]++
		}
		xSurv[h] = len(h.node.Swarm.ConnsToPeer(fs.G.ID))
	}
	fs.mu.Lock()
	ev0 := len(fs.events)
	fs.mu.Unlock()
	conns0 := len(fs.n.Conns())
	dials0 := len(fs.n.Dials())
	fs.refusedNonMatching = false
	faulty := fs.faultsOn
	backoffAtStart := map[*host]bool{fs.P: fs.P.mayBackoff, fs.Q: fs.Q.mayBackoff}
	pv := map[*host]verdict{}
	iv := map[*host]verdict{}
	for _, h := range hosts {
		pv[h] = fs.m.peerVerdict(h.name)
		iv[h] = fs.m.ipVerdict(net.ParseIP(h.ip))
	}
	fs.logf("round: %s; model %s; surviving conns P=%d Q=%d", strings.Join(desc, ", "), fs.modelString(), nSurv[fs.P], nSurv[fs.Q])

	done := make(chan int, len(tasks))
	for i, tk := range tasks {
		i, tk := i, tk
		simrt.GoNamed("dial "+tk.label, func() {
			ctx, cancel := context.WithTimeout(context.Background(), 30*time.Second)
			var src *simhost.Node
			var dst peer.ID
			if tk.from == "G" {
				src = fs.G
				dst = fs.ids[tk.to]
			} else {
				src = fs.byName(tk.from).node
				dst = fs.G.ID
			}
			if tk.trigger == 1 {
				// every public entry point that may dial is a dial trigger: NewStream dials when the swarm has
				// no connection to the peer. The stream itself is of no interest here.
				var str network.Stream
				str, tk.err = src.Swarm.NewStream(ctx, dst)
				if str != nil {
					str.Reset()
				}
			} else {
				_, tk.err = src.Swarm.DialPeer(ctx, dst)
			}
			cancel()
			simrt.Send("dial-done", done, i)
		})
	}
	for range tasks {
		simrt.Recv("dial-wait", done)
	}
	simrt.WaitIdle()

	// ---- first quiescent instant, no time has passed since the dials returned: inbound raw connections -------
	for _, c := range fs.n.Conns()[conns0:] {
		if c.IsDialer() {
			continue
		}
		la, _ := c.LocalAddr().(*net.TCPAddr)
		ra, _ := c.RemoteAddr().(*net.TCPAddr)
		if la == nil || ra == nil || normIP(la.IP) != gIP {
			continue
		}
		st := c.Stats()
		v := fs.m.ipVerdict(ra.IP)
		h := fs.hostByIP(ra.IP)
		switch {
		case v.def:
			fs.bump()
			fs.probe("inbound-from-blocked-" + kindName[v.kind])
			if !st.Closed || st.BytesIn > 0 || st.BytesOut > 0 {
				fs.violate("C10/inbound-not-closed-at-accept/"+kindName[v.kind]+"/"+fs.phase(v.key), "raw connection from %s (matches blocked %s): closed=%v, G's end read %d B and wrote %d B in %d I/O calls — the statement wants it closed at accept, before any handshake", normIP(ra.IP), v.key, st.Closed, st.BytesIn, st.BytesOut, st.Calls)
			}
		case h != nil && pv[h].def:
			fs.bump()
			fs.probe("inbound-from-blocked-peer")
			if !st.Closed {
				fs.violate("C10/inbound-blocked-peer-not-closed-after-handshake/"+fs.phase(pv[h].key), "raw connection from blocked peer %s (%s) is still open on G's end at the first quiescent instant after the dial (G's end: %d B in, %d B out)", h.name, normIP(ra.IP), st.BytesIn, st.BytesOut)
			}
		}
	}
	if faulty {
		// An inbound WebTransport connection passes InterceptAccept, then runs a Noise handshake over the lossy wire
		// before InterceptSecured and admission. The listener bounds that by its 10 s handshake timeout, and the
		// dialler had G's answer to its CONNECT (sent after InterceptAccept) before its dial call returned: 15 virtual
		// seconds after the dials returned nothing that passed InterceptAccept is still pending, so no admission
		// straddles the next rule change.
		fs.settle(15 * time.Second)
	} else {
		fs.settle(5 * time.Second)
	}

	// ---- outbound: transport dial attempts from G ----------------------------------------------------------
	for _, d := range fs.n.Dials()[dials0:] {
		if d.From != gIP {
			continue
		}
		hostS, _, err := net.SplitHostPort(d.To)
		ip := net.ParseIP(hostS)
		if err != nil || ip == nil {
			fs.trouble("cannot parse dial record %+v", d)
			return
		}
		if v := fs.m.ipVerdict(ip); v.def {
			fs.bump()
			fs.violate("C10/dialed-blocked-"+kindName[v.kind]+"/"+fs.phase(v.key), "G made a transport dial attempt to %s (outcome %s) although %s is blocked; round: %s", d.To, d.Outcome, v.key, strings.Join(desc, ", "))
		}
		if h := fs.hostByIP(ip); h != nil && pv[h].def {
			fs.bump()
			fs.violate("C10/dialed-blocked-peer/"+fs.phase(pv[h].key), "G made a transport dial attempt to %s, an address of blocked peer %s (outcome %s)", d.To, h.name, d.Outcome)
		}
	}
	// QUIC: connection attempts of G seen on the wire (client Initial packets) since the last check
	fs.mu.Lock()
	uds := append([]udpDial(nil), fs.udpDials[fs.udpJudged:]...)
	fs.udpJudged = len(fs.udpDials)
	fs.mu.Unlock()
	flagged := map[string]bool{}
	for _, d := range uds {
		fs.probe("quic-dial-attempt-seen")
		if flagged[normIP(d.to)] {
			continue // retransmissions of the same attempt
		}
		// the wire does not tell plain QUIC from WebTransport (both start with a QUIC handshake): the class names
		// what G knew of that IP in this round
		uk := map[int]string{kQUIC: "quic", kWT: "webtransport"}[udpKinds[normIP(d.to)]]
		if uk == "" {
			uk = "quic-or-webtransport"
		}
		if v := fs.m.ipVerdict(d.to); v.def {
			flagged[normIP(d.to)] = true
			fs.violate("C10/dialed-blocked-"+kindName[v.kind]+"/"+uk+"/"+fs.phase(v.key), "G sent a QUIC client Initial to %s (a connection attempt) although %s is blocked; round: %s", normIP(d.to), v.key, strings.Join(desc, ", "))
		}
		if h := fs.hostByIP(d.to); h != nil && pv[h].def {
			flagged[normIP(d.to)] = true
			fs.violate("C10/dialed-blocked-peer/"+uk+"/"+fs.phase(pv[h].key), "G sent a QUIC client Initial to %s, an address of blocked peer %s; round: %s", normIP(d.to), h.name, strings.Join(desc, ", "))
		}
	}
	// ---- admitted connections on G: judged when the notification arrives (judgeAdmitted); here only entries
	// of ConnsToPeer that nobody was notified of ---------------------------------------------------------------
	_ = ev0
	for _, h := range hosts {
		for _, c := range fs.G.Swarm.ConnsToPeer(h.node.ID) {
			fs.mu.Lock()
			known := fs.everSeen[c]
			fs.everSeen[c] = true
			fs.mu.Unlock()
			if !survivors[c] && !known {
				fs.judgeAdmitted(connEvent{conn: c, peer: c.RemotePeer(), addr: c.RemoteMultiaddr(), dir: c.Stat().Direction})
			}
		}
	}
	// ---- a refused inbound connection is CLOSED by G ("closed at accept / right after the security handshake"):
	// QUIC and WebTransport connections arrive at the transport's gating point fully established, so the remote
	// holds a connection until G's close reaches it. Without UDP faults that takes no time: 5 virtual seconds
	// after the dials (far below the 30 s idle timeout that would clean up by itself) a remote that matches a
	// definitely blocked rule, had no connection before the round and is not listed by G must not list G either.
	if !faulty {
		for _, h := range hosts {
			if !(pv[h].def || iv[h].def) || nSurv[h] > 0 || xSurv[h] > 0 || len(fs.G.Swarm.ConnsToPeer(h.node.ID)) > 0 {
				continue
			}
			left := h.node.Swarm.ConnsToPeer(fs.G.ID)
			if len(left) == 0 {
				continue
			}
			v := pv[h]
			if !v.def {
				v = iv[h]
			}
			fs.violate("C10/refused-inbound-not-closed/"+kindName[v.kind]+"/"+tptOf(left[0].RemoteMultiaddr())+"/"+fs.phase(v.key), "%s (matches blocked %s) still holds %d connection(s) to G 5 virtual seconds after its dial although G admitted none: G refused without closing; round: %s", h.name, v.key, len(left), strings.Join(desc, ", "))
		}
	}
	// ---- bookkeeping, liveness, signature ----------------------------------------------------------------------
	var resS []string
	for _, tk := range tasks {
		fs.logf("  %s: %s", tk.label, short(tk.err))
		r := "ok"
		if tk.err != nil {
			r = "err"
		}
		resS = append(resS, tk.label+"="+r)
	}
	for _, h := range hosts {
		nc := len(fs.G.Swarm.ConnsToPeer(h.node.ID))
		resS = append(resS, fmt.Sprintf("%s:%d", h.name, nc))
		if !involved[h] {
			continue
		}
		blockedNow := pv[h].def || iv[h].def
		if blockedNow {
			h.hadDef = true
			fs.bump()
			fs.probe("round-with-blocked-remote")
			if nSurv[h] > 0 {
				fs.probe("survivor-conn-while-blocked")
			}
		}
		if backoffAtStart[h] && !pv[h].poss && !iv[h].poss && expectLive[h] && nc == 0 {
			fs.probe("not-connected-with-backoff-kept")
		}
		if !pv[h].poss && !iv[h].poss && expectLive[h] && !backoffAtStart[h] && !usedAsRelay[h] {
			if fs.ackedBlock > 0 {
				fs.bump()
			}
			if nc == 0 && faulty {
				fs.probe("not-connected-under-udp-faults")
			} else if nc == 0 {
				if !fs.refusedNonMatching {
					var errs []string
					for _, tk := range tasks {
						if tk.to == h.name || tk.from == h.name {
							errs = append(errs, tk.label+": "+short(tk.err))
						}
					}
					fs.trouble("G and %s are not connected after the round although no rule matches and no hook refused: %v", h.name, errs)
					return
				}
			} else if h.hadDef {
				fs.probe("connected-after-unblock")
			}
		}
	}
	fs.sig = append(fs.sig, fmt.Sprintf("round[%s|%s]", strings.Join(desc, ","), strings.Join(resS, ",")))

	// ---- between rounds: mostly drop the connections so that the next round has to dial again -------------------
	keepConns := fs.g.Chance(1, 4)
	if fs.relay && !keepConns {
		keepConns = fs.g.Bool() // an existing connection to the relay is what lets a circuit dial skip the hop's own gating
	}
	if !keepConns {
		for _, h := range hosts {
			fs.G.Swarm.ClosePeer(h.node.ID)
			h.node.Swarm.ClosePeer(fs.G.ID)
		}
	} else {
		fs.probe("conns-kept-across-steps")
	}
	fs.settle(time.Second)
	// Dial back-off (a refused or failed dial puts the address into back-off for >= 5 s): mostly cleared, so that
	// the next round's dials are attempted and liveness can be expected; sometimes (drawn) left as the swarm has it,
	// so that a dial after a rule change meets the back-off state the refusal created.
	keepBackoff := fs.g.Chance(1, 4)
	for _, h := range hosts {
		if keepBackoff {
			h.mayBackoff = true
		} else {
			h.node.Swarm.Backoff().Clear(fs.G.ID)
			fs.G.Swarm.Backoff().Clear(h.node.ID)
			h.mayBackoff = false
		}
	}
	if keepBackoff {
		fs.probe("backoff-kept")
	}
}

// punchRound (QUIC stratum): G hole-punches towards a host in the SERVER role — Swarm.DialPeer (or the QUIC
// transport's Dial directly) with network.WithSimultaneousConnect(ctx, false, …), as the DCUtR responder does —
// while the host, or its TWIN (a second node with the same key on the host's decoy IP, alive for this round only),
// dials G over QUIC after a drawn delay. The transport does not dial then: it sends random datagrams and waits up
// to HolePunchTimeout (5 s) for the remote's INBOUND connection from exactly the punched address, which
// listener.Accept must gate like any other accepted connection before handing it to the waiting Dial. Optionally
// one Block/Unblock call on a rule that matches the host or its twin returns mid-punch (at half the delay, at a
// quiescent instant). Oracles: admitted-* (notification time), what the punching Dial RETURNS (punch-returned-*),
// hook-not-consulted with the inbound call sites counted, refused-inbound-not-closed, dialed-*.
func (fs *fullStack) punchRound() {
	h := []*host{fs.P, fs.Q}[fs.g.Int(2)]
	who := fs.g.Int(3) // 0 the host dials, 1 its twin dials, 2 both
	delay := []time.Duration{0, 50 * time.Millisecond, time.Second, 4900 * time.Millisecond}[fs.g.Int(4)]
	direct := fs.g.Chance(1, 3) // transport.Dial instead of Swarm.DialPeer: no InterceptPeerDial/AddrDial in front
	midOp := delay > 0 && fs.g.Bool()
	faulty := fs.faultsOn
	fam := "ip4"
	if h.v6 {
		fam = "ip6"
	}
	target := ma.StringCast(fmt.Sprintf("/%s/%s/udp/%d/quic-v1", fam, h.ip, tcpPort))
	desc := fmt.Sprintf("punch: G punches %s at %s (server role, %s); dialling G over QUIC after %v: %s", h.name, target,
		map[bool]string{false: "Swarm.DialPeer", true: "transport.Dial"}[direct], delay, []string{h.name, h.name + "'s twin at " + h.decoy, h.name + " and its twin at " + h.decoy}[who])
	fs.logf("%s; model %s", desc, fs.modelString())
	fs.probe("punch-round")
	fs.probe(fmt.Sprintf("punch-delay-%v", delay))

	// nothing between G and the host may exist: DialPeer would return it instead of punching
	fs.G.Swarm.ClosePeer(h.node.ID)
	h.node.Swarm.ClosePeer(fs.G.ID)
	fs.settle(time.Second)
	fs.G.Swarm.Backoff().Clear(h.node.ID)
	h.node.Swarm.Backoff().Clear(fs.G.ID)

	type dialler struct {
		name string
		ip   string
		node *simhost.Node
		err  error
	}
	var ds []*dialler
	if who != 1 {
		ds = append(ds, &dialler{name: h.name, ip: h.ip, node: h.node})
	}
	var twin *simhost.Node
	if who != 0 {
		nd, err := simhost.New(fs.n, simhost.Opts{Key: simhost.DetKey(h.seed), IP: h.decoy, Port: tcpPort, Security: fs.secu, QUIC: true})
		if err != nil {
			fs.trouble("twin of %s: %v", h.name, err)
			return
		}
		twin = nd
		nd.Swarm.SetStreamHandler(func(s network.Stream) { s.Reset() })
		ds = append(ds, &dialler{name: h.name + "-twin", ip: h.decoy, node: nd})
		fs.probe("punch-with-twin")
	}
	for _, d := range ds {
		d.node.PS.ClearAddrs(fs.G.ID)
		d.node.PS.AddAddrs(fs.G.ID, []ma.Multiaddr{fs.G.QAddr}, peerstore.PermanentAddrTTL)
	}
	fs.G.PS.ClearAddrs(h.node.ID)
	fs.G.PS.AddAddrs(h.node.ID, []ma.Multiaddr{target}, peerstore.PermanentAddrTTL)
	fs.mu.Lock()
	fs.punching[h.name] = true
	fs.refusedNonMatching = false
	fs.mu.Unlock()

	var punchErr error
	var got transport.CapableConn
	var gotConn network.Conn
	done := make(chan int, 1+len(ds))
	simrt.GoNamed("punch G->"+h.name, func() {
		ctx, cancel := context.WithTimeout(context.Background(), 30*time.Second)
		ctx = network.WithSimultaneousConnect(ctx, false, "c10 hole punch")
		if direct {
			if tp := fs.G.Swarm.TransportForDialing(target); tp != nil {
				got, punchErr = tp.Dial(ctx, target, h.node.ID)
			} else {
				punchErr = errors.New("no transport")
			}
		} else {
			gotConn, punchErr = fs.G.Swarm.DialPeer(ctx, h.node.ID)
		}
		cancel()
		simrt.Send("punch-done", done, 0)
	})
	for i, d := range ds {
		i, d := i, d
		simrt.GoNamed("dial "+d.name+"->G", func() {
			if delay > 0 {
				simrt.TimeSleep(delay)
			}
			ctx, cancel := context.WithTimeout(context.Background(), 30*time.Second)
			_, d.err = d.node.Swarm.DialPeer(ctx, fs.G.ID)
			cancel()
			simrt.Send("punch-done", done, 1+i)
		})
	}
	if midOp {
		// a rule that matches the host or its twin takes force (or is lifted) while the punch is pending
		var rel []*rule
		for _, r := range fs.cat {
			switch r.kind {
			case kPeer:
				if r.key == "p:"+h.name {
					rel = append(rel, r)
				}
			case kAddr:
				if k := normIP(r.ip); k == h.ip || k == h.decoy {
					rel = append(rel, r)
				}
			case kSubnet:
				if r.ipnet.Contains(net.ParseIP(h.ip)) || r.ipnet.Contains(net.ParseIP(h.decoy)) {
					rel = append(rel, r)
				}
			}
		}
		r := rel[fs.g.Int(len(rel))]
		block := fs.g.Weighted(3, 1) == 0
		fault := []int{0, 2}[fs.g.Weighted(5, 1)] // no process stop mid-punch: that is a restart round
		simrt.TimeSleep(delay / 2)
		simrt.WaitIdle()
		fs.probe("rule-change-mid-punch")
		fs.applyRule(block, r, fault)
	}
	for i := 0; i < 1+len(ds); i++ {
		simrt.Recv("punch-wait", done)
	}
	simrt.WaitIdle()
	if faulty {
		fs.settle(15 * time.Second)
	} else {
		fs.settle(6 * time.Second)
	}

	// ---- oracles, with the rules in force since (at the latest) half the delay, i.e. before anybody dialled G ----
	pvH := fs.m.peerVerdict(h.name)
	res := []string{"punch=" + map[bool]string{true: "ok", false: "err"}[punchErr == nil]}
	fs.logf("  punch: %s", short(punchErr))
	if punchErr == nil {
		fs.probe("punch-succeeded")
	}
	if got != nil {
		// what the transport's Dial returned is a connection it let through its own gating point
		ra := got.RemoteMultiaddr()
		ip := ipOf(ra)
		n := fs.names[got.RemotePeer()]
		fs.probe("punch-returned-conn-direct")
		if v := fs.m.peerVerdict(n); v.def {
			fs.violate("C10/punch-returned-blocked-peer/quic/"+fs.phase(v.key), "the QUIC transport's server-role Dial returned a connection with blocked peer %s (%s)", n, stripPort(ra))
		}
		if v := fs.m.ipVerdict(ip); v.def {
			fs.violate("C10/punch-returned-blocked-"+kindName[v.kind]+"/quic/"+famTag(ra)+"/"+fs.phase(v.key), "the QUIC transport's server-role Dial returned a connection with %s at %s, which matches blocked %s", n, stripPort(ra), v.key)
		}
		if n != "" && ip != nil {
			fs.mu.Lock()
			// transport.Dial was called directly: the swarm's dial hooks are not in front of it
			fs.calls["PeerDial|"+n]++
			fs.calls["AddrDial|"+n+"|quic|"+normIP(ip)]++
			fs.mu.Unlock()
			fs.judgeCallSites(n, ip, "quic", network.DirOutbound, true, nil, stripPort(ra))
		}
		got.Close()
	}
	if gotConn != nil {
		fs.mu.Lock()
		known := fs.everSeen[gotConn]
		fs.mu.Unlock()
		if !known {
			fs.judgeAdmitted(connEvent{conn: gotConn, peer: gotConn.RemotePeer(), addr: gotConn.RemoteMultiaddr(), dir: gotConn.Stat().Direction})
		}
	}
	// G itself must not have started a QUIC connection attempt towards a blocked target (a punch is not one)
	fs.mu.Lock()
	uds := append([]udpDial(nil), fs.udpDials[fs.udpJudged:]...)
	fs.udpJudged = len(fs.udpDials)
	fs.mu.Unlock()
	for _, d := range uds {
		if v := fs.m.ipVerdict(d.to); v.def {
			fs.violate("C10/dialed-blocked-"+kindName[v.kind]+"/quic/"+fs.phase(v.key), "G sent a QUIC client Initial to %s during a punch round although %s is blocked", normIP(d.to), v.key)
			break
		}
		if hh := fs.hostByIP(d.to); hh != nil && fs.m.peerVerdict(hh.name).def {
			fs.violate("C10/dialed-blocked-peer/quic/"+fs.phase("p:"+hh.name), "G sent a QUIC client Initial to %s, an address of blocked peer %s, during a punch round", normIP(d.to), hh.name)
			break
		}
	}
	gHas := func(ip string) bool {
		for _, c := range fs.G.Swarm.ConnsToPeer(h.node.ID) {
			if x := ipOf(c.RemoteMultiaddr()); x != nil && normIP(x) == ip {
				return true
			}
		}
		return false
	}
	for _, d := range ds {
		fs.logf("  %s->G: %s", d.name, short(d.err))
		r := "ok"
		if d.err != nil {
			r = "err"
		}
		res = append(res, d.name+"="+r)
		iv := fs.m.ipVerdict(net.ParseIP(d.ip))
		if pvH.def || iv.def {
			fs.bump()
			fs.probe("punch-round-with-blocked-dialler")
			// refused-inbound-not-closed, as in an ordinary round
			if !faulty && !gHas(d.ip) {
				if left := d.node.Swarm.ConnsToPeer(fs.G.ID); len(left) > 0 {
					v := pvH
					if !v.def {
						v = iv
					}
					fs.violate("C10/refused-inbound-not-closed/"+kindName[v.kind]+"/"+tptOf(left[0].RemoteMultiaddr())+"/"+fs.phase(v.key), "%s (matches blocked %s) still holds %d connection(s) to G 6 virtual seconds after its dial into G's hole punch although G lists none from %s: G refused without closing; %s", d.name, v.key, len(left), d.ip, desc)
				}
			}
		}
	}
	res = append(res, fmt.Sprintf("%s:%d", h.name, len(fs.G.Swarm.ConnsToPeer(h.node.ID))))
	fs.sig = append(fs.sig, fmt.Sprintf("punch[%s|mid=%v|%s]", desc, midOp, strings.Join(res, ",")))

	// ---- clean up: the twin disappears, nothing stays open between G and the host -------------------------------
	fs.mu.Lock()
	fs.punching[h.name] = false
	fs.mu.Unlock()
	if twin != nil {
		twin.Close()
	}
	fs.G.Swarm.ClosePeer(h.node.ID)
	h.node.Swarm.ClosePeer(fs.G.ID)
	fs.settle(time.Second)
	fs.G.Swarm.Backoff().Clear(h.node.ID)
	h.node.Swarm.Backoff().Clear(fs.G.ID)
	h.mayBackoff = false
}

func (fs *fullStack) byName(n string) *host {
	if n == "P" {
		return fs.P
	}
	return fs.Q
}

func (fs *fullStack) runFullStack(mode simnet.LinkMode, tapeS *simrt.Stream) {
	fs.n = simnet.New(tapeS, simnet.Config{Mode: mode})
	fs.everSeen = map[network.Conn]bool{}
	fs.punching = map[string]bool{}
	fs.scidFrom = map[string]bool{}
	if fs.quic {
		// UDP wire: in part of the runs datagrams are lost (<= 30 %), duplicated and delayed (= reordered)
		if fs.g.Weighted(3, 2) == 1 {
			fs.udpCfg = simnet.UDPConfig{
				DropPermille: []int{0, 30, 120, 300}[fs.g.Int(4)],
				DupPermille:  []int{0, 50}[fs.g.Int(2)],
				Latencies:    [][]time.Duration{nil, {0, time.Millisecond, 15 * time.Millisecond}, {0, 5 * time.Millisecond, 80 * time.Millisecond, 400 * time.Millisecond}}[fs.g.Int(3)],
			}
			if fs.udpCfg.DropPermille > 0 || fs.udpCfg.DupPermille > 0 || len(fs.udpCfg.Latencies) > 0 {
				fs.faultsOn = true
				fs.n.SetUDP(fs.udpCfg)
				fs.probe("udp-faults-on")
			}
		}
		fs.n.SetUDPFilter(fs.udpFilter)
		fs.logf("QUIC stratum: every node listens on TCP and QUIC; udp faults: drop %d permille, dup %d permille, %d latencies", fs.udpCfg.DropPermille, fs.udpCfg.DupPermille, len(fs.udpCfg.Latencies))
		fs.sig = append(fs.sig, fmt.Sprintf("udp=%d/%d/%d", fs.udpCfg.DropPermille, fs.udpCfg.DupPermille, len(fs.udpCfg.Latencies)))
	}
	// hosts
	pi := fs.g.Int(len(pool))
	qi := (pi + 1 + fs.g.Int(len(pool)-1)) % len(pool)
	free := func(skip ...int) int {
		k := fs.g.Int(len(pool))
		for {
			ok := true
			for _, s := range skip {
				if k == s {
					ok = false
				}
			}
			if ok {
				return k
			}
			k = (k + 1) % len(pool)
		}
	}
	dp := free(pi, qi)
	dq := free(pi, qi, dp)
	mk := func(name string, seed, idx, decoy int) *host {
		h := &host{name: name, seed: seed, ip: pool[idx].ip, v6: isV6(pool[idx].ip), decoy: pool[decoy].ip}
		h.srcIP = h.ip
		low := strings.ToLower(name)
		if h.v6 {
			h.forms = []string{"/ip6/" + h.ip + "/tcp/4001", "/dns6/" + low + ".test/tcp/4001", "/dns/" + low + ".test/tcp/4001"}
			h.qforms = []string{"/ip6/" + h.ip + "/udp/4001/quic-v1", "/dns6/" + low + ".test/udp/4001/quic-v1"}
			fs.probe("host-ipv6")
		} else {
			h.forms = []string{"/ip4/" + h.ip + "/tcp/4001", "/ip6/::ffff:" + h.ip + "/tcp/4001", "/dns4/" + low + ".test/tcp/4001",
				"/dns6/" + low + ".test/tcp/4001", "/dns/" + low + ".test/tcp/4001"}
			h.qforms = []string{"/ip4/" + h.ip + "/udp/4001/quic-v1", "/ip6/::ffff:" + h.ip + "/udp/4001/quic-v1", "/dns4/" + low + ".test/udp/4001/quic-v1"}
			if fs.g.Chance(1, 4) {
				h.srcIP = "::ffff:" + h.ip
				fs.probe("mapped-source")
			}
		}
		fs.probe("host-at-" + pool[idx].class)
		return h
	}
	fs.P = mk("P", 2, pi, dp)
	fs.Q = mk("Q", 3, qi, dq)
	fs.dns = &fakeDNS{ip: map[string]string{"p.test": fs.P.ip, "q.test": fs.Q.ip}}
	fs.logf("G=%s P=%s (source %s, decoy %s) Q=%s (source %s, decoy %s)", gIP, fs.P.ip, fs.P.srcIP, fs.P.decoy, fs.Q.ip, fs.Q.srcIP, fs.Q.decoy)
	fs.sig = append(fs.sig, fmt.Sprintf("P=%s/%s Q=%s/%s", fs.P.srcIP, fs.P.decoy, fs.Q.srcIP, fs.Q.decoy))

	// rule catalogue relative to the hosts
	for _, h := range []*host{fs.P, fs.Q} {
		ip := net.ParseIP(h.ip)
		fs.cat = append(fs.cat, addrRule(ip), addrRule(ip)) // 16-byte form
		if v4 := ip.To4(); v4 != nil {
			fs.cat = append(fs.cat, addrRule(v4)) // 4-byte form
			fs.cat = append(fs.cat, subnetRule(h.ip+"/32"))
		} else {
			fs.cat = append(fs.cat, subnetRule(h.ip+"/128"))
		}
		fs.cat = append(fs.cat, addrRule(net.ParseIP(h.decoy)))
		// neighbours: must not affect the host
		nb := append(net.IP(nil), ip...)
		nb[len(nb)-1] ^= 1
		fs.cat = append(fs.cat, addrRule(nb))
	}
	fams := map[bool]bool{fs.P.v6: true, fs.Q.v6: true, isV6(fs.P.decoy): true, isV6(fs.Q.decoy): true}
	if fams[false] {
		for _, s := range subnets4 {
			fs.cat = append(fs.cat, subnetRule(s), subnetRule(s))
		}
		fs.cat = append(fs.cat, rawSubnets4...)
	}
	if fams[true] {
		for _, s := range subnets6 {
			fs.cat = append(fs.cat, subnetRule(s), subnetRule(s))
		}
		fs.cat = append(fs.cat, rawSubnets6...)
	}

	if !fs.startG() {
		return
	}
	defer fs.closeG()
	for _, h := range []*host{fs.P, fs.Q} {
		nd, err := simhost.New(fs.n, simhost.Opts{Key: simhost.DetKey(h.seed), IP: h.srcIP, Port: tcpPort, Security: fs.secu, QUIC: fs.quic, WebTransport: fs.quic, WithHost: fs.relay})
		if err != nil {
			fs.trouble("node %s: %v", h.name, err)
			return
		}
		h.node = nd
		defer nd.Close()
		if !fs.relay {
			nd.Swarm.SetStreamHandler(func(s network.Stream) { s.Reset() })
		}
		nd.PS.AddAddrs(fs.ids["G"], []ma.Multiaddr{fs.G.Addr}, peerstore.PermanentAddrTTL)
		if nd.ID != fs.ids[h.name] {
			fs.trouble("identity mismatch for %s", h.name)
			return
		}
	}

	if fs.relay {
		// Q runs the real circuit-v2 relay service (unlimited, so that relayed connections carry any stream), P gets the
		// client transport, connects to Q and reserves a slot: /ip/Q/tcp/4001/p2p/Q/p2p-circuit is a working address of P.
		rl, err := relay.New(fs.Q.node.Host, relay.WithInfiniteLimits())
		if err != nil {
			fs.trouble("relay service on Q: %v", err)
			return
		}
		defer rl.Close()
		cl, err := client.New(fs.P.node.Host, fs.P.node.Up)
		if err == nil {
			err = fs.P.node.Swarm.AddTransport(cl)
		}
		if err == nil {
			err = fs.P.node.Swarm.Listen(ma.StringCast("/p2p-circuit"))
		}
		if err != nil {
			fs.trouble("circuit client transport on P: %v", err)
			return
		}
		cl.Start()
		ctx, cancel := context.WithTimeout(context.Background(), 30*time.Second)
		err = fs.P.node.Host.Connect(ctx, fs.Q.node.AddrInfo())
		if err == nil {
			_, err = client.Reserve(ctx, fs.P.node.Host, fs.Q.node.AddrInfo())
		}
		cancel()
		if err != nil {
			fs.trouble("P's reservation on relay Q: %v", err)
			return
		}
		fs.settle(time.Second)
		fs.logf("relay stratum: Q is a circuit-v2 relay, P holds a reservation on it; G has the real circuit client transport")
	}

	steps := 3 + fs.g.Int(8)
	for i := 0; i < steps && !fs.dead; i++ {
		w := []int{5, 6, 1}
		if fs.quic {
			w = append(w, 3) // hole-punch rounds exist in the QUIC stratum only
		}
		switch fs.g.Weighted(w...) {
		case 3:
			fs.punchRound()
		case 0:
			fs.round()
		case 1:
			block, r, fault := fs.drawOp()
			if fs.applyRule(block, r, fault) {
				if !fs.restartG(true) {
					return
				}
			}
		case 2:
			if !fs.restartG(false) {
				return
			}
		}
	}
	// every history ends with a round, so that the last rule change is exercised. UDP faults stop before it
	// (liveness is expected only after faults stopped): everything is closed on both sides and 45 virtual seconds
	// (> QUIC's 30 s idle timeout) pass, so that no half-dead connection whose CONNECTION_CLOSE was lost is left.
	if !fs.dead {
		if fs.faultsOn {
			fs.faultsOn = false
			fs.n.SetUDP(simnet.UDPConfig{})
			for _, h := range []*host{fs.P, fs.Q} {
				fs.G.Swarm.ClosePeer(h.node.ID)
				h.node.Swarm.ClosePeer(fs.G.ID)
			}
			fs.settle(45 * time.Second)
			for _, h := range []*host{fs.P, fs.Q} {
				h.node.Swarm.Backoff().Clear(fs.G.ID)
				fs.G.Swarm.Backoff().Clear(h.node.ID)
				h.mayBackoff = false
			}
			fs.probe("udp-faults-stopped-before-final-round")
		}
		fs.round()
	}
	if fs.quic {
		for k, v := range fs.n.UDPCounts() {
			if v > 0 && (k == "udp-lost" || k == "udp-duplicated" || k == "udp-delayed") {
				fs.o.Fault(k)
			}
		}
	}
}

// panicSite extracts the function that called panic() from a recovered stack ("pkg.(*T).Method").
func panicSite(stack string) string {
	lines := strings.Split(stack, "\n")
	for i, l := range lines {
		if strings.HasPrefix(l, "panic(") {
			for j := i + 1; j < len(lines); j++ {
				f := strings.TrimSpace(lines[j])
				if f == "" || strings.HasPrefix(f, "/") || strings.HasPrefix(lines[j], "\t") {
					continue
				}
				if k := strings.LastIndexByte(f, '('); k > 0 {
					f = f[:k]
				}
				if k := strings.LastIndexByte(f, '/'); k >= 0 {
					f = f[k+1:]
				}
				return f
			}
		}
	}
	return "unknown"
}

// ---- run ---------------------------------------------------------------------------------------------------

func run(t *testing.T, tape *simrt.Tape) *common.Outcome {
	g := simrt.Gen{S: tape.G}
	o := &common.Outcome{}
	w := &world{o: o, g: g, disk: simdisk.New(), m: newModel(), names: map[peer.ID]string{}, ids: map[string]peer.ID{}}
	for name, seed := range map[string]int{"G": 1, "P": 2, "Q": 3, "X": 4, "Y": 5, "R": 6} {
		id, err := peer.IDFromPrivateKey(simhost.DetKey(seed))
		if err != nil {
			o.Trouble = err.Error()
			return o
		}
		w.ids[name] = id
		w.names[id] = name
	}
	relayIDText = w.ids["R"].String()
	for _, n := range []string{"P", "Q", "X"} {
		w.cat = append(w.cat, peerRule(n, w.ids[n]))
	}
	w.cat = append(w.cat, peerRule("P", w.ids["P"]), peerRule("Q", w.ids["Q"]))

	// 0 hooks-direct (simplest: the minimiser may move a gater-level failure there), 1 full-stack over TCP,
	// 2 full-stack with QUIC next to TCP (drawn FIRST, so that every other draw of a TCP run keeps its meaning)
	// 3 full-stack over TCP with a REAL circuit-v2 relay (Q) and a reservation (P)
	stratum := g.Weighted(1, 3, 3, 1)
	if forceStratum >= 0 {
		stratum = forceStratum
	}
	mode := []simnet.LinkMode{simnet.Whole, simnet.Fragment}[g.Int(2)]
	secu := []string{"noise", "tls"}[g.Weighted(3, 1)]
	if secu == "tls" {
		mode = simnet.Whole // TLS message lengths depend on crypto/rand (HARNESS_GUIDE)
	}
	stratumName := []string{"hooks-direct", "full-stack", "full-stack-quic", "full-stack-relay"}[stratum]
	o.Logf("stratum=%s link=%d security=%s", stratumName, mode, secu)
	o.Probe("stratum-" + stratumName)
	if stratum >= 1 {
		o.Probe("security-" + secu)
	}
	maxSteps := 600000
	if stratum == 2 {
		// QUIC connection ids, TLS randoms and everything ordered by them must replay: deterministic crypto/rand
		// for the duration of the run, installed before any node is built (HARNESS_GUIDE, QUIC stratum)
		restore := simrand.Install(0xC10)
		defer restore()
		maxSteps = 6000000
	}

	res := simrt.Run(t, simrt.Config{MaxSteps: maxSteps, IdleLimit: 24 * time.Hour, TraceCap: 100000}, tape.S, func() {
		cg, err := conngater.NewBasicConnectionGater(w.disk)
		if err != nil {
			w.trouble("first open: %v", err)
			return
		}
		w.gater = cg
		w.lastListed = map[string]bool{}
		if stratum == 0 {
			w.runHooksDirect()
		} else {
			fs := &fullStack{world: w, secu: secu, quic: stratum == 2, relay: stratum == 3}
			fs.runFullStack(mode, tape.S)
		}
	})
	o.Sched = res
	o.Virtual = res.Virtual
	o.Sig = stratumName + "|" + secu + "|" + strings.Join(w.sig, ";")
	o.Nontrivial = w.ackedBlock > 0 && w.checked > 0
	if res.Panic != "" {
		// a task of the stack panicked (= the node's process would have died). The class names the function that
		// panicked, so that a crash outside the gating code gets its own class.
		o.Violate("C10/panic/"+panicSite(res.Panic), "%s", res.Panic)
	}
	if (res.Stuck || res.StepLimit) && o.Trouble == "" {
		o.Trouble = fmt.Sprintf("stuck=%v steplimit=%v", res.Stuck, res.StepLimit)
	}
	if os.Getenv("C10_DEBUG") != "" && (o.Trouble != "" || len(o.Violations) > 0) {
		fmt.Fprintf(os.Stderr, "---- trace (trouble: %s)\n%s\n", o.Trouble, strings.Join(o.Trace, "\n"))
	}
	return o
}
