package c10

import (
	"fmt"
	"net"
	"sort"
	"strings"

	"github.com/libp2p/go-libp2p/core/peer"
	ma "github.com/multiformats/go-multiaddr"
	manet "github.com/multiformats/go-multiaddr/net"
)

// ---- universe ------------------------------------------------------------------------------

const (
	gIP     = "10.0.0.1"
	tcpPort = 4001
)

// pool: the IP addresses hosts (and decoy addresses nobody listens on) are drawn from. They sit on
// and next to the edges of the subnets of subnets4/subnets6, so that "first / last / just outside"
// of every blocked subnet occurs as a real remote.
type poolIP struct{ ip, class string }

var pool = []poolIP{
	{"10.0.1.70", "v4-inside-26"},
	{"10.0.1.64", "v4-first-of-26"},
	{"10.0.1.127", "v4-last-of-26"},
	{"10.0.1.63", "v4-below-26"},
	{"10.0.1.128", "v4-above-26"},
	{"10.0.1.0", "v4-first-of-24"},
	{"10.0.1.255", "v4-last-of-24"},
	{"10.0.0.255", "v4-below-24"},
	{"10.0.2.0", "v4-above-24"},
	{"192.168.7.9", "v4-far"},
	{"fd00:1::50", "v6-inside-122"},
	{"fd00:1::40", "v6-first-of-122"},
	{"fd00:1::7f", "v6-last-of-122"},
	{"fd00:1::3f", "v6-below-122"},
	{"fd00:1::80", "v6-above-122"},
	{"fd00:1::", "v6-first-of-64"},
	{"fd00:1::ffff:ffff:ffff:ffff", "v6-last-of-64"},
	{"fd00:0:ffff:ffff:ffff:ffff:ffff:ffff", "v6-below-64"},
	{"fd00:1:0:1::", "v6-above-64"},
	{"2001:db8::5", "v6-far"},
}

// Subnets in canonical form (host bits zero). The third one is the IPv4-mapped spelling of the
// first: net.IPNet prints it as 10.0.1.64/26, so both name the same rule.
var subnets4 = []string{"10.0.1.64/26", "10.0.1.0/24", "::ffff:10.0.1.64/122"}
var subnets6 = []string{"fd00:1::40/122", "fd00:1::/64"}

func isV6(ip string) bool { return net.ParseIP(ip).To4() == nil }

// normIP is the oracle's "same IP after 4-in-6 normalisation".
func normIP(ip net.IP) string {
	if v4 := ip.To4(); v4 != nil {
		return v4.String()
	}
	return ip.String()
}

func mustCIDR(s string) *net.IPNet {
	_, n, err := net.ParseCIDR(s)
	if err != nil {
		panic(err)
	}
	return n
}

// ---- rules and the reference model ------------------------------------------------------------

const (
	kPeer = iota
	kAddr
	kSubnet
)

var kindName = []string{"peer", "addr", "subnet"}

type rule struct {
	kind  int
	label string // printable, free of random bytes
	key   string // identity of the rule in the model ("same rule" = same key); subnets: the CANONICAL network
	spell string // subnets: the spelling handed to the gater (IPNet.String(), host bits and all)
	pid   peer.ID
	ip    net.IP // as handed to BlockAddr (4 or 16 bytes)
	ipnet *net.IPNet
}

// canonNet is the network a (possibly non-canonical) IPNet denotes: host bits cleared, IPv4-mapped folded to
// IPv4 — what net.IPNet.Contains decides membership by.
func canonNet(n *net.IPNet) string {
	return (&net.IPNet{IP: n.IP.Mask(n.Mask), Mask: n.Mask}).String()
}

func peerRule(name string, id peer.ID) *rule {
	return &rule{kind: kPeer, label: "peer:" + name, key: "p:" + name, pid: id}
}
func addrRule(ip net.IP) *rule {
	return &rule{kind: kAddr, label: fmt.Sprintf("addr:%s(%dB)", normIP(ip), len(ip)), key: "a:" + normIP(ip), ip: ip}
}
func subnetRule(cidr string) *rule {
	n := mustCIDR(cidr)
	return &rule{kind: kSubnet, label: "subnet:" + cidr, key: "s:" + canonNet(n), spell: n.String(), ipnet: n}
}

// rawSubnetRule: a subnet the way an application may hand it over without going through ParseCIDR — host bits
// set, 16-byte IPv4 with a 4-byte mask, IPv4-mapped with host bits. ipBytes: 4 or 16 for an IPv4 address.
func rawSubnetRule(ip string, ones, bits, ipBytes int, form string) *rule {
	x := net.ParseIP(ip)
	if ipBytes == 4 {
		x = x.To4()
	} else {
		x = x.To16()
	}
	n := &net.IPNet{IP: x, Mask: net.CIDRMask(ones, bits)}
	return &rule{kind: kSubnet, label: fmt.Sprintf("subnet:%s[%s]", n.String(), form), key: "s:" + canonNet(n), spell: n.String(), ipnet: n}
}

type st int

const (
	stUnblocked st = iota // never blocked, or last acknowledged call was Unblock
	stBlocked             // last acknowledged call was Block
	stUnknown             // a call on it failed or was cut by a process stop: either way is legal
)

func (s st) String() string { return [...]string{"unblocked", "BLOCKED", "unknown"}[s] }

// model is the acknowledged rule set: what the caller of Block*/Unblock* can know from return values.
type model struct {
	state map[string]st
	rules map[string]*rule // representative per key (for matching)
	epoch map[string]int   // gater incarnation in which the state was last set
	// Subnets: one network may be blocked under several spellings (10.0.1.64/26, 10.0.1.70/26, ::ffff:10.0.1.70/122 …).
	// The statement does not say whether those are one rule or several, so: a Block under any spelling that
	// returned nil enforces the network; an Unblock under spelling S lifts S, and whatever other spelling of the same
	// network was blocked becomes "unknown" (an implementation may key rules by spelling — the network stays
	// enforced — or by network — it does not). The network's state is derived: blocked if any spelling is,
	// else unknown if any is, else unblocked.
	spell map[string]map[string]st
}

func newModel() *model {
	return &model{state: map[string]st{}, rules: map[string]*rule{}, epoch: map[string]int{}, spell: map[string]map[string]st{}}
}

func (m *model) keys() []string {
	ks := make([]string, 0, len(m.state))
	for k := range m.state {
		ks = append(ks, k)
	}
	sort.Strings(ks)
	return ks
}

// update applies the caller-visible outcome of one call. acked = the call returned nil.
func (m *model) update(r *rule, block bool, acked bool, inc int) {
	target := stUnblocked
	if block {
		target = stBlocked
	}
	if r.kind == kSubnet {
		sp := m.spell[r.key]
		if sp == nil {
			sp = map[string]st{}
			m.spell[r.key] = sp
		}
		m.rules[r.key] = r
		switch {
		case acked:
			sp[r.spell] = target
		case sp[r.spell] != target:
			sp[r.spell] = stUnknown
		}
		if !block {
			// an Unblock was invoked (it may have taken effect even if it was cut): other spellings of the network
			for k, v := range sp {
				if k != r.spell && v == stBlocked {
					sp[k] = stUnknown
				}
			}
		}
		derived := stUnblocked
		for _, v := range sp {
			if v == stBlocked {
				derived = stBlocked
				break
			}
			if v == stUnknown {
				derived = stUnknown
			}
		}
		m.state[r.key] = derived
		m.epoch[r.key] = inc
		return
	}
	cur := m.state[r.key]
	m.rules[r.key] = r
	switch {
	case acked:
		m.state[r.key] = target
		m.epoch[r.key] = inc
	case cur == target:
		// a Block that did not complete cannot unblock (and vice versa): state stays definite
	default:
		m.state[r.key] = stUnknown
		m.epoch[r.key] = inc
	}
}

type verdict struct {
	def  bool   // a rule that is definitely in force matches
	poss bool   // a rule that is definitely or possibly in force matches
	kind int    // kind of the first definite match
	key  string // its key
}

func (m *model) peerVerdict(name string) verdict {
	var v verdict
	switch m.state["p:"+name] {
	case stBlocked:
		v = verdict{def: true, poss: true, kind: kPeer, key: "p:" + name}
	case stUnknown:
		v.poss = true
	}
	return v
}

func (m *model) ipVerdict(ip net.IP) verdict {
	var v verdict
	if ip == nil {
		return v
	}
	for _, k := range m.keys() {
		s := m.state[k]
		if s == stUnblocked {
			continue
		}
		r := m.rules[k]
		hit := false
		switch r.kind {
		case kAddr:
			hit = normIP(r.ip) == normIP(ip)
		case kSubnet:
			hit = r.ipnet.Contains(ip) // stdlib: normalises 4-in-6 on both sides
		}
		if !hit {
			continue
		}
		v.poss = true
		if s == stBlocked && !v.def {
			v.def, v.kind, v.key = true, r.kind, k
		}
	}
	return v
}

// ---- address forms ---------------------------------------------------------------------------------

// famTag names the textual family of the IP component of a multiaddr (for stable classes).
func famTag(a ma.Multiaddr) string {
	s := a.String()
	switch {
	case strings.HasPrefix(s, "/ip4/"):
		return "ip4"
	case strings.HasPrefix(s, "/ip6/::ffff:"):
		return "ip6-mapped"
	case strings.HasPrefix(s, "/ip6/"):
		return "ip6"
	case strings.HasPrefix(s, "/ip6zone/"):
		return "ip6zone"
	}
	return "no-ip"
}

// formsWithIP: every textual shape an address with this IP can take in a multiaddr handed to the gater.
func formsWithIP(ip string) []string {
	if !isV6(ip) {
		return []string{
			"/ip4/" + ip + "/tcp/4001",
			"/ip6/::ffff:" + ip + "/tcp/4001",
			"/ip4/" + ip + "/udp/4001/quic-v1",
			"/ip6/::ffff:" + ip + "/udp/4001/quic-v1",
			"/ip4/" + ip + "/udp/4001/quic-v1/webtransport",
			"/ip4/" + ip + "/udp/4001/webrtc-direct",
			"/ip4/" + ip + "/tcp/443/tls/sni/x.test/ws",
			"/ip4/" + ip,
			"/ip4/" + ip + "/tcp/4001/p2p/" + relayIDText + "/p2p-circuit", // the IP component is the relay's
		}
	}
	return []string{
		"/ip6/" + ip + "/tcp/4001",
		"/ip6/" + ip + "/udp/4001/quic-v1",
		"/ip6zone/eth0/ip6/" + ip + "/tcp/4001",
		"/ip6/" + ip + "/udp/4001/quic-v1/webtransport",
		"/ip6/" + ip + "/tcp/4001/ws",
		"/ip6/" + ip,
		"/ip6/" + ip + "/udp/4001/quic-v1/p2p/" + relayIDText + "/p2p-circuit",
	}
}

// formsWithoutIP: the gater cannot know the remote IP; the statement says nothing about them
// (the swarm resolves names before it asks InterceptAddrDial) — only "no panic" is asserted.
var formsWithoutIP = []string{
	"/dns4/x.test/tcp/4001",
	"/dns6/x.test/udp/4001/quic-v1",
	"/dns/x.test/tcp/443/tls/ws",
	"/dnsaddr/x.test",
	"/memory/1234",
	"/unix/tmp/x.sock",
}

// relayIDText: a peer id to spell relayed addresses with (DetKey(6); set in run()).
var relayIDText string

func ipOf(a ma.Multiaddr) net.IP {
	ip, err := manet.ToIP(a)
	if err != nil {
		return nil
	}
	return ip
}

type connAddrs struct{ l, r ma.Multiaddr }

func (c connAddrs) LocalMultiaddr() ma.Multiaddr  { return c.l }
func (c connAddrs) RemoteMultiaddr() ma.Multiaddr { return c.r }
