# orchestrator configuration of the C10 check (loaded by tools/props.py)
from stack import FULL_STACK, FULL_DEPS

ENABLED = False

SPEC = dict(
    pkg="./harness/c10",
    instrument=FULL_STACK + ["./p2p/net/conngater"],
    deps=FULL_DEPS,
    level="exploration",
    level_text="TBD",
    level_note="TBD",
    technique="TBD",
    design_ref="DESIGN.md section 6 (C10)",
    quick_s=50, thorough_s=600,
    rule="TBD",
    probes=[],
    real=[], stubs=[], assume=[],
)
