# orchestrator configuration of the C10 check (loaded by tools/props.py)
from stack import FULL_STACK, FULL_DEPS, QUIC_STACK, QUIC_DEPS, WT_STACK, WT_DEPS

SPEC = dict(
    pkg="./harness/c10",
    instrument=FULL_STACK + QUIC_STACK + WT_STACK + ["./p2p/net/conngater", "./p2p/protocol/circuitv2/relay",
                "./p2p/protocol/circuitv2/client", "./p2p/protocol/circuitv2/util"],
    deps=FULL_DEPS + QUIC_DEPS + WT_DEPS,
    level="exploration",
    level_text=("seeded search over histories of Block*/Unblock* calls on the real BasicConnectionGater (peer, address in 4- and "
                "16-byte form, IPv4/IPv6 subnets in canonical and non-canonical spellings: host bits set, IPv4-mapped, mixed byte lengths), each optionally cut by a process stop "
                "right after its datastore mutation or failed by a datastore I/O error, clean restarts and failing loads, "
                "interleaved (stratum full-stack) with rounds of concurrent dials in both directions between three real nodes on "
                "simnet whose IP addresses sit on the first/last/just-outside addresses of the blocked subnets (IPv4, IPv6, "
                "IPv4-mapped source spelling), G dialling through /ip4, /ip6, /ip6/::ffff:a.b.c.d, /dns4, /dns6, /dns forms "
                "(fake resolver) and decoy addresses, or (stratum hooks-direct) with a sweep of every Intercept* hook over every "
                "pool IP in every textual form after every call; stratum full-stack-quic: the same with every node on TCP, real QUIC AND real WebTransport "
                "(p2p/transport/quic + quicreuse + p2p/transport/webtransport + quic-go/http3 + webtransport-go over simnet's UDP "
                "model), the dialler knowing a drawn non-empty subset of {QUIC, WebTransport (with current certhashes), TCP} addresses "
                "per dial, UDP loss <= 30 % / duplication / reordering in 2/5 of those runs (stopped before the final round). "
                "Compared with the acknowledged rule set (what the return values "
                "told the caller). Sampling, not proof."),
    level_note=("trusted: testing/synctest, simnet's TCP model, simdisk's durability model (a mutation that was applied is "
                "durable; the stop falls right after it), go-datastore's MapDatastore/namespace/query code, go-multiaddr and "
                "net.IPNet.Contains (used by the reference model for matching). Rules change only at quiescent instants between "
                "dial rounds. NOT simulated: the WebRTC / websocket listeners' own InterceptAccept/InterceptSecured "
                "call sites (their address forms reach the real gater in the hooks-direct stratum only), relayed connections, "
                "hole punching; QUIC dial attempts are recognised on the wire by the harness's own parse of the QUIC long header "
                "(RFC 8999/9000 connection-id rule); "
                "an inbound TCP remote in /ip6/::ffff: form (Go's net.TCPAddr cannot produce it)"),
    technique=("deterministic simulation with fault injection: generated rule histories x crash/IO-fault points x restarts against "
               "an acknowledged-set reference model; full stack (swarm, gated listener, upgrader, Noise|TLS, yamux) on simnet, "
               "lock-level scheduling; direct hook sweep over address forms"),
    design_ref="DESIGN.md section 6 (C10)",
    quick_s=50, thorough_s=600,
    rule=("one run = one tape: stratum hooks-direct (1/8) | full-stack over TCP (3/8) | full-stack-relay (1/8: basic hosts, Q = real "
          "circuit-v2 relay, P holds a reservation, G has the real client transport; half of G's dials of P know the relayed address "
          "only; connections kept across steps in 5/8 of the rounds) | full-stack with QUIC+WebTransport (3/8: per dial "
          "a non-empty subset of {QUIC, WebTransport, TCP} address kinds (uniform over the 7 subsets), subsets of the QUIC and "
          "WebTransport address forms, UDP faults in 2/5 of the runs: "
          "loss 0|3|12|30 %, duplication 0|5 %, latencies none|<=15 ms|<=400 ms, stopped before the final round; hole-punch rounds (weight 3 of 15 steps): G punches towards P|Q in the server role through "
          "Swarm.DialPeer (2/3) | the QUIC transport's Dial (1/3) while the host | its twin on the decoy IP | both dial G over QUIC "
          "after 0|50 ms|1 s|4.9 s, in half of the delayed cases one Block(3/4)|Unblock call on a rule matching them returns "
          "mid-punch); full-stack: link whole|fragmented, security "
          "noise|tls, host IPs of P and Q and two decoy IPs from a 20-address pool on the subnet edges, 3-10 steps of dial round "
          "(subset of G->P, P->G, G->Q, Q->G run concurrently, each triggered by Swarm.DialPeer | Swarm.NewStream; per outbound dial a subset of the address forms, optional decoy) | "
          "Block/Unblock call (fault: none | process stop after the datastore mutation | I/O error) | clean restart, and a final "
          "round; hooks-direct: 3-20 calls/restarts with a hook sweep after each. Every restart may hit an I/O error in one of "
          "the three load queries first. non-trivial = at least one Block was acknowledged and at least one oracle evaluation "
          "with a definite expectation followed; distinct = distinct (stratum, security, hosts, sequence of calls with outcomes, "
          "rounds with dial results and connection counts) x schedule hash"),
    probes=["stratum-full-stack", "stratum-hooks-direct", "stratum-full-stack-quic", "stratum-full-stack-relay", "dial-with-circuit-addr",
            "circuit-addr-reached-transport", "refused-AddrDial-circuit", "circuit-conn-admitted-outbound", "circuit-Secured-outbound",
            "subnet-call-non-canonical-spelling", "backoff-kept", "peerstore-addrs-kept", "punch-round", "punch-with-twin", "punch-succeeded", "punched-conn-handed-out",
            "punch-returned-conn-direct", "rule-change-mid-punch", "punch-round-with-blocked-dialler", "punch-delay-0s",
            "punch-delay-50ms", "punch-delay-1s", "punch-delay-4.9s",
            "G-knows-quic", "G-knows-webtransport", "G-knows-tcp", "G-knows-quic+webtransport", "G-knows-quic+tcp",
            "G-knows-webtransport+tcp", "G-knows-quic+webtransport+tcp",
            "remote-knows-quic", "remote-knows-webtransport", "remote-knows-tcp", "remote-knows-quic+webtransport",
            "remote-knows-quic+tcp", "remote-knows-webtransport+tcp", "remote-knows-quic+webtransport+tcp",
            "webtransport-conn-admitted-inbound", "webtransport-conn-admitted-outbound", "webtransport-Secured-inbound",
            "webtransport-Secured-outbound", "refused-Accept-webtransport", "refused-Secured-inbound-webtransport",
            "refused-AddrDial-webtransport", "dial-form-webtransport-dns", "dial-form-webtransport-ip6-mapped",
            "quic-conn-admitted-inbound", "quic-conn-admitted-outbound", "quic-Secured-inbound", "quic-Secured-outbound",
            "refused-Accept-quic", "refused-Secured-inbound-quic", "refused-AddrDial-quic", "quic-dial-attempt-seen",
            "udp-faults-on", "udp-faults-stopped-before-final-round", "not-connected-under-udp-faults", "security-noise", "security-tls",
            "refused-PeerDial", "refused-AddrDial", "refused-AddrDial-ip4", "refused-AddrDial-ip6", "refused-AddrDial-ip6-mapped",
            "refused-Accept", "refused-Secured-inbound", "inbound-from-blocked-addr", "inbound-from-blocked-subnet",
            "inbound-from-blocked-peer", "round-with-blocked-remote", "connected-after-unblock", "survivor-conn-while-blocked",
            "stop-in-BlockPeer", "stop-in-UnblockPeer", "stop-in-BlockAddr", "stop-in-UnblockAddr", "stop-in-BlockSubnet",
            "stop-in-UnblockSubnet", "io-error-in-BlockPeer", "io-error-in-UnblockPeer", "io-error-in-BlockAddr",
            "io-error-in-UnblockAddr", "io-error-in-BlockSubnet", "io-error-in-UnblockSubnet", "io-error-in-load",
            "reopen-clean", "reopen-after-stop", "dial-form-dns", "dial-form-ip6-mapped", "G-dials-by-DialPeer", "G-dials-by-NewStream", "dial-with-decoy", "host-ipv6",
            "mapped-source", "direct-blocked-ip4", "direct-blocked-ip6", "direct-blocked-ip6-mapped", "direct-blocked-ip6zone",
            "direct-no-ip-form",
            "host-at-v4-first-of-26", "host-at-v4-last-of-26", "host-at-v4-below-26", "host-at-v4-above-26",
            "host-at-v4-first-of-24", "host-at-v4-last-of-24", "host-at-v4-below-24", "host-at-v4-above-24",
            "host-at-v6-first-of-122", "host-at-v6-last-of-122", "host-at-v6-below-122", "host-at-v6-above-122",
            "host-at-v6-first-of-64", "host-at-v6-last-of-64", "host-at-v6-below-64", "host-at-v6-above-64"],
    real=["ALL of the following run as tasks of the seeded scheduler (instrumented: every lock, channel operation, select, go statement is a scheduling point)",
          "p2p/net/conngater BasicConnectionGater (Block*/Unblock*/List*/loadRules/Intercept*) on go-datastore namespace + query code",
          "swarm (dialPeer, addrsForDial incl. DNS resolution step, filterKnownUndialables, dial worker, addConn, notifications)",
          "tcp transport dial path (WithDialerForAddr)", "upgrader + gated listener (InterceptAccept, InterceptSecured call sites)",
          "noise, tls", "multistream-select", "yamux", "pstoremem", "eventbus",
          "circuit-v2 relay service, circuit client transport, basic host + identify (stratum full-stack-relay)",
          "p2p/transport/quic (listener.Accept gating incl. the hole-punch hand-off, transport.dial gating, transport.holePunch in the server role), quicreuse, quic-go (stratum full-stack-quic)",
          "p2p/transport/webtransport (httpHandler InterceptAccept, InterceptSecured after the Noise handshake, dial path), cert manager, quic-go/http3, webtransport-go (stratum full-stack-quic)"],
    stubs=["wire: simnet TCP model", "a stub transport on G that claims /p2p-circuit addresses and fails every dial at once (all full-stack strata except full-stack-relay): observation point for addresses handed to a transport's Dial", "wire: simnet UDP model (drawn loss / duplication / latency per datagram) + a recording filter that spots G's client Initial packets",
           "crypto/rand: simrand (seeded) in the QUIC stratum", "disk: simdisk wrapper around MapDatastore (process stop after a mutation, I/O error on an operation)",
           "DNS: fake MultiaddrDNSResolver mapping p.test/q.test to the hosts' IPs (dns6 of an IPv4 host yields the IPv4-mapped form)",
           "a delegating recorder around the real gater (counts refusals, compares each live answer with the model)",
           "null resource manager; no basic host / identify on the nodes",
           "hole punching is driven by the harness (WithSimultaneousConnect server role + a remote dialling G), not by the DCUtR protocol / relay; the twin is a second real node with the host's key"],
    assume=["virtual clock of testing/synctest", "5 virtual seconds after the dials returned exceed every dial-ranking delay on these paths",
            "a rule change happens only at a quiescent instant; an inbound connection's chain gating hooks -> addConn -> notification takes no virtual time, so a notification is judged by the rules in force when it arrives",
            "15 virtual seconds after the dials of a round returned exceed the WebTransport listener's 10 s handshake timeout plus the largest drawn latency: no inbound handshake that passed InterceptAccept straddles the next rule change",
            "without UDP faults a close sent by G reaches the remote at once (5 virtual seconds are far below the 30 s idle timeout that would hide a missing close)",
            "45 virtual seconds with everything closed on both sides exceed QUIC's idle timeout (30 s) — no half-dead connection survives into the final round"],
)
