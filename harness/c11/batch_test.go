package c11

import (
	"fmt"
	"time"

	pbv2 "github.com/libp2p/go-libp2p/p2p/protocol/circuitv2/pb"

	"verifsim/simrt"
)

type subRes struct {
	op   opT
	rsv  rsvResult
	conn connResult
	ips  []string
	in   *incoming
	done bool
	skip bool
}

// doBatch runs 2-4 operations as concurrent tasks. Only what holds for EVERY linearisation is judged:
//   - a refusal / NO_RESERVATION must be explainable by SOME order of the batch (everything another member
//     of the batch may have taken counts for it, everything a disconnecting member held counts against it);
//   - at the quiescent instant after the batch all reservations granted in it and all earlier ones whose
//     peers did not disconnect are live together, and all circuits opened in it are open together: the
//     caps are checked on those sets.
func (w *world) doBatch(op opT) string {
	c, m := w.cfg, w.m
	R := w.R
	subs := make([]*subRes, len(op.sub))
	pairs := map[[2]int]bool{}
	for i, s := range op.sub {
		subs[i] = &subRes{op: s}
		if s.kind != opDisconnect && !w.prep(w.cl[s.a]) {
			subs[i].skip = true
		}
		if s.kind == opConnect {
			// two idle circuits between the same pair could not be told apart at the destination
			if pairs[[2]int{s.a, s.b}] {
				subs[i].skip = true
			}
			pairs[[2]int{s.a, s.b}] = true
		}
	}
	w.takeDisc()
	w.noteRelayed()
	inboxBefore := map[int]int{}
	for _, cl := range w.cl {
		cl.script = nil
		inboxBefore[cl.idx] = len(cl.inbox)
	}
	for _, sr := range subs {
		sr.ips = w.ipsFor(w.cl[sr.op.a])
	}
	ndone, want := 0, 0
	for i, sr := range subs {
		if sr.skip {
			continue
		}
		want++
		sr := sr
		cl := w.cl[sr.op.a]
		simrt.GoNamed(fmt.Sprintf("batch%d", i), func() {
			switch sr.op.kind {
			case opReserve:
				sr.rsv = w.reserveCall(cl, sr.op.raw, false)
			case opConnect:
				ctx, cancel := w.ctx(160 * time.Second)
				sr.conn = rawConnect(ctx, cl.nd.Host, R.nd.ID, w.cl[sr.op.b].nd.ID, hopNormal)
				cancel()
			case opDisconnect:
				cl.nd.Swarm.ClosePeer(R.nd.ID)
			}
			sr.done = true
			ndone++
		})
	}
	for tries := 0; ndone < want && tries < 8; tries++ {
		simrt.WaitIdle()
		if ndone < want {
			simrt.TimeSleep(35 * time.Second)
		}
	}
	simrt.WaitIdle()
	if ndone < want {
		w.o.Trouble = "batch did not finish"
		return "trouble"
	}
	w.o.Probe("batch")
	// seen: clients the relay saw without any (unlimited) connection at some instant. A client with a DISCONNECT
	// that also acts in the batch (its RESERVE / CONNECT re-dials when it finds no connection) races its own
	// reconnect against the close: the relay's notifiee and the harness' may read Connectedness at different
	// instants, and a request of the client may die with the old connection. Such a client is treated as "may have
	// disconnected": nothing is asserted from its reservation or requests, its reservation becomes uncertain.
	seen := w.takeDisc()
	gone := map[int]bool{}
	racy := map[int]bool{}
	for k := range seen {
		gone[k] = true
	}
	for _, d := range subs {
		if d.skip || d.op.kind != opDisconnect {
			continue
		}
		for _, a := range subs {
			if !a.skip && a.op.kind != opDisconnect && a.op.a == d.op.a {
				racy[d.op.a], gone[d.op.a] = true, true
			}
		}
	}
	if len(racy) > 0 {
		w.o.Probe("batch-disconnect-races-own-request")
	}
	reserved := map[int]bool{}
	grantedAll := map[int][]string{}
	G := map[int][]string{}
	attemptsOn := map[int]int{}
	var t1 time.Duration
	for _, sr := range subs {
		if sr.skip {
			continue
		}
		switch sr.op.kind {
		case opReserve:
			reserved[sr.op.a] = true
			if sr.rsv.status == pbv2.Status_OK || sr.rsv.status == stNone {
				grantedAll[sr.op.a] = union(grantedAll[sr.op.a], sr.ips)
			}
			if sr.rsv.status == pbv2.Status_OK && !gone[sr.op.a] {
				G[sr.op.a] = sr.ips
			}
			if sr.rsv.t1 > t1 {
				t1 = sr.rsv.t1
			}
		case opConnect:
			w.connects++
			attemptsOn[sr.op.a]++
			attemptsOn[sr.op.b]++
			w.touched[sr.op.a], w.touched[sr.op.b] = true, true
			if sr.conn.t1 > t1 {
				t1 = sr.conn.t1
			}
		}
	}
	out := ""
	// ---- reservations ----
	for _, sr := range subs {
		if sr.skip || sr.op.kind != opReserve {
			continue
		}
		w.judgeReserve(w.cl[sr.op.a], sr.ips, sr.rsv, gone[sr.op.a], grantedAll, gone)
	}
	if len(G) > 0 {
		live, liveC2 := map[int][]string{}, map[int][]string{}
		for _, q := range m.keys() {
			r := m.rsv[q]
			if gone[q] || !(r.sure && t1 < r.lo) {
				continue
			}
			switch r.counted {
			case cntYes:
				live[q] = r.ips
			case cntRefused:
				liveC2[q] = r.ips
			}
		}
		for q, ips := range G {
			live[q] = ips
			delete(liveC2, q)
		}
		switch {
		case len(live) > c.maxRes:
			w.violate("C11/reservation-cap-exceeded/total", "after a concurrent batch %d reservations are live together (MaxReservations=%d): granted in the batch %v; %s", len(live), c.maxRes, G, w.rsvDump())
		case len(live)+len(liveC2) > c.maxRes:
			w.violate("C11/reservation-cap-exceeded/after-refused-refresh", "after a concurrent batch %d reservations are live together (MaxReservations=%d), %d of them had a refresh refused earlier: granted in the batch %v; %s", len(live)+len(liveC2), c.maxRes, len(liveC2), G, w.rsvDump())
		}
		for _, ip := range c.pool {
			n, n2, newOne := 0, 0, false
			for q, ips := range live {
				if len(ips) == 1 && ips[0] == ip {
					n++
					if _, ok := G[q]; ok {
						newOne = true
					}
				}
			}
			for _, ips := range liveC2 {
				if len(ips) == 1 && ips[0] == ip {
					n2++
				}
			}
			if !newOne {
				continue
			}
			switch {
			case n > c.perIP:
				w.violate("C11/reservation-cap-exceeded/per-ip", "after a concurrent batch %d reservations made from %s are live together (MaxReservationsPerIP=%d): granted in the batch %v; %s", n, ip, c.perIP, G, w.rsvDump())
			case n+n2 > c.perIP:
				w.violate("C11/reservation-cap-exceeded/after-refused-refresh", "after a concurrent batch %d reservations made from %s are live together (MaxReservationsPerIP=%d), %d of them had a refresh refused earlier: granted in the batch %v; %s", n+n2, ip, c.perIP, n2, G, w.rsvDump())
			}
		}
	}
	if len(G) > 0 && c.v6 {
		// per-AS: the same set, grouped by autonomous system
		byAS := map[uint32]int{}
		newAS := map[uint32]bool{}
		for _, q := range m.keys() {
			r := m.rsv[q]
			if _, inG := G[q]; inG || gone[q] || !(r.sure && t1 < r.lo) || r.counted != cntYes || len(r.ips) != 1 {
				continue
			}
			byAS[asnOf(r.ips[0])]++
		}
		for _, ips := range G {
			if len(ips) == 1 {
				byAS[asnOf(ips[0])]++
				newAS[asnOf(ips[0])] = true
			}
		}
		for as, n := range byAS {
			if as != 0 && newAS[as] && n > c.perASN {
				w.violate("C11/reservation-cap-exceeded/per-asn", "after a concurrent batch %d reservations made from AS%d are live together (MaxReservationsPerASN=%d): granted in the batch %v; %s", n, as, c.perASN, G, w.rsvDump())
			}
		}
	}
	// ---- circuits ----
	b := &batchCtx{gone: gone, reserved: reserved, attemptsOn: attemptsOn}
	used := map[*incoming]bool{}
	var fresh []*circ
	for _, sr := range subs {
		if sr.skip || sr.op.kind != opConnect {
			continue
		}
		dst := w.cl[sr.op.b]
		if sr.conn.status == pbv2.Status_OK {
			for _, in := range dst.inbox[inboxBefore[dst.idx]:] {
				if !used[in] && in.stream != nil && in.src == w.cl[sr.op.a].nd.ID {
					used[in], sr.in = true, in
					break
				}
			}
		} else {
			sr.in = &incoming{plan: stopAccept}
		}
		w.judgeConnect(sr.op.a, sr.op.b, sr.conn.status, sr.conn.t0, sr.conn.t1, false, hopNormal, sr.in, b)
		if sr.conn.status != pbv2.Status_OK {
			continue
		}
		cc := &circ{id: w.nextCirc, s: sr.op.a, d: sr.op.b, ss: sr.conn.stream, lo: sr.conn.t0, hi: sr.conn.t1}
		w.nextCirc++
		m.circs = append(m.circs, cc)
		if sr.in == nil || gone[cc.s] || gone[cc.d] {
			w.endCircuit(cc)
			continue
		}
		cc.ds = sr.in.stream
		cc.fw, cc.bw = &sink{}, &sink{}
		simrt.GoNamed(fmt.Sprintf("sink-fw%d", cc.id), func() { cc.fw.run(cc.ds, cc.id, 0) })
		simrt.GoNamed(fmt.Sprintf("sink-bw%d", cc.id), func() { cc.bw.run(cc.ss, cc.id, 1) })
		fresh = append(fresh, cc)
	}
	// stop streams nobody claimed (their CONNECT failed later in the handshake)
	for _, cl := range w.cl {
		for _, in := range cl.inbox[inboxBefore[cl.idx]:] {
			if !used[in] && in.stream != nil {
				in.stream.Reset()
			}
		}
	}
	simrt.WaitIdle()
	if len(fresh) > 0 {
		for _, cl := range w.cl {
			n, newOne := 0, false
			for _, cc := range m.circs {
				if cc.state != circOpen || (cc.s != cl.idx && cc.d != cl.idx) || gone[cc.s] || gone[cc.d] {
					continue
				}
				if cc.fw == nil || cc.fw.done || cc.bw.done {
					continue
				}
				n++
				for _, f := range fresh {
					if f == cc {
						newOne = true
					}
				}
			}
			if newOne && n > c.maxCirc {
				w.violate("C11/circuit-cap-exceeded/concurrent", "after a concurrent batch %s is a party of %d circuits that are open together (MaxCircuits=%d)", c.name(cl.idx), n, c.maxCirc)
			}
		}
	}
	// ---- model ----
	for _, sr := range subs {
		if sr.skip {
			continue
		}
		switch sr.op.kind {
		case opReserve:
			w.applyReserve(w.cl[sr.op.a], sr.ips, sr.rsv, gone[sr.op.a])
			out += fmt.Sprintf("[%s %s]", c.name(sr.op.a), stName(sr.rsv.status))
		case opConnect:
			out += fmt.Sprintf("[%s->%s %s]", c.name(sr.op.a), c.name(sr.op.b), stName(sr.conn.status))
		case opDisconnect:
			out += fmt.Sprintf("[%s gone=%v]", c.name(sr.op.a), seen[sr.op.a])
		}
	}
	// several RESERVEs of one client in the batch: which one the relay handled last is unknown
	for p := range reserved {
		r := m.rsv[p]
		if r == nil {
			continue
		}
		for _, sr := range subs {
			if sr.skip || sr.op.kind != opReserve || sr.op.a != p || sr.rsv.status != pbv2.Status_OK {
				continue
			}
			if sr.rsv.t0+c.ttl < r.lo {
				r.lo = sr.rsv.t0 + c.ttl
			}
			if sr.rsv.t1+c.ttl > r.hi {
				r.hi = sr.rsv.t1 + c.ttl
			}
		}
	}
	reservedOnly := map[int]bool{} // racy clients that sent a RESERVE in the batch
	for k := range racy {
		reservedOnly[k] = reserved[k]
		reserved[k] = true // applyDisc: uncertain instead of removed
	}
	w.applyDisc(gone, reserved)
	for _, k := range sortedKeys(racy) {
		if reservedOnly[k] {
			w.racedDisc[k] = true
			out += w.probeConnectTo(k)
		}
	}
	if len(seen) > 0 {
		out += fmt.Sprintf(" disconnected=%v", sortedKeys(seen))
	}
	return out
}
