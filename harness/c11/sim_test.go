package c11

import (
	"context"
	"fmt"
	"os"
	"testing"
	"time"

	"github.com/libp2p/go-libp2p/core/network"
	"github.com/libp2p/go-libp2p/core/peer"
	basichost "github.com/libp2p/go-libp2p/p2p/host/basic"
	rcmgr "github.com/libp2p/go-libp2p/p2p/host/resource-manager"
	"github.com/libp2p/go-libp2p/p2p/net/connmgr"
	"github.com/libp2p/go-libp2p/p2p/protocol/circuitv2/client"
	pbv2 "github.com/libp2p/go-libp2p/p2p/protocol/circuitv2/pb"
	"github.com/libp2p/go-libp2p/p2p/protocol/circuitv2/proto"
	"github.com/libp2p/go-libp2p/p2p/protocol/circuitv2/relay"
	"github.com/libp2p/go-libp2p/p2p/protocol/circuitv2/util"
	"github.com/libp2p/go-libp2p/p2p/transport/tcp"
	ma "github.com/multiformats/go-multiaddr"

	"verifsim/harness/common"
	"verifsim/simhost"
	"verifsim/simnet"
	"verifsim/simrt"
)

func TestSim(t *testing.T) { common.Main(t, common.Harness{Property: "C11", Run: run}) }

var debug = os.Getenv("C11_DEBUG") != ""

type cli struct {
	idx      int
	nd       *simhost.Node
	real     network.ResourceManager
	dialer   *simnet.Dialer
	realStop bool
	inbox    []*incoming
	script   []stopPlan
}

type world struct {
	o     *common.Outcome
	n     *simnet.Net
	R     *cli
	rl    *relay.Relay
	cm    *connmgr.BasicConnMgr
	svc   *svcRcmgr
	rw    *simhost.RefusingRcmgr
	rc    relay.Resources
	cl    []*cli
	secu  string
	disc  map[peer.ID]int
	close []func()
}

func (w *world) mkNode(seed int, ip string, port int, ho *basichost.HostOpts, wrapRc bool) (*cli, error) {
	real, err := rcmgr.NewResourceManager(rcmgr.NewFixedLimiter(rcmgr.InfiniteLimits), rcmgr.WithMetricsDisabled())
	if err != nil {
		return nil, err
	}
	c := &cli{real: real, dialer: w.n.Dialer(ip)}
	var rm network.ResourceManager = real
	if wrapRc {
		w.rw = simhost.NewRefusingRcmgr(real, "", 0)
		w.svc = newSvcRcmgr(w.rw)
		rm = w.svc
	}
	d := c.dialer
	nd, err := simhost.New(w.n, simhost.Opts{Key: simhost.DetKey(seed), IP: ip, Port: port, Security: w.secu, Rcmgr: rm, WithHost: true, HostOpts: ho,
		TCPOpts: []tcp.Option{tcp.WithDialerForAddr(func(ma.Multiaddr) (tcp.ContextDialer, error) { return d, nil })}})
	if err != nil {
		real.Close()
		return nil, err
	}
	c.nd = nd
	w.close = append(w.close, func() { nd.Close(); real.Close() })
	return c, nil
}

func (w *world) stopHandler(c *cli) func(network.Stream) {
	return func(s network.Stream) {
		in := &incoming{at: simrt.Now()}
		c.inbox = append(c.inbox, in)
		if len(c.script) > 0 {
			in.plan = c.script[0]
			c.script = c.script[1:]
		}
		s.SetDeadline(time.Now().Add(150 * time.Second))
		rd := util.NewDelimitedReader(s, maxMsg)
		defer rd.Close()
		var msg pbv2.StopMessage
		if err := rd.ReadMsg(&msg); err != nil {
			in.readErr = err.Error()
			s.Reset()
			return
		}
		if pi, err := util.PeerToPeerInfoV2(msg.GetPeer()); err == nil {
			in.src = pi.ID
		}
		in.limit = msg.GetLimit()
		var rep pbv2.StopMessage
		rep.Type = pbv2.StopMessage_STATUS.Enum()
		rep.Status = pbv2.Status_OK.Enum()
		if err := util.NewDelimitedWriter(s).WriteMsg(&rep); err != nil {
			in.readErr = "write: " + err.Error()
			s.Reset()
			return
		}
		s.SetDeadline(time.Time{})
		in.stream = s
	}
}

func run(t *testing.T, tape *simrt.Tape) *common.Outcome {
	g := simrt.Gen{S: tape.G}
	o := &common.Outcome{}
	w := &world{o: o, disc: map[peer.ID]int{}}
	w.secu = []string{"insecure", "noise"}[g.Weighted(3, 1)]
	nCl := 3

	res := simrt.Run(t, simrt.Config{MaxSteps: 3000000, IdleLimit: 24 * time.Hour, TraceCap: 1000}, tape.S, func() {
		w.n = simnet.New(tape.S, simnet.Config{Mode: simnet.Whole})
		defer func() {
			for i := len(w.close) - 1; i >= 0; i-- {
				w.close[i]()
			}
		}()
		cm, err := connmgr.NewConnManager(1000, 2000)
		if err != nil {
			o.Trouble = err.Error()
			return
		}
		w.cm = cm
		R, err := w.mkNode(100, "5.5.5.1", 4001, &basichost.HostOpts{ConnManager: cm}, true)
		if err != nil {
			o.Trouble = "relay node: " + err.Error()
			return
		}
		w.R = R
		w.rc = relay.DefaultResources()
		w.rc.Limit = &relay.RelayLimit{Duration: 20 * time.Second, Data: 2048}
		w.rc.ReservationTTL = time.Minute
		w.rc.MaxReservations = 2
		w.rc.MaxReservationsPerIP = 1
		w.rc.MaxCircuits = 1
		w.rc.BufferSize = 256
		rl, err := relay.New(R.nd.Host, relay.WithResources(w.rc))
		if err != nil {
			o.Trouble = "relay: " + err.Error()
			return
		}
		w.rl = rl
		w.close = append(w.close, func() { rl.Close() })
		ips := []string{"1.2.3.4", "1.2.3.5", "1.2.3.4"}
		for i := 0; i < nCl; i++ {
			c, err := w.mkNode(1+i, ips[i], 0, nil, false)
			if err != nil {
				o.Trouble = "client node: " + err.Error()
				return
			}
			c.idx = i
			c.realStop = i == 2
			if c.realStop {
				if err := client.AddTransport(c.nd.Host, c.nd.Up); err != nil {
					o.Trouble = "client transport: " + err.Error()
					return
				}
			} else {
				c.nd.Host.SetStreamHandler(proto.ProtoIDv2Stop, w.stopHandler(c))
			}
			w.cl = append(w.cl, c)
		}
		ctx := context.Background()
		rpub := R.nd.Key.GetPublic()
		for _, c := range w.cl {
			cctx, cancel := context.WithTimeout(ctx, 30*time.Second)
			err := c.nd.Host.Connect(cctx, R.nd.AddrInfo())
			cancel()
			simrt.WaitIdle()
			o.Logf("connect c%d: %v", c.idx, err)
		}
		for i, c := range w.cl {
			var r rsvResult
			if i%2 == 0 {
				r = rawReserve(ctx, c.nd.Host, R.nd.ID, rpub)
			} else {
				r = realReserve(ctx, c.nd.Host, R.nd.AddrInfo())
			}
			simrt.WaitIdle()
			o.Logf("reserve c%d: %s expire=%d problem=%q err=%q", c.idx, stName(r.status), r.expire, r.problem, r.errText)
		}
		cr := rawConnect(ctx, w.cl[1].nd.Host, R.nd.ID, w.cl[0].nd.ID, hopNormal)
		simrt.WaitIdle()
		o.Logf("connect c1->c0: %s limit=%v err=%q inbox=%d", stName(cr.status), cr.limit, cr.errText, len(w.cl[0].inbox))
		if cr.stream != nil && len(w.cl[0].inbox) == 1 && w.cl[0].inbox[0].stream != nil {
			ds := w.cl[0].inbox[0].stream
			var fw, bw sink
			simrt.GoNamed("rd-fwd", func() { fw.run(ds, 1, 0) })
			simrt.GoNamed("rd-bwd", func() { bw.run(cr.stream, 1, 1) })
			simrt.GoNamed("wr-fwd", func() { cr.stream.Write(payload(1, 0, 3000)); cr.stream.CloseWrite() })
			simrt.GoNamed("wr-bwd", func() { ds.Write(payload(1, 1, 100)); ds.CloseWrite() })
			simrt.WaitIdle()
			o.Logf("fwd: %+v", fw)
			o.Logf("bwd: %+v", bw)
			cr.stream.Reset()
			ds.Reset()
			simrt.WaitIdle()
		}
		simrt.TimeSleep(200 * time.Second)
		simrt.WaitIdle()
	})
	o.Sched = res
	o.Virtual = res.Virtual
	o.Sig = fmt.Sprint(o.Trace)
	o.Nontrivial = true
	if res.Panic != "" {
		o.Violate("C11/panic", "%s", res.Panic)
	}
	if (res.Stuck || res.StepLimit) && o.Trouble == "" {
		o.Trouble = fmt.Sprintf("stuck=%v steplimit=%v", res.Stuck, res.StepLimit)
	}
	if len(res.Residue) > 0 && o.Trouble == "" {
		o.Trouble = fmt.Sprintf("residue: %v", res.Residue)
	}
	if debug {
		for _, l := range o.Trace {
			fmt.Fprintln(os.Stderr, "  ", l)
		}
		fmt.Fprintf(os.Stderr, "steps=%d virtual=%v trouble=%q\n", res.Steps, res.Virtual, o.Trouble)
	}
	return o
}
