// C11 — circuit relay v2 honours reservations, ACL, caps and per-circuit limits.
//
// Full-stack, lock-level simulation: a REAL relay (relay.New on a basic host with the real resource
// manager behind refusing wrappers and a real BasicConnMgr) serves 3-5 real client hosts (+ optionally a
// client X that reaches it through a second relay R2) on simnet. Clients use client.Reserve and the
// client transport, or speak the hop / stop protocols by hand (byzantine source / destination, exact
// byte accounting). A three-valued reference model (model_test.go) says which answers are allowed.
//
// Tag / reservation atomicity: the relay's ConnManager is the real BasicConnMgr behind cmWrap, which can hold ONE
// TagPeer call of the relay for a virtual millisecond while the tagged peer closes its connection (fault
// "tag-race-*", a forced instance of what the scheduler's pause rule does); batches draw RESERVE(c) || DISCONNECT(c)
// with no other action of c one time in three. After such a race (and after any RESERVE whose connection died under
// it) a CONNECT to c is probed: NO_RESERVATION means the relay holds no reservation, and then c must carry no
// "relay-reservation" tag (judgeConnect explains why this holds for every order on the unchanged tree).
//
// Warm / cold (drawn, 1 run in 3 cold): warm runs connect every client to the relay and let identify finish before
// the history starts and reconnect an actor (and wait for quiescence) before its request; cold runs do neither: a
// client only knows the relay's address, its request (client.Reserve / NewStream) dials by itself, so the relay
// meets the request while identify and the connection manager's Connected notification are still under way, the
// prologue reservations may already carry the fault (first hop stream, first entry of the constraints, first
// rcmgr scopes of a peer), and an I/O fault can sit on the connection the request is about to open. No oracle needs
// the warm-up; only the source IP of a not-yet-connected client is taken from its dialer instead of from the relay.
// Observation calls (service scope Stat, GetTagInfo, ConnsToPeer, Connectedness, a Disconnected notifiee) are
// read-only in the code under test; the relay's lazy clean-ups (constraints.cleanup, gc) run only inside workload
// operations and on its own ticker.
//
// Files: gen_test.go (what a tape draws), world_test.go (population, raw stop handler, fault arming),
// ops_test.go (operations + oracles + audits), batch_test.go (concurrent batches), raw_test.go (hand-written
// protocol speakers, voucher verification), rcscope_test.go (refusals in the relay's service scope).
//
// Oracles (all from the statement; weaker readings are written where they are taken, see model_test.go):
//   reservation-granted/{over-relayed-connection,acl-denied}, reservation-cap-exceeded/{total,per-ip,per-asn,
//   after-refused-refresh}, reservation-refused-below-caps, reservation-denied-without-cause, voucher-invalid,
//   reservation-expiry-wrong, reservation-lost, connect-admitted-without-reservation/*, connect-without-reservation/{never-reserved,after-disconnect,
//   after-expiry-and-collection}, connect-over-relayed-connection, connect-acl-denied, connect-denied-without-cause,
//   connect-ok/{malformed-request,stop-handshake-failed}, circuit-cap-exceeded/{source,destination,concurrent},
//   circuit-refused-below-cap, data-limit-exceeded/{forward,backward}, data-delivered-mismatch/*, data-corrupted/*,
//   duration-limit-not-enforced/{source-end,destination-end}, service-scope-not-released/{memory,streams},
//   connmgr-tag-left/{relay-v2-hop,relay-reservation}, panic.
// RESOURCE_LIMIT_EXCEEDED is also the relay's answer when the resource scope of a hop / stop stream refuses SetService or
// ReserveMemory, which a scope does once its stream died ("resource scope closed"): in a batch in which a party of the
// CONNECT disconnects concurrently that code is explained without any counter (probe
// resource-limit-answer-while-party-disconnects); sequentially the rule "no injected refusal => a cap is reached" stands.
// Not judged (outside the statement, recorded as probes): which non-OK code a byzantine request gets, end-of-stream
// propagation, the Limited flag / announced limit of real client connections.
//
// GENUINE DEFECT found and since fixed in /repo (commit 45e9891): DESIGN section 9 "c2", class
// C11/reservation-cap-exceeded/after-refused-refresh. Minimal history (MaxReservationsPerIP=1): RESERVE(c0 from ip A) ok;
// RESERVE(c1 from ip B) ok; c1 opens a new connection from ip A before the old one closes (the relay never sees it
// disconnected) and refreshes -> RESERVATION_REFUSED; RESERVE(c2 from ip B) -> OK while c1's reservation made from ip B
// is still live and still serves CONNECTs. Silent on the current tree; re-appears when the fix is reverted (below).
//
// GENUINE DEFECT on the tree of this writing (reported to the lead, class
// C11/connmgr-tag-left/relay-reservation/limited-connection-remains): X reaches R through a LIMITED R2, forces a direct
// connection, RESERVE(X) over it -> OK; X closes the direct connection, the relayed one stays: Relay.disconnected drops
// the reservation (CONNECT to X => NO_RESERVATION) but never calls UntagPeer, the connection manager forgets tags only
// with the peer's last connection, gc() only untags peers still in Relay.rsvp: X keeps "relay-reservation"=10 without
// reservation. Repair: UntagPeer(p, "relay-reservation") next to delete(r.rsvp, p) in disconnected.
//
// MUTATIONS TRIED (one at a time, on a private copy of the instrumented overlay, 8 workers, <= 45 s each) and the
// classes that reported them:
//   cleanup() skipped after NewStream to the destination failed   service-scope-not-released/memory, connmgr-tag-left/relay-v2-hop, circuit-refused-below-cap
//   cleanup() skipped in fail() of the stop handshake              same three classes
//   cleanup() skipped when the OK reply cannot be written          same three classes (needed the hop plan "reset during the stop handshake")
//   span.Done() skipped in the early fail()                        service-scope-not-released/memory
//   rmConn(dest) missing in cleanup()                              connmgr-tag-left/relay-v2-hop, circuit-refused-below-cap
//   reservation lookup removed in handleConnect                    connect-without-reservation/{never-reserved,after-disconnect,after-expiry-and-collection}
//   Limit.Data not applied dest->src / src->dest                   data-limit-exceeded/backward / forward
//   io.LimitReader(src, limit+1)                                   data-limit-exceeded/{forward,backward}
//   voucher built with Peer = relay                                voucher-invalid
//   voucher expiry = expire + 1 h                                  voucher-invalid
//   relayed-connection check removed in handleConnect / Reserve    connect-over-relayed-connection / reservation-granted/over-relayed-connection
//   expired reservations never collected (gc)                      connect-without-reservation/after-expiry-and-collection, connmgr-tag-left/relay-reservation
//   UntagPeer("relay-reservation") missing in gc                   connmgr-tag-left/relay-reservation
//   constraints.cleanupPeer not called on disconnect               reservation-refused-below-caps
//   delete(r.rsvp, p) not done on disconnect                       connect-without-reservation/after-disconnect
//   MaxCircuits check removed for destination / source            circuit-cap-exceeded/{destination,source,concurrent}
//   ACL check removed in handleConnect / handleReserve             connect-acl-denied / reservation-granted/acl-denied
//   total / per-IP / per-ASN cap off by one                        reservation-cap-exceeded/{total,per-ip,per-asn}
//   stop status ignored                                            connect-ok/stop-handshake-failed
//   no stream deadlines for Limit.Duration                         duration-limit-not-enforced/{source-end,destination-end}
//   refresh does not extend the expiry in Relay.rsvp               reservation-lost (1 worker of 8 in 45 s)
//   fix 45e9891 reverted (cleanupPeer before the cap checks)       reservation-cap-exceeded/after-refused-refresh
//   panic placed at the "cannot write OK reply" exit (reach test)  panic
//   disconnected(): early return on Connectedness != NotConnected  connect-admitted-without-reservation/after-disconnect (seeded by the
//     (peer with only a limited relayed connection keeps its slot)  lead; needed X holding a direct AND a relayed connection)
//   TagPeer("relay-reservation") moved after r.mx.Unlock()         connmgr-tag-left/relay-reservation/after-disconnect-race (seeded by the lead; needed
//     (late tag after the peer's disconnect was handled)            the fault "relay task held inside TagPeer while the tagged peer disconnects" +
//                                                                   the oracle "NO_RESERVATION answered => no reservation tag", probed right after)
// Not caught, equivalent: deadline not set on the destination stream only (the source stream's deadline ends the
// circuit at the same instant and the reset is propagated to both ends).
package c11

import (
	"fmt"
	"os"
	"strings"
	"testing"
	"time"

	"github.com/libp2p/go-libp2p/core/peer"

	"verifsim/harness/common"
	"verifsim/simnet"
	"verifsim/simrt"
)

func TestSim(t *testing.T) { common.Main(t, common.Harness{Property: "C11", Run: run}) }

var debug = os.Getenv("C11_DEBUG") != ""

func (w *world) exec(op opT) string {
	switch op.kind {
	case opReserve:
		return w.doReserve(op)
	case opConnect:
		return w.doConnect(op)
	case opConnectReal:
		return w.doConnectReal(op)
	case opAdvance:
		return w.doAdvance(op)
	case opDisconnect:
		return w.doDisconnect(op)
	case opMove:
		return w.doMove(op)
	case opCloseCirc:
		return w.doCloseCirc(op)
	case opBatch:
		return w.doBatch(op)
	case opXDirect:
		return w.doXDirect(op)
	case opXDropDirect:
		return w.doXDropDirect(op)
	}
	return "?"
}

func (w *world) step(tag string, op opT) {
	desc := w.cfg.opString(op)
	res := w.exec(op)
	line := fmt.Sprintf("%s %s => %s", tag, desc, res)
	w.hist = append(w.hist, line)
	w.logf("%s", line)
	w.checkpoint("after " + tag + " " + desc)
}

// finalAudit: whatever happened, once everything ended the relay is back to its initial capacity.
func (w *world) finalAudit() {
	c, m := w.cfg, w.m
	for _, cc := range m.circs {
		if cc.state != circClosed {
			w.endCircuit(cc)
		}
	}
	for _, cl := range w.cl {
		cl.script = nil
		for _, in := range cl.inbox {
			if in.stream != nil {
				in.stream.Reset()
			}
		}
	}
	simrt.WaitIdle()
	// past every reservation's expiry + collection, every handshake timeout and every duration limit
	simrt.TimeSleep(c.ttl + gcSlack + 10*time.Second)
	simrt.WaitIdle()
	w.applyDisc(w.takeDisc(), nil)
	w.checkpoint("final audit, everything expired")
	if len(m.rsv) != 0 && w.o.Trouble == "" {
		w.o.Trouble = "model still holds reservations after the final wait: " + w.rsvDump()
	}
	direct := func(i int) bool { return !w.cl[i].relayed }
	allowed := func(s, d int) bool { return !(c.denySrc == s && c.denyDst == d) }
	// (a) former reservation holders are no destinations any more
	probes := 0
	for d := 0; d < c.nCl && probes < 2; d++ {
		if !w.everRsv[d] || w.cl[d].realStop {
			continue
		}
		for s := 0; s < c.nCl; s++ {
			if s != d && allowed(s, d) && w.ensure(w.cl[d]) {
				w.step("final-a", opT{kind: opConnect, a: s, b: d, fwd: 4, back: 4})
				probes++
				break
			}
		}
	}
	// (b) fresh reservations: the model is empty, so grants and refusals are both determined by the caps
	for i := 0; i < c.nCl; i++ {
		w.step("final-b", opT{kind: opReserve, a: i, raw: i%2 == 1})
	}
	// (c) fresh circuits: every party that took part in a circuit attempt can again be a party of
	// MaxCircuits circuits at once, and not of one more
	done := 0
	for p := 0; p < c.nCl && done < 3; p++ {
		if !w.touched[p] {
			continue
		}
		s, d := -1, -1
		if m.defLive(p, simrt.Now()) && !w.cl[p].realStop {
			for q := 0; q < c.nCl; q++ {
				if q != p && direct(q) && allowed(q, p) {
					s, d = q, p
					break
				}
			}
		}
		if s < 0 {
			for h := 0; h < c.nCl; h++ {
				if h != p && m.defLive(h, simrt.Now()) && !w.cl[h].realStop && allowed(p, h) {
					s, d = p, h
					break
				}
			}
		}
		if s < 0 {
			continue
		}
		done++
		for k := 0; k <= c.maxCirc; k++ {
			w.step(fmt.Sprintf("final-c%d", k), opT{kind: opConnect, a: s, b: d, hold: true})
		}
		for _, cc := range m.circs {
			if cc.state != circClosed {
				w.endCircuit(cc)
			}
		}
		simrt.WaitIdle()
		w.checkpoint("final audit, circuits closed again")
	}
}

func run(t *testing.T, tape *simrt.Tape) *common.Outcome {
	g := simrt.Gen{S: tape.G}
	o := &common.Outcome{}
	cfg := drawCfg(g)
	w := &world{o: o, cfg: cfg, m: newModel(), disc: nil, leakReported: map[string]bool{}, touched: map[int]bool{}, everRsv: map[int]bool{}, racedDisc: map[int]bool{}}
	o.Logf("config: %s", cfg)
	nontrivial := false

	res := simrt.Run(t, simrt.Config{MaxSteps: 6000000, IdleLimit: 24 * time.Hour, TraceCap: 2000}, tape.S, func() {
		w.n = simnet.New(tape.S, simnet.Config{Mode: cfg.mode})
		w.disc = nil
		defer func() {
			w.closeAll()
			simrt.WaitIdle()
		}()
		w.disc = map[peer.ID]int{}
		if !w.setup() {
			return
		}
		w.checkpoint("after setup")
		for i, op := range cfg.ops {
			if o.Trouble != "" || len(o.Violations) > 0 {
				break
			}
			w.step(fmt.Sprintf("op%d", i), op)
		}
		nontrivial = w.granted >= 1 && w.connects >= 1
		if o.Trouble == "" && len(o.Violations) == 0 {
			w.finalAudit()
		}
	})
	o.Sched = res
	o.Virtual = res.Virtual
	o.Sig = cfg.String() + "|" + strings.Join(w.hist, "|")
	o.Nontrivial = nontrivial
	if res.Panic != "" {
		o.Violate("C11/panic", "%s", res.Panic)
	}
	if (res.Stuck || res.StepLimit) && o.Trouble == "" && res.Panic == "" {
		o.Trouble = fmt.Sprintf("stuck=%v steplimit=%v", res.Stuck, res.StepLimit)
	}
	if len(res.Residue) > 0 && o.Trouble == "" && res.Panic == "" {
		o.Trouble = fmt.Sprintf("goroutines left after every host was closed: %v", res.Residue)
	}
	if f := os.Getenv("C11_FIND"); debug || (f != "" && o.Probes[f] > 0) {
		for _, l := range o.Trace {
			fmt.Fprintln(os.Stderr, "  ", l)
		}
		fmt.Fprintf(os.Stderr, "steps=%d virtual=%v trouble=%q violations=%d\n", res.Steps, res.Virtual, o.Trouble, len(o.Violations))
	}
	return o
}
