package c11

import (
	"fmt"
	"net"
	"os"
	"time"

	"github.com/libp2p/go-libp2p/core/network"
	"github.com/libp2p/go-libp2p/core/peer"
	pbv2 "github.com/libp2p/go-libp2p/p2p/protocol/circuitv2/pb"
	ma "github.com/multiformats/go-multiaddr"

	"verifsim/simrt"
)

func (w *world) unix(t time.Duration) int64 { return w.base.Add(t).Unix() }

// ---- RESERVE -----------------------------------------------------------------------------------

func (w *world) reserveCall(cl *cli, raw, noWait bool) rsvResult {
	ctx, cancel := w.ctx(100 * time.Second)
	defer cancel()
	if raw || noWait || cl.relayed {
		return rawReserve(ctx, cl.nd.Host, w.R.nd.ID, w.R.nd.Key.GetPublic(), noWait)
	}
	return realReserve(ctx, cl.nd.Host, w.R.nd.AddrInfo())
}

func (w *world) doReserve(op opT) string {
	cl := w.cl[op.a]
	if !w.prep(cl) {
		return "skipped (not connected)"
	}
	w.takeDisc()
	w.noteRelayed()
	ips := w.ipsFor(cl)
	before := w.firedCounts()
	w.arm(op, cl, nil)
	r := w.reserveCall(cl, op.raw, op.fault == faultHop)
	simrt.WaitIdle()
	w.settleTagRace(op)
	fired := w.disarm(op, before)
	if fired && op.fault == faultIO {
		w.killConn(cl)
	}
	faulted := fired || op.fault == faultHop
	if faulted {
		w.o.Fault(faultClass(op))
		w.pendingUntil = simrt.Now() + 150*time.Second
	}
	disc := w.takeDisc()
	w.c2Seen = false
	w.judgeReserve(cl, ips, r, faulted, nil, nil)
	w.applyReserve(cl, ips, r, disc[cl.idx])
	w.applyDisc(disc, map[int]bool{cl.idx: true})
	out := fmt.Sprintf("%s from %v%s", stName(r.status), ips, map[bool]string{true: " [fault fired]", false: ""}[faulted])
	if disc[cl.idx] {
		// the connection died while the RESERVE was in flight
		w.racedDisc[cl.idx] = true
		out += w.probeConnectTo(cl.idx)
	}
	if w.c2Seen {
		// evidence for the report: the reservation whose refresh was refused is still honoured
		for _, h := range w.m.keys() {
			hr := w.m.rsv[h]
			if hr.counted != cntRefused || !w.m.defLive(h, simrt.Now()) || w.cl[h].realStop {
				continue
			}
			for s := 0; s < w.cfg.nCl; s++ {
				if s != h && !(w.cfg.denySrc == s && w.cfg.denyDst == h) && w.m.cntMaybe(s) == 0 && w.m.cntMaybe(h) == 0 {
					out += fmt.Sprintf("; evidence: CONNECT(%s->%s) => %s", w.cfg.name(s), w.cfg.name(h), w.doConnect(opT{kind: opConnect, a: s, b: h, fwd: 4, back: 4}))
					break
				}
			}
			break
		}
	}
	return out
}

// judgeReserve checks one RESERVE answer against the model. In a concurrent batch `granted` are the
// other clients granted in the same batch (they may have been counted first) and `gone` those that
// disconnected in it (they may have left first).
func (w *world) judgeReserve(cl *cli, ips []string, r rsvResult, faulted bool, granted map[int][]string, gone map[int]bool) {
	c, m := w.cfg, w.m
	name := c.name(cl.idx)
	aclDeny := c.denyRsv == cl.idx
	relayed := w.relNow[cl.idx]
	cnt := m.count(cl.idx, ips, r.t0, r.t1, gone)
	// in a batch, reservations granted concurrently may have been counted before this request
	mayExtra, mayExtraIP, mayExtraAS := 0, 0, 0
	for q, qips := range granted {
		if q == cl.idx {
			continue
		}
		var had []string // where the model already counts q (a refresh granted in the batch may have moved it to another IP / AS)
		if m.maybeThere(q, r.t0) {
			had = m.rsv[q].ips
		} else {
			mayExtra++
		}
		for _, ip := range ips {
			if contains(qips, ip) && !contains(had, ip) {
				mayExtraIP++
				break
			}
		}
		if sameAS(qips, ips) && !sameAS(had, ips) {
			mayExtraAS++
		}
	}
	switch r.status {
	case pbv2.Status_OK:
		w.granted++
		if relayed {
			w.violate("C11/reservation-granted/over-relayed-connection", "%s reached the relay through R2 and was granted a reservation", name)
		}
		if aclDeny {
			w.violate("C11/reservation-granted/acl-denied", "the ACL refuses reservations of %s, yet one was granted", name)
		}
		if granted == nil { // sequential: every other live reservation was there when this one was granted
			switch {
			case cnt.def+1 > c.maxRes:
				w.violate("C11/reservation-cap-exceeded/total", "%s granted although %d other reservations are live (MaxReservations=%d): %s", name, cnt.def, c.maxRes, w.rsvDump())
			case len(ips) == 1 && cnt.defIP+1 > c.perIP:
				w.violate("C11/reservation-cap-exceeded/per-ip", "%s granted from %s although %d other live reservations were made from that IP (MaxReservationsPerIP=%d): %s", name, ips[0], cnt.defIP, c.perIP, w.rsvDump())
			case len(ips) == 1 && cnt.defAS+1 > c.perASN:
				w.violate("C11/reservation-cap-exceeded/per-asn", "%s granted from %s (AS%d) although %d other live reservations were made from that AS (MaxReservationsPerASN=%d): %s", name, ips[0], asnOf(ips[0]), cnt.defAS, c.perASN, w.rsvDump())
			case cnt.def+cnt.c2+1 > c.maxRes:
				w.c2Seen = true
				w.violate("C11/reservation-cap-exceeded/after-refused-refresh", "%s granted although %d other reservations are live (MaxReservations=%d); %d of them had a refresh refused earlier and still serve CONNECTs: %s", name, cnt.def+cnt.c2, c.maxRes, cnt.c2, w.rsvDump())
			case len(ips) == 1 && (cnt.defIP+cnt.c2IP+1 > c.perIP || cnt.defAS+cnt.c2AS+1 > c.perASN):
				w.c2Seen = true
				w.violate("C11/reservation-cap-exceeded/after-refused-refresh", "%s granted from %s although %d other live reservations were made from that IP (MaxReservationsPerIP=%d); %d of them had a refresh refused earlier and still serve CONNECTs: %s", name, ips[0], cnt.defIP+cnt.c2IP, c.perIP, cnt.c2IP, w.rsvDump())
			}
		}
		if r.problem != "" {
			w.violate("C11/voucher-invalid", "reservation of %s: %s", name, r.problem)
		}
		if lo, hi := w.unix(r.t0+c.ttl), w.unix(r.t1+c.ttl); r.expire < lo || r.expire > hi {
			w.violate("C11/reservation-expiry-wrong", "reservation of %s expires at unix %d, requested in [%d,%d] with TTL %v", name, r.expire, w.unix(r.t0), w.unix(r.t1), c.ttl)
		}
	case pbv2.Status_RESERVATION_REFUSED:
		if !faulted && cnt.may+mayExtra < c.maxRes && (len(ips) == 0 || (cnt.mayIP+mayExtraIP < c.perIP && cnt.mayAS+mayExtraAS < c.perASN)) {
			w.violate("C11/reservation-refused-below-caps", "%s refused from %v although at most %d other reservations can be known to the relay (MaxReservations=%d), %d from that IP (MaxReservationsPerIP=%d), %d from that AS (MaxReservationsPerASN=%d): %s",
				name, ips, cnt.may+mayExtra, c.maxRes, cnt.mayIP+mayExtraIP, c.perIP, cnt.mayAS+mayExtraAS, c.perASN, w.rsvDump())
		}
		switch {
		case cnt.may >= c.maxRes:
			w.o.Probe("reserve-refused-total-cap")
		case cnt.mayIP >= c.perIP:
			w.o.Probe("reserve-refused-per-ip-cap")
		case cnt.mayAS >= c.perASN:
			w.o.Probe("reserve-refused-per-asn-cap")
		}
	case pbv2.Status_PERMISSION_DENIED:
		if !relayed && !aclDeny && !faulted {
			w.violate("C11/reservation-denied-without-cause", "%s (direct connection, allowed by the ACL) got PERMISSION_DENIED", name)
		}
		if relayed {
			w.o.Probe("reserve-refused-relayed")
		}
		if aclDeny {
			w.o.Probe("reserve-refused-acl")
		}
	case pbv2.Status_RESOURCE_LIMIT_EXCEEDED, pbv2.Status_MALFORMED_MESSAGE, pbv2.Status_CONNECTION_FAILED, stNone, stNoStream:
		if !faulted && r.problem != "" {
			w.violate("C11/voucher-invalid", "reservation of %s: %s", name, r.problem)
		} else if !faulted && w.o.Trouble == "" {
			w.o.Trouble = fmt.Sprintf("RESERVE of %s without injected fault ended with %s (%s)", name, stName(r.status), r.errText)
		}
	default:
		if !faulted && w.o.Trouble == "" {
			w.o.Trouble = fmt.Sprintf("RESERVE of %s answered with unexpected status %s", name, stName(r.status))
		}
	}
}

// applyReserve updates the model after a RESERVE.
func (w *world) applyReserve(cl *cli, ips []string, r rsvResult, disconnected bool) {
	c, m := w.cfg, w.m
	old := m.rsv[cl.idx]
	switch r.status {
	case pbv2.Status_OK:
		if old != nil {
			w.o.Probe("refresh-granted")
			if len(ips) == 1 && len(old.ips) == 1 && ips[0] != old.ips[0] {
				w.o.Probe("refresh-from-other-ip-granted")
			}
		}
		m.rsv[cl.idx] = &rsvM{ips: ips, lo: r.t0 + c.ttl, hi: r.t1 + c.ttl, sure: !disconnected, counted: cntYes}
		w.everRsv[cl.idx] = true
		delete(m.why, cl.idx)
	case pbv2.Status_RESERVATION_REFUSED:
		if old != nil && m.maybeThere(cl.idx, r.t0) {
			// DESIGN section 9 (c2): the old reservation stays (it was granted, has not expired, its peer is
			// connected) but the implementation stops counting it
			old.counted = cntRefused
			w.o.Probe("refresh-refused-while-holding")
		}
	case stNone:
		// request sent, answer unknown: it may have been granted, refused or never seen
		if old == nil {
			m.rsv[cl.idx] = &rsvM{ips: ips, lo: 0, hi: r.t1 + c.ttl, sure: false, counted: cntUnknown}
		} else {
			old.ips = union(old.ips, ips)
			if r.t1+c.ttl > old.hi {
				old.hi = r.t1 + c.ttl
			}
			if old.counted == cntYes {
				old.counted = cntUnknown
			}
		}
	}
}

// applyDisc removes what a complete disconnect of a client takes away: its reservation and its circuits.
// `reserver` is a client whose RESERVE ran in the same operation (its reservation may have been entered
// after the disconnect was processed; the statement lets it live until expiry + collection then).
func (w *world) applyDisc(disc map[int]bool, reservers map[int]bool) {
	m := w.m
	for _, i := range sortedKeys(disc) {
		if r := m.rsv[i]; r != nil {
			if reservers[i] {
				r.sure = false
				r.lo = 0
				r.counted = cntUnknown
			} else {
				delete(m.rsv, i)
				m.why[i] = "after-disconnect"
			}
		}
		for _, cc := range m.circs {
			if cc.state != circClosed && (cc.s == i || cc.d == i) {
				w.endCircuit(cc)
			}
		}
	}
}

func sortedKeys(m map[int]bool) []int {
	var k []int
	for i := range m {
		k = append(k, i)
	}
	for i := 1; i < len(k); i++ {
		for j := i; j > 0 && k[j] < k[j-1]; j-- {
			k[j], k[j-1] = k[j-1], k[j]
		}
	}
	return k
}

func (w *world) rsvDump() string {
	s := "model{"
	now := simrt.Now()
	for _, i := range w.m.keys() {
		r := w.m.rsv[i]
		s += fmt.Sprintf(" %s:ips=%v,expires-in=[%v,%v],sure=%v,counted=%d", w.cfg.name(i), r.ips, r.lo-now, r.hi-now, r.sure, r.counted)
	}
	return s + " }"
}

// ---- CONNECT -----------------------------------------------------------------------------------

// endCircuit resets both ends the harness holds and marks the circuit closed.
func (w *world) endCircuit(cc *circ) {
	if cc.ss != nil {
		cc.ss.Reset()
	}
	if cc.ds != nil {
		cc.ds.Reset()
	}
	cc.state = circClosed
}

func (w *world) doConnect(op opT) string {
	c := w.cfg
	src, dst := w.cl[op.a], w.cl[op.b]
	if !w.prep(src) {
		return "skipped (source not connected)"
	}
	w.takeDisc()
	w.noteRelayed()
	w.connects++
	w.touched[src.idx], w.touched[dst.idx] = true, true
	inboxBefore := len(dst.inbox)
	dst.script = nil
	if op.fault == faultStop && !dst.realStop {
		dst.script = []stopPlan{op.stop}
	}
	hop := hopNormal
	if op.fault == faultHop {
		hop = op.hop
		if (hop == hopResetDelayed || hop == hopCloseDelayed) && !dst.realStop {
			dst.script = []stopPlan{stopSlowAccept}
		}
	}
	before := w.firedCounts()
	w.arm(op, src, dst)
	ctx, cancel := w.ctx(160 * time.Second)
	r := rawConnect(ctx, src.nd.Host, w.R.nd.ID, dst.nd.ID, hop)
	cancel()
	simrt.WaitIdle()
	w.settleTagRace(op)
	fired := w.disarm(op, before)
	if fired && op.fault == faultIO {
		if op.ioOnDst {
			w.killConn(dst)
		} else {
			w.killConn(src)
		}
	}
	var in *incoming
	if len(dst.inbox) > inboxBefore {
		in = dst.inbox[inboxBefore]
	}
	if hop == hopResetDelayed || hop == hopCloseDelayed {
		// let the slow destination answer and the relay finish
		simrt.TimeSleep(2 * time.Second)
		simrt.WaitIdle()
	}
	stopFault := op.fault == faultStop && in != nil && in.plan != stopAccept
	faulted := fired || op.fault == faultHop || stopFault
	if faulted {
		w.o.Fault(faultClass(op))
		w.pendingUntil = simrt.Now() + 150*time.Second
	}
	dst.script = nil
	disc := w.takeDisc()
	dstAccepts := !dst.realStop && in != nil && in.stream != nil && (in.plan == stopAccept)
	w.judgeConnect(src.idx, dst.idx, r.status, r.t0, r.t1, faulted, hop, in, nil)
	out := stName(r.status)
	if r.status == pbv2.Status_OK {
		cc := &circ{id: w.nextCirc, s: src.idx, d: dst.idx, ss: r.stream, lo: r.t0, hi: r.t1}
		w.nextCirc++
		w.m.circs = append(w.m.circs, cc)
		if c.limited && (r.limit == nil || int(r.limit.GetData()) != c.limData) {
			w.o.Probe("limit-not-announced")
		}
		switch {
		case dstAccepts && !faulted && !disc[src.idx] && !disc[dst.idx]:
			cc.ds = in.stream
			if op.hold {
				cc.fw, cc.bw = &sink{}, &sink{}
				simrt.GoNamed(fmt.Sprintf("sink-fw%d", cc.id), func() { cc.fw.run(cc.ds, cc.id, 0) })
				simrt.GoNamed(fmt.Sprintf("sink-bw%d", cc.id), func() { cc.bw.run(cc.ss, cc.id, 1) })
				simrt.WaitIdle()
				out += " held as #" + fmt.Sprint(cc.id)
			} else {
				out += " " + w.transfer(cc, c.size(op.fwd), c.size(op.back))
			}
		default:
			if in != nil && in.stream != nil {
				cc.ds = in.stream
			}
			w.endCircuit(cc)
			simrt.WaitIdle()
		}
	} else if r.stream != nil {
		r.stream.Reset()
	}
	// streams a byzantine destination kept
	if in != nil && in.stream != nil && r.status != pbv2.Status_OK {
		in.stream.Reset()
		simrt.WaitIdle()
	}
	w.applyDisc(w.mergeDisc(disc, w.takeDisc()), nil)
	if faulted {
		out += " [fault fired]"
	}
	return out
}

// settleTagRace lets the virtual millisecond pass for which cmWrap holds the relay's task (the requester may have
// returned at once because its connection was closed under it).
func (w *world) settleTagRace(op opT) {
	if op.fault == faultTag {
		simrt.TimeSleep(2 * time.Millisecond)
		simrt.WaitIdle()
	}
}

// killConn: after an injected I/O fault the TCP connection is dead for both ends (a stalled one would
// otherwise linger until the muxer's keep-alive gives up).
func (w *world) killConn(cl *cli) {
	cl.nd.Swarm.ClosePeer(w.R.nd.ID)
	w.R.nd.Swarm.ClosePeer(cl.nd.ID)
	simrt.WaitIdle()
}

func (w *world) mergeDisc(a, b map[int]bool) map[int]bool {
	for k := range b {
		a[k] = true
	}
	return a
}

// batchCtx describes the other operations of a concurrent batch as far as they matter for judging a CONNECT.
type batchCtx struct {
	gone       map[int]bool // disconnected in the batch
	reserved   map[int]bool // sent a RESERVE in the batch (whatever the answer)
	attemptsOn map[int]int  // CONNECT attempts of the batch per party
}

// judgeConnect checks one CONNECT answer against the model.
func (w *world) judgeConnect(s, d int, st pbv2.Status, t0, t1 time.Duration, faulted bool, hop hopPlan, in *incoming, b *batchCtx) {
	c, m := w.cfg, w.m
	sn, dn := c.name(s), c.name(d)
	relayed := w.relNow[s]
	aclDeny := c.denySrc == s && c.denyDst == d
	defRsv := m.defLive(d, t1)
	maybeRsv := m.maybeThere(d, t0)
	defS, defD := m.cntDef(s), m.cntDef(d)
	mayS, mayD := m.cntMaybe(s), m.cntMaybe(d)
	if b != nil {
		if b.reserved[d] {
			maybeRsv = true
		}
		if b.gone[d] {
			defRsv = false
		}
		// other attempts of the batch may hold a slot at the instant this one is judged
		mayS += b.attemptsOn[s] - 1
		mayD += b.attemptsOn[d] - 1
	}
	switch st {
	case pbv2.Status_OK:
		if !maybeRsv {
			w.violate("C11/connect-without-reservation/"+m.whyNone(d), "%s -> %s connected although %s holds no reservation (%s): %s", sn, dn, dn, m.whyNone(d), w.rsvDump())
		} else if !defRsv {
			w.o.Probe("connect-ok-on-expired-uncollected-or-uncertain")
		}
		if relayed {
			w.violate("C11/connect-over-relayed-connection", "%s reached the relay through R2 and was connected to %s", sn, dn)
		}
		if aclDeny {
			w.violate("C11/connect-acl-denied", "the ACL refuses %s -> %s, yet the circuit was opened", sn, dn)
		}
		if b == nil {
			if defS >= c.maxCirc {
				w.violate("C11/circuit-cap-exceeded/source", "%s -> %s connected although %s already has %d open circuits (MaxCircuits=%d)", sn, dn, sn, defS, c.maxCirc)
			}
			if defD >= c.maxCirc {
				w.violate("C11/circuit-cap-exceeded/destination", "%s -> %s connected although %s already has %d open circuits (MaxCircuits=%d)", sn, dn, dn, defD, c.maxCirc)
			}
		}
		if hop != hopNormal {
			w.violate("C11/connect-ok/malformed-request", "hop plan %s got OK", hop)
		}
		if !w.cl[d].realStop && (in == nil || (in.plan != stopAccept && in.plan != stopAcceptReset)) {
			p := "no stop request reached the destination"
			if in != nil {
				p = "destination answered: " + in.plan.String()
			}
			w.violate("C11/connect-ok/stop-handshake-failed", "%s -> %s got OK although %s", sn, dn, p)
		}
	case pbv2.Status_NO_RESERVATION:
		if defRsv {
			w.violate("C11/reservation-lost", "%s -> %s refused with NO_RESERVATION although %s holds a live reservation and never disconnected: %s", sn, dn, dn, w.rsvDump())
		}
		if b == nil {
			// NO_RESERVATION at a quiescent instant: the relay holds no reservation for the destination, so the
			// destination carries no reservation tag either. Sound on the unchanged tree whatever the order in which a
			// RESERVE and its peer's disconnect were handled: the tag is only set together with the entry of
			// Relay.rsvp (handleReserve, one critical section), and every path that deletes the entry untags
			// afterwards (gc in the same section; disconnected() right after it, finished at quiescence), so a tag
			// can only outlive its entry if TagPeer runs after the deletion. Temporary connection-manager entries are
			// never pruned here (trims need > lowWater=1000 connections).
			if _, tagged := w.tags(w.cl[d])["relay-reservation"]; tagged && !w.leakReported["rsv-tag"] {
				w.leakReported["rsv-tag"] = true
				disc := "no-reservation-answered"
				if w.racedDisc[d] {
					disc = "after-disconnect-race"
				}
				w.violate("C11/connmgr-tag-left/relay-reservation/"+disc, "%s -> %s answered NO_RESERVATION, yet the relay's connection manager still tags %s %s (relay connected to it: %v); history: %v",
					sn, dn, dn, tagString(w.tags(w.cl[d])), w.R.nd.Swarm.Connectedness(w.cl[d].nd.ID), w.hist)
			}
		}
		if maybeRsv {
			w.o.Probe("no-reservation-on-expired-or-uncertain")
		} else {
			w.o.Probe("no-reservation-" + m.whyNone(d))
		}
	case pbv2.Status_PERMISSION_DENIED:
		// in a batch a source that disconnects concurrently may have come back through R2 (X only)
		relayedMaybe := relayed || (b != nil && b.gone[s] && w.cl[s].relayed)
		if !relayedMaybe && !aclDeny && !faulted {
			w.violate("C11/connect-denied-without-cause", "%s -> %s (direct connection, allowed by the ACL) got PERMISSION_DENIED", sn, dn)
		}
		if relayed {
			w.o.Probe("connect-refused-relayed")
		}
		if aclDeny {
			w.o.Probe("connect-refused-acl")
		}
	case pbv2.Status_RESOURCE_LIMIT_EXCEEDED:
		// The relay also answers RESOURCE_LIMIT_EXCEEDED when the resource scope of the stop (or hop) stream refuses
		// SetService / ReserveMemory, which is what a scope does once its stream died: a party that disconnects
		// concurrently in the same batch explains the code without any counter being involved.
		if b != nil && (b.gone[s] || b.gone[d]) {
			w.o.Probe("resource-limit-answer-while-party-disconnects")
			break
		}
		if !faulted {
			if mayS < c.maxCirc && mayD < c.maxCirc {
				w.violate("C11/circuit-refused-below-cap", "%s -> %s refused with RESOURCE_LIMIT_EXCEEDED although %s has at most %d and %s at most %d open circuits (MaxCircuits=%d) and no refusal was injected",
					sn, dn, sn, mayS, dn, mayD, c.maxCirc)
			}
			if mayS >= c.maxCirc {
				w.o.Probe("circuit-cap-hit-source")
			}
			if mayD >= c.maxCirc {
				w.o.Probe("circuit-cap-hit-destination")
			}
		}
	case pbv2.Status_CONNECTION_FAILED:
		// CONNECTION_FAILED means the relay tried to reach the destination, i.e. the request passed the reservation
		// check. Without a reservation (never made, dropped with the peer's disconnect, collected) that must not
		// happen ("a later CONNECT to it fails with NO_RESERVATION").
		if !maybeRsv && !faulted && b == nil && !relayed && !aclDeny {
			w.violate("C11/connect-admitted-without-reservation/"+m.whyNone(d), "%s -> %s: the relay tried to reach %s (CONNECTION_FAILED) although it holds no reservation (%s): %s", sn, dn, dn, m.whyNone(d), w.rsvDump())
		}
		// the destination did not complete the stop handshake: fine when it was told to misbehave, is
		// not connected, has no stop handler, or a fault was injected
		dcl := w.cl[d]
		ok := faulted || b != nil || dcl.realStop || w.R.nd.Swarm.Connectedness(dcl.nd.ID) != network.Connected || (in != nil && in.plan != stopAccept)
		if !ok && w.o.Trouble == "" {
			w.o.Trouble = fmt.Sprintf("CONNECT %s -> %s failed with CONNECTION_FAILED without any cause the harness knows", sn, dn)
		}
		w.o.Probe("connection-failed")
	default:
		if !faulted && b == nil && w.o.Trouble == "" {
			w.o.Trouble = fmt.Sprintf("CONNECT %s -> %s without injected fault ended with %s", sn, dn, stName(st))
		}
	}
}

// transfer sends fwd bytes source->destination and back bytes the other way, both followed by a
// half-close, and checks what arrived against the data limit.
func (w *world) transfer(cc *circ, fwd, back int) string {
	c := w.cfg
	cc.fw, cc.bw = &sink{}, &sink{}
	ss, ds := cc.ss, cc.ds
	simrt.GoNamed("sink-fw", func() { cc.fw.run(ds, cc.id, 0) })
	simrt.GoNamed("sink-bw", func() { cc.bw.run(ss, cc.id, 1) })
	simrt.GoNamed("src-wr", func() {
		if fwd > 0 {
			ss.Write(payload(cc.id, 0, fwd))
		}
		ss.CloseWrite()
	})
	simrt.GoNamed("dst-wr", func() {
		if back > 0 {
			ds.Write(payload(cc.id, 1, back))
		}
		ds.CloseWrite()
	})
	simrt.WaitIdle()
	check := func(dir string, k *sink, sent int) {
		want := sent
		if c.limited && sent > c.limData {
			want = c.limData
			w.o.Probe("data-limit-hit-" + dir)
		}
		if c.limited && sent == c.limData {
			w.o.Probe("data-exactly-at-limit-" + dir)
		}
		switch {
		case c.limited && k.n > c.limData:
			w.violate("C11/data-limit-exceeded/"+dir, "%d bytes were delivered %s on a circuit limited to %d (sent %d)", k.n, dir, c.limData, sent)
		case k.n != want:
			w.violate("C11/data-delivered-mismatch/"+dir, "%d bytes sent %s, %d delivered, expected %d (limit %v/%d; reader done=%v eof=%v err=%q)", sent, dir, k.n, want, c.limited, c.limData, k.done, k.eof, k.err)
		case !k.done:
			// not part of the statement (it bounds and counts bytes): recorded, not judged
			w.o.Probe("data-end-not-signalled-" + dir)
		}
		if k.bad >= 0 {
			w.violate("C11/data-corrupted/"+dir, "byte %d delivered %s differs from what was sent", k.bad, dir)
		}
	}
	check("forward", cc.fw, fwd)
	check("backward", cc.bw, back)
	w.endCircuit(cc)
	simrt.WaitIdle()
	return fmt.Sprintf("fwd %d/%d back %d/%d", cc.fw.n, fwd, cc.bw.n, back)
}

// ---- CONNECT through the real client transport -------------------------------------------------

func (w *world) doConnectReal(op opT) string {
	src, dst := w.cl[op.a], w.cl[op.b]
	if !src.realStop || !dst.realStop || dst.relayed {
		op.fault = faultNone
		op.hold = false
		return "as raw: " + w.doConnect(op)
	}
	if !w.prep(src) {
		return "skipped (source not connected)"
	}
	w.takeDisc()
	w.noteRelayed()
	w.connects++
	src.nd.Swarm.Backoff().Clear(dst.nd.ID)
	src.nd.PS.ClearAddrs(dst.nd.ID)
	caddr := ma.StringCast(fmt.Sprintf("%s/p2p/%s/p2p-circuit", w.R.nd.Addr, w.R.nd.ID))
	t0 := simrt.Now()
	ctx, cancel := w.ctx(100 * time.Second)
	err := src.nd.Host.Connect(ctx, peer.AddrInfo{ID: dst.nd.ID, Addrs: []ma.Multiaddr{caddr}})
	cancel()
	t1 := simrt.Now()
	simrt.WaitIdle()
	st := pbv2.Status_OK
	if err != nil {
		st = statusFromText(err.Error())
	}
	out := stName(st)
	in := &incoming{plan: stopAccept}
	if st == stNone {
		// not a relay status: the dial failed elsewhere (upgrade over a circuit that hit its data limit, ...)
		w.logf("   real dial error: %v", err)
		w.o.Probe("real-connect-other-error")
	} else {
		w.judgeConnect(src.idx, dst.idx, st, t0, t1, false, hopNormal, in, nil)
	}
	if err == nil {
		w.o.Probe("real-connect-ok")
		conns := src.nd.Swarm.ConnsToPeer(dst.nd.ID)
		if len(conns) > 0 && conns[0].Stat().Limited != w.cfg.limited {
			w.o.Probe("real-connect-limited-flag-differs")
		}
		ctx, cancel := w.ctx(20 * time.Second)
		if s, err := src.nd.Host.NewStream(ctx, dst.nd.ID, echoProto); err == nil {
			s.SetDeadline(time.Now().Add(20 * time.Second))
			msg := payload(999, 0, 32)
			s.Write(msg)
			s.CloseWrite()
			buf := make([]byte, 64)
			n, _ := readFull(s, buf)
			if n == len(msg) {
				w.o.Probe("real-echo-ok")
			}
			s.Reset()
		}
		cancel()
	}
	src.nd.Swarm.ClosePeer(dst.nd.ID)
	dst.nd.Swarm.ClosePeer(src.nd.ID)
	simrt.WaitIdle()
	w.pendingUntil = simrt.Now() + 150*time.Second
	w.applyDisc(w.takeDisc(), nil)
	return out
}

func readFull(s network.Stream, buf []byte) (int, error) {
	n := 0
	for n < len(buf) {
		k, err := s.Read(buf[n:])
		n += k
		if err != nil {
			return n, err
		}
	}
	return n, nil
}

// ---- other operations --------------------------------------------------------------------------

func (w *world) doAdvance(op opT) string {
	d := w.cfg.advance(op.dt)
	simrt.TimeSleep(d)
	simrt.WaitIdle()
	w.applyDisc(w.takeDisc(), nil)
	return "now " + simrt.Now().String()
}

func (w *world) doDisconnect(op opT) string {
	cl := w.cl[op.a]
	if cl.nd.Swarm.Connectedness(w.R.nd.ID) == network.NotConnected {
		return "already disconnected"
	}
	if w.m.rsv[cl.idx] != nil {
		w.o.Probe("disconnect-of-reservation-holder")
	}
	cl.nd.Swarm.ClosePeer(w.R.nd.ID)
	simrt.WaitIdle()
	disc := w.takeDisc()
	if !disc[cl.idx] && w.o.Trouble == "" {
		if debug {
			for _, g := range simrt.BubbleGoroutines() {
				fmt.Fprintln(os.Stderr, "G:", g)
			}
		}
		w.o.Trouble = "the relay did not see " + w.cfg.name(cl.idx) + " disconnect"
	}
	w.applyDisc(disc, nil)
	return "done"
}

// doMove lets a client reappear from its other IP. keep: the new connection is up before the old one
// goes away (the relay never sees the peer disconnected, the reservation stays); otherwise the client
// disconnects first (the reservation is dropped).
func (w *world) doMove(op opT) string {
	cl := w.cl[op.a]
	if cl.relayed {
		return "skipped (X does not move)"
	}
	R := w.R
	c := w.cfg
	newIP := c.alt[cl.idx]
	if cl.dialer.LocalIP == newIP {
		newIP = c.home[cl.idx]
	}
	out := ""
	if op.keep && cl.nd.Swarm.Connectedness(R.nd.ID) == network.Connected {
		cl.dialer.LocalIP = newIP
		ctx, cancel := w.ctx(30 * time.Second)
		bridge, err := cl.nd.Tpt.Dial(ctx, R.nd.Addr, R.nd.ID)
		cancel()
		simrt.WaitIdle()
		if err != nil {
			w.o.Trouble = "bridge connection failed: " + err.Error()
			return "trouble"
		}
		cl.nd.Swarm.ClosePeer(R.nd.ID)
		simrt.WaitIdle()
		ok := w.ensure(cl)
		bridge.Close()
		simrt.WaitIdle()
		if !ok {
			w.o.Trouble = "reconnect after move failed"
			return "trouble"
		}
		out = "now at " + newIP + " (relay never saw it disconnected)"
		if w.m.rsv[cl.idx] != nil {
			w.o.Probe("moved-keeping-reservation")
		}
	} else {
		if cl.nd.Swarm.Connectedness(R.nd.ID) != network.NotConnected {
			cl.nd.Swarm.ClosePeer(R.nd.ID)
			simrt.WaitIdle()
		}
		cl.dialer.LocalIP = newIP
		if !w.ensure(cl) {
			w.o.Trouble = "reconnect after move failed"
			return "trouble"
		}
		out = "now at " + newIP + " (after a disconnect)"
	}
	disc := w.takeDisc()
	// circuits of the client ran over the connection that was closed
	for _, cc := range w.m.circs {
		if cc.state != circClosed && (cc.s == cl.idx || cc.d == cl.idx) {
			w.endCircuit(cc)
		}
	}
	simrt.WaitIdle()
	w.applyDisc(disc, nil)
	if got := w.ipsSeen(cl); len(got) != 1 || got[0] != net.ParseIP(newIP).String() {
		w.o.Trouble = fmt.Sprintf("after the move the relay sees %s at %v, expected %s", c.name(cl.idx), got, newIP)
	}
	if op.refresh {
		out += "; refresh: " + w.doReserve(opT{kind: opReserve, a: op.a, raw: op.raw})
	}
	return out
}

func (w *world) doCloseCirc(op opT) string {
	var open []*circ
	for _, cc := range w.m.circs {
		if cc.state != circClosed && cc.fw != nil {
			open = append(open, cc)
		}
	}
	if len(open) == 0 {
		return "nothing held"
	}
	cc := open[op.a%len(open)]
	how := ""
	switch op.closeHow {
	case 0:
		cc.ss.Reset()
		how = "source resets"
	case 1:
		cc.ds.Reset()
		how = "destination resets"
	default:
		cc.ss.CloseWrite()
		cc.ds.CloseWrite()
		how = "both half-close"
	}
	simrt.WaitIdle()
	if cc.state == circOpen && (!cc.fw.done || !cc.bw.done) {
		// not part of the statement; if the relay really kept the circuit, the audits below see its resources
		w.o.Probe("circuit-end-not-propagated")
	}
	w.endCircuit(cc)
	simrt.WaitIdle()
	return fmt.Sprintf("#%d %s", cc.id, how)
}

// checkpoint runs after every operation at quiescence: model housekeeping, the duration limit of
// held circuits, and - when the model says nothing is in flight - the relay's resources.
func (w *world) checkpoint(where string) {
	c, m := w.cfg, w.m
	now := simrt.Now()
	m.purge(now)
	for _, cc := range m.circs {
		if cc.state == circClosed || cc.fw == nil {
			continue
		}
		if cc.fw.done || cc.bw.done {
			// the relay (or the other party) ended it
			if c.limited && now >= cc.lo+c.limDur {
				w.o.Probe("duration-limit-hit")
			}
			w.checkDuration(cc, now)
			w.endCircuit(cc)
			continue
		}
		if c.limited && now >= cc.lo+c.limDur {
			cc.state = circMaybe
			w.checkDuration(cc, now)
			if now >= cc.hi+c.limDur+time.Second {
				w.endCircuit(cc)
			}
		}
	}
	simrt.WaitIdle()
	if m.anyCircuit() || now <= w.pendingUntil {
		return
	}
	w.audit(where)
}

// checkDuration: both ends of a circuit on a limited relay must have seen it end by Limit.Duration (+1 s).
func (w *world) checkDuration(cc *circ, now time.Duration) {
	c := w.cfg
	if !c.limited || cc.durChecked {
		return
	}
	dl := cc.hi + c.limDur + time.Second
	if now < dl {
		return
	}
	cc.durChecked = true
	for _, e := range []struct {
		name string
		k    *sink
	}{{"destination-end", cc.fw}, {"source-end", cc.bw}} {
		if !e.k.done || e.k.doneAt > dl {
			w.violate("C11/duration-limit-not-enforced/"+e.name, "circuit #%d opened at %v with Limit.Duration=%v: at %v the %s has not seen it end (reader done=%v at %v)", cc.id, cc.hi, c.limDur, now, e.name, e.k.done, e.k.doneAt)
		}
	}
}

// audit: with no circuit open and no handshake in flight the relay's service scope holds nothing,
// no peer carries the hop tag and peers without reservation carry no reservation tag.
func (w *world) audit(where string) {
	st := w.svcStat()
	if st.Memory != 0 && !w.leakReported["memory"] {
		w.leakReported["memory"] = true
		w.violate("C11/service-scope-not-released/memory", "%s: no circuit open, relay service scope still holds %d bytes (%+v); history: %v", where, st.Memory, st, w.hist)
	}
	if (st.NumStreamsInbound != 0 || st.NumStreamsOutbound != 0) && !w.leakReported["streams"] {
		w.leakReported["streams"] = true
		w.violate("C11/service-scope-not-released/streams", "%s: no circuit open, relay service scope still holds streams (%+v); history: %v", where, st, w.hist)
	}
	for _, cl := range w.cl {
		tg := w.tags(cl)
		if _, ok := tg["relay-v2-hop"]; ok && !w.leakReported["hop-tag"] {
			w.leakReported["hop-tag"] = true
			w.violate("C11/connmgr-tag-left/relay-v2-hop", "%s: no circuit open, but %s is still tagged %s; history: %v", where, w.cfg.name(cl.idx), tagString(tg), w.hist)
		}
		if _, ok := tg["relay-reservation"]; ok && w.m.rsv[cl.idx] == nil && !w.leakReported["rsv-tag"] {
			w.leakReported["rsv-tag"] = true
			class := "C11/connmgr-tag-left/relay-reservation"
			if w.racedDisc[cl.idx] {
				class += "/after-disconnect-race"
			} else if w.m.whyNone(cl.idx) == "after-disconnect" && w.relayedOnly(cl) {
				// the reservation went away with the peer's last direct connection while a limited (relayed) connection
				// keeps the connection manager's entry alive: only an explicit UntagPeer could remove the tag
				class += "/limited-connection-remains"
			}
			w.violate(class, "%s: %s holds no reservation (%s) but is still tagged %s; history: %v", where, w.cfg.name(cl.idx), w.m.whyNone(cl.idx), tagString(tg), w.hist)
		}
	}
}

// ---- X with a direct connection next to its relayed one ----------------------------------------

func (w *world) xConns(X *cli) (direct, relayed []network.Conn) {
	for _, cn := range X.nd.Swarm.ConnsToPeer(w.R.nd.ID) {
		if isCircuit(cn.RemoteMultiaddr()) {
			relayed = append(relayed, cn)
		} else {
			direct = append(direct, cn)
		}
	}
	return
}

// doXDirect: X, connected through R2, forces an additional direct connection to the relay (requests then
// travel over the direct one), optionally followed by a RESERVE.
func (w *world) doXDirect(op opT) string {
	X, R := w.cl[op.a], w.R
	direct, relayed := w.xConns(X)
	if len(relayed) == 0 {
		// the relayed connection has to exist first (a second connection can only be forced from relayed to direct)
		if len(direct) > 0 {
			X.nd.Swarm.ClosePeer(R.nd.ID)
			simrt.WaitIdle()
			w.endCircuitsOf(X.idx)
			w.applyDisc(w.takeDisc(), nil)
			direct = nil
		}
		if !w.ensure(X) {
			return "skipped (no connection through R2)"
		}
	}
	out := "already direct"
	if len(direct) == 0 {
		w.xGater.allowDirect = true
		X.nd.PS.AddAddrs(R.nd.ID, []ma.Multiaddr{R.nd.Addr}, time.Hour)
		X.nd.Swarm.Backoff().Clear(R.nd.ID)
		ctx, cancel := w.ctx(30 * time.Second)
		_, err := X.nd.Swarm.DialPeer(network.WithForceDirectDial(ctx, "c11"), R.nd.ID)
		cancel()
		w.xGater.allowDirect = false
		simrt.WaitIdle()
		if err != nil {
			w.logf("   forced direct dial failed: %v", err)
			return "direct dial failed"
		}
		out = "direct connection added"
	}
	w.applyDisc(w.takeDisc(), nil)
	d, r := w.xConns(X)
	out += fmt.Sprintf(" (direct=%d relayed=%d)", len(d), len(r))
	if len(d) > 0 && len(r) > 0 {
		w.o.Probe("x-direct-and-relayed")
	}
	if op.refresh {
		out += "; reserve: " + w.doReserve(opT{kind: opReserve, a: op.a, raw: op.raw})
	}
	return out
}

func (w *world) endCircuitsOf(i int) {
	for _, cc := range w.m.circs {
		if cc.state != circClosed && (cc.s == i || cc.d == i) {
			w.endCircuit(cc)
		}
	}
	simrt.WaitIdle()
}

// doXDropDirect: X closes its direct connection(s). If a LIMITED relayed connection is all that remains the
// peer is no longer connected in the sense of network.Connectedness and its reservation is gone (the
// relay-side notifiee of the harness applies exactly that rule); through an unlimited R2 it stays connected.
func (w *world) doXDropDirect(op opT) string {
	X := w.cl[op.a]
	direct, relayed := w.xConns(X)
	if len(direct) == 0 {
		return "no direct connection"
	}
	held := w.m.rsv[X.idx] != nil
	for _, cn := range direct {
		cn.Close()
	}
	simrt.WaitIdle()
	w.endCircuitsOf(X.idx)
	disc := w.takeDisc()
	w.applyDisc(disc, nil)
	out := fmt.Sprintf("closed %d direct, %d relayed remain, relay sees peer disconnected=%v", len(direct), len(relayed), disc[X.idx])
	if held && disc[X.idx] && len(relayed) > 0 {
		w.o.Probe("x-reservation-dropped-limited-connection-remains")
	}
	if held && !disc[X.idx] {
		w.o.Probe("x-reservation-kept-unlimited-relayed-connection")
	}
	if op.refresh {
		out += "; connect: " + w.doConnect(opT{kind: opConnect, a: op.b, b: op.a, fwd: 4, back: 4})
	}
	return out
}

// probeConnectTo asks the relay for a circuit to client c from some other direct client: the answer tells
// whether the relay holds a reservation for c (NO_RESERVATION = none), which judgeConnect ties to c's tag.
func (w *world) probeConnectTo(c int) string {
	for s := 0; s < w.cfg.nCl; s++ {
		if s == c || (w.cfg.denySrc == s && w.cfg.denyDst == c) || w.m.cntMaybe(s) >= w.cfg.maxCirc || w.m.cntMaybe(c) >= w.cfg.maxCirc {
			continue
		}
		w.o.Probe("probe-connect-after-disconnect-race")
		return fmt.Sprintf("; probe CONNECT(%s->%s) => %s", w.cfg.name(s), w.cfg.name(c), w.doConnect(opT{kind: opConnect, a: s, b: c, fwd: 4, back: 4}))
	}
	return ""
}
