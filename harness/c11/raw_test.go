package c11

import (
	"context"
	"errors"
	"fmt"
	"io"
	"strings"
	"time"

	"github.com/libp2p/go-libp2p/core/crypto"
	"github.com/libp2p/go-libp2p/core/host"
	"github.com/libp2p/go-libp2p/core/network"
	"github.com/libp2p/go-libp2p/core/peer"
	"github.com/libp2p/go-libp2p/core/record"
	"github.com/libp2p/go-libp2p/p2p/protocol/circuitv2/client"
	pbv2 "github.com/libp2p/go-libp2p/p2p/protocol/circuitv2/pb"
	"github.com/libp2p/go-libp2p/p2p/protocol/circuitv2/proto"
	"github.com/libp2p/go-libp2p/p2p/protocol/circuitv2/util"

	"verifsim/simrt"
)

const maxMsg = 4096

// status codes used by the harness in addition to the protocol's own
const (
	stNone     pbv2.Status = -1 // no status obtained (stream error, timeout, malformed reply)
	stNoStream pbv2.Status = -2 // the hop stream could not be opened
)

func stName(s pbv2.Status) string {
	switch s {
	case stNone:
		return "NO-REPLY"
	case stNoStream:
		return "NO-STREAM"
	}
	if n, ok := pbv2.Status_name[int32(s)]; ok {
		return n
	}
	return fmt.Sprintf("STATUS(%d)", int32(s))
}

// statusFromText finds a protocol status name in an error text (the client transport reports
// refusals as "error opening relay circuit: NO_RESERVATION (204)" wrapped in swarm dial errors).
func statusFromText(s string) pbv2.Status {
	for _, c := range []pbv2.Status{pbv2.Status_RESERVATION_REFUSED, pbv2.Status_RESOURCE_LIMIT_EXCEEDED, pbv2.Status_PERMISSION_DENIED,
		pbv2.Status_CONNECTION_FAILED, pbv2.Status_NO_RESERVATION, pbv2.Status_MALFORMED_MESSAGE, pbv2.Status_UNEXPECTED_MESSAGE} {
		if strings.Contains(s, pbv2.Status_name[int32(c)]) {
			return c
		}
	}
	return stNone
}

// ---- RESERVE ----------------------------------------------------------------------------------

type rsvResult struct {
	status  pbv2.Status
	t0, t1  time.Duration // virtual time at invoke / return
	expire  int64         // unix seconds granted (0 if none)
	problem string        // voucher problem found by the harness' own verification ("" = fine)
	errText string
}

// checkVoucher verifies independently of the client library that blob is an envelope signed by
// the relay's key over a voucher for exactly (relay, requester, expire).
func checkVoucher(blob []byte, relayPub crypto.PubKey, relayID, requester peer.ID, expire int64) string {
	if len(blob) == 0 {
		return "no voucher in the reservation"
	}
	env, rec, err := record.ConsumeEnvelope(blob, proto.RecordDomain)
	if err != nil {
		return "envelope does not verify: " + err.Error()
	}
	if !env.PublicKey.Equals(relayPub) {
		return "envelope not signed by the relay's key"
	}
	v, ok := rec.(*proto.ReservationVoucher)
	if !ok {
		return fmt.Sprintf("record type %T", rec)
	}
	if v.Relay != relayID {
		return "voucher names another relay"
	}
	if v.Peer != requester {
		return "voucher names another peer than the requester"
	}
	if v.Expiration.Unix() != expire {
		return fmt.Sprintf("voucher expiry %d differs from the reservation's %d", v.Expiration.Unix(), expire)
	}
	return ""
}

// rawReserve speaks the hop protocol by hand.
func rawReserve(ctx context.Context, h host.Host, relayID peer.ID, relayPub crypto.PubKey, noWait bool) (res rsvResult) {
	res = rsvResult{status: stNone, t0: simrt.Now()}
	defer func() { res.t1 = simrt.Now() }()
	s, err := h.NewStream(ctx, relayID, proto.ProtoIDv2Hop)
	if err != nil {
		res.status, res.errText = stNoStream, err.Error()
		return res
	}
	defer s.Close()
	s.SetDeadline(time.Now().Add(90 * time.Second))
	wr := util.NewDelimitedWriter(s)
	rd := util.NewDelimitedReader(s, maxMsg)
	defer rd.Close()
	var msg pbv2.HopMessage
	msg.Type = pbv2.HopMessage_RESERVE.Enum()
	if err := wr.WriteMsg(&msg); err != nil {
		s.Reset()
		res.errText = err.Error()
		return res
	}
	if noWait {
		// byzantine / crashing client: the request is out, the answer is never read
		s.Reset()
		res.errText = "reset without reading the reply"
		return res
	}
	msg.Reset()
	if err := rd.ReadMsg(&msg); err != nil {
		s.Reset()
		res.errText = err.Error()
		return res
	}
	if msg.GetType() != pbv2.HopMessage_STATUS {
		res.errText = "reply is not a STATUS message"
		return res
	}
	res.status = msg.GetStatus()
	if res.status != pbv2.Status_OK {
		return res
	}
	rs := msg.GetReservation()
	if rs == nil {
		res.problem = "OK without reservation info"
		return res
	}
	res.expire = int64(rs.GetExpire())
	res.problem = checkVoucher(rs.GetVoucher(), relayPub, relayID, h.ID(), res.expire)
	return res
}

// realReserve uses the client library; the voucher has been verified by it and is re-checked field by field.
func realReserve(ctx context.Context, h host.Host, relay peer.AddrInfo) rsvResult {
	res := rsvResult{status: stNone, t0: simrt.Now()}
	r, err := client.Reserve(ctx, h, relay)
	res.t1 = simrt.Now()
	if err != nil {
		res.errText = err.Error()
		var re client.ReservationError
		if errors.As(err, &re) {
			res.status = re.Status
			if re.Status == pbv2.Status_CONNECTION_FAILED {
				// the library's catch-all for "no answer obtained" — the relay never sends it for RESERVE
				res.status = stNone
			}
			if re.Status == pbv2.Status_MALFORMED_MESSAGE {
				// the library rejected what the relay sent
				res.problem = "client library rejected the reply: " + re.Reason
			}
		}
		return res
	}
	res.status = pbv2.Status_OK
	res.expire = r.Expiration.Unix()
	switch {
	case r.Voucher == nil:
		res.problem = "no voucher in the reservation"
	case r.Voucher.Relay != relay.ID:
		res.problem = "voucher names another relay"
	case r.Voucher.Peer != h.ID():
		res.problem = "voucher names another peer than the requester"
	case r.Voucher.Expiration.Unix() != res.expire:
		res.problem = fmt.Sprintf("voucher expiry %d differs from the reservation's %d", r.Voucher.Expiration.Unix(), res.expire)
	}
	return res
}

// ---- CONNECT (raw hop side) --------------------------------------------------------------------

// hopPlan is what a (possibly byzantine) source does on its hop stream.
type hopPlan int

const (
	hopNormal       hopPlan = iota
	hopResetAtOpen          // open the stream, reset without sending
	hopGarbage              // length prefix + bytes that are not a protobuf message
	hopOversized            // length prefix larger than the maximum message size
	hopWrongType            // a STATUS message
	hopNilPeer              // CONNECT without peer
	hopBadPeerID            // CONNECT with peer id bytes that are no multihash
	hopResetNoWait          // CONNECT, then reset without reading the reply
	hopCloseNoWait          // CONNECT, then close without reading the reply
	hopSilent               // send nothing, wait for the relay to give up
	hopTruncated            // length prefix announces more bytes than are sent, then half-close
	hopResetDelayed         // CONNECT, then reset while the relay is in the stop handshake (the destination answers slowly)
	hopCloseDelayed         // CONNECT, then close while the relay is in the stop handshake
	nHopPlans
)

var hopPlanNames = [...]string{"normal", "reset-at-open", "garbage", "oversized", "wrong-type", "nil-peer", "bad-peer-id",
	"reset-no-wait", "close-no-wait", "silent", "truncated", "reset-during-stop-handshake", "close-during-stop-handshake"}

func (p hopPlan) String() string { return hopPlanNames[p] }

type connResult struct {
	status  pbv2.Status
	limit   *pbv2.Limit
	stream  network.Stream // the circuit (status OK only)
	t0, t1  time.Duration
	errText string
}

// rawConnect opens a hop stream from h to the relay and asks for a circuit to dest.
func rawConnect(ctx context.Context, h host.Host, relayID, dest peer.ID, plan hopPlan) (res connResult) {
	res = connResult{status: stNone, t0: simrt.Now()}
	defer func() { res.t1 = simrt.Now() }()
	s, err := h.NewStream(ctx, relayID, proto.ProtoIDv2Hop)
	if err != nil {
		res.status, res.errText = stNoStream, err.Error()
		return res
	}
	s.SetDeadline(time.Now().Add(150 * time.Second))
	wr := util.NewDelimitedWriter(s)
	rd := util.NewDelimitedReader(s, maxMsg)
	defer rd.Close()
	var msg pbv2.HopMessage
	msg.Type = pbv2.HopMessage_CONNECT.Enum()
	msg.Peer = &pbv2.Peer{Id: []byte(dest)}
	var werr error
	switch plan {
	case hopResetAtOpen:
		s.Reset()
		return res
	case hopGarbage:
		_, werr = s.Write([]byte{5, 0xff, 0xff, 0xff, 0xff, 0xff})
	case hopOversized:
		_, werr = s.Write([]byte{0xff, 0xff, 0x03, 1, 2, 3})
	case hopTruncated:
		_, werr = s.Write([]byte{40, 8, 1})
		s.CloseWrite()
	case hopWrongType:
		msg.Type = pbv2.HopMessage_STATUS.Enum()
		msg.Peer = nil
		msg.Status = pbv2.Status_OK.Enum()
		werr = wr.WriteMsg(&msg)
	case hopNilPeer:
		msg.Peer = nil
		werr = wr.WriteMsg(&msg)
	case hopBadPeerID:
		msg.Peer = &pbv2.Peer{Id: []byte{1, 2, 3}}
		werr = wr.WriteMsg(&msg)
	case hopSilent:
	default:
		werr = wr.WriteMsg(&msg)
	}
	if werr != nil {
		s.Reset()
		res.errText = werr.Error()
		return res
	}
	switch plan {
	case hopResetNoWait:
		s.Reset()
		return res
	case hopCloseNoWait:
		s.Close()
		return res
	case hopResetDelayed:
		simrt.TimeSleep(500 * time.Millisecond)
		s.Reset()
		return res
	case hopCloseDelayed:
		simrt.TimeSleep(500 * time.Millisecond)
		s.Close()
		return res
	}
	msg.Reset()
	if err := rd.ReadMsg(&msg); err != nil {
		s.Reset()
		res.errText = err.Error()
		return res
	}
	if msg.GetType() != pbv2.HopMessage_STATUS {
		s.Reset()
		res.errText = "reply is not a STATUS message"
		return res
	}
	res.status = msg.GetStatus()
	res.limit = msg.GetLimit()
	if res.status != pbv2.Status_OK {
		s.Close()
		return res
	}
	s.SetDeadline(time.Time{})
	res.stream = s
	return res
}

// ---- STOP (raw destination side) ---------------------------------------------------------------

// stopPlan is what a (possibly byzantine) destination does with an incoming stop stream.
type stopPlan int

const (
	stopAccept      stopPlan = iota
	stopRefuse               // STATUS CONNECTION_FAILED
	stopDeny                 // STATUS PERMISSION_DENIED
	stopWrongType            // a CONNECT message instead of STATUS
	stopGarbage              // bytes that are no protobuf
	stopOversized            // length prefix over the maximum
	stopReset                // reset after reading the request
	stopResetUnread          // reset before reading
	stopClose                // close without replying
	stopSilent               // read, never reply, keep the stream
	stopNoStatus             // STATUS message without status field (reads as UNUSED)
	stopDisconnect           // close the connection to the relay when the request arrives
	stopAcceptReset          // accept, then reset the circuit immediately
	nStopPlans
	stopSlowAccept stopPlan = nStopPlans // accept after one second (companion of the delayed hop plans; never drawn by itself)
)

var stopPlanNames = [...]string{"accept", "refuse", "deny", "wrong-type", "garbage", "oversized", "reset", "reset-unread", "close",
	"silent", "no-status", "disconnect", "accept-reset", "slow-accept"}

func (p stopPlan) String() string { return stopPlanNames[p] }

// incoming is one stop request seen by a raw destination.
type incoming struct {
	src     peer.ID
	limit   *pbv2.Limit
	plan    stopPlan
	stream  network.Stream // kept open when accepted (or silent)
	at      time.Duration
	readErr string
}

// pattern is the payload byte at offset i of direction dir of circuit id.
func pattern(id, dir, i int) byte { return byte(i*7 + id*31 + dir*101 + i/251) }

// sink reads a circuit end until it fails or ends and records what arrived.
type sink struct {
	n       int
	bad     int // offset of the first byte that differs from the pattern, -1 = none
	done    bool
	eof     bool
	err     string
	doneAt  time.Duration
	started bool
}

func (k *sink) run(s network.Stream, id, dir int) {
	k.started = true
	k.bad = -1
	buf := make([]byte, 1500)
	for {
		n, err := s.Read(buf)
		for i := 0; i < n; i++ {
			if k.bad < 0 && buf[i] != pattern(id, dir, k.n+i) {
				k.bad = k.n + i
			}
		}
		k.n += n
		if err != nil {
			k.done, k.eof, k.doneAt = true, err == io.EOF, simrt.Now()
			if err != io.EOF {
				k.err = err.Error()
			}
			return
		}
	}
}

func payload(id, dir, n int) []byte {
	b := make([]byte, n)
	for i := range b {
		b[i] = pattern(id, dir, i)
	}
	return b
}
