package c11

import (
	"fmt"

	"github.com/libp2p/go-libp2p/core/network"
	"github.com/libp2p/go-libp2p/p2p/protocol/circuitv2/relay"
)

// svcRcmgr sits in front of simhost.RefusingRcmgr (which covers connection / stream scopes) and
// additionally wraps the relay's SERVICE scope, so that the span the relay opens per circuit
// (Relay.scope.BeginSpan) and its buffer reservation (span.ReserveMemory) can be refused:
// sites "SvcSpan" and "SvcMemory". Everything is delegated to the real manager otherwise.
type svcRcmgr struct {
	network.ResourceManager
	site  string
	n     int
	count map[string]int
	Fired int
}

func newSvcRcmgr(inner network.ResourceManager) *svcRcmgr {
	return &svcRcmgr{ResourceManager: inner, count: map[string]int{}}
}

func (r *svcRcmgr) arm(site string, n int) { r.site, r.n, r.count = site, n, map[string]int{} }
func (r *svcRcmgr) disarm()                { r.site, r.n = "", 0 }

func (r *svcRcmgr) refuse(site string) error {
	r.count[site]++
	if site == r.site && r.n != 0 && r.count[site] == r.n {
		r.Fired++
		return fmt.Errorf("c11: injected refusal at %s #%d: %w", site, r.n, network.ErrResourceLimitExceeded)
	}
	return nil
}

func (r *svcRcmgr) ViewService(name string, f func(network.ServiceScope) error) error {
	return r.ResourceManager.ViewService(name, func(s network.ServiceScope) error {
		if name != relay.ServiceName {
			return f(s)
		}
		return f(&svcScope{ServiceScope: s, r: r})
	})
}

type svcScope struct {
	network.ServiceScope
	r *svcRcmgr
}

// BeginSpan on the service scope itself is what relay.New does once: never refused.
func (s *svcScope) BeginSpan() (network.ResourceScopeSpan, error) {
	sp, err := s.ServiceScope.BeginSpan()
	if err != nil {
		return nil, err
	}
	return &svcSpan{ResourceScopeSpan: sp, r: s.r}, nil
}

type svcSpan struct {
	network.ResourceScopeSpan
	r *svcRcmgr
}

func (s *svcSpan) BeginSpan() (network.ResourceScopeSpan, error) {
	if err := s.r.refuse("SvcSpan"); err != nil {
		return nil, err
	}
	sp, err := s.ResourceScopeSpan.BeginSpan()
	if err != nil {
		return nil, err
	}
	return &svcSpan{ResourceScopeSpan: sp, r: s.r}, nil
}

func (s *svcSpan) ReserveMemory(size int, prio uint8) error {
	if err := s.r.refuse("SvcMemory"); err != nil {
		return err
	}
	return s.ResourceScopeSpan.ReserveMemory(size, prio)
}
