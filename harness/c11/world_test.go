package c11

import (
	"context"
	"fmt"
	"io"
	"net"
	"sort"
	"time"

	"github.com/libp2p/go-libp2p/core/control"
	connmgri "github.com/libp2p/go-libp2p/core/connmgr"
	"github.com/libp2p/go-libp2p/core/network"
	"github.com/libp2p/go-libp2p/core/peer"
	"github.com/libp2p/go-libp2p/core/peerstore"
	basichost "github.com/libp2p/go-libp2p/p2p/host/basic"
	rcmgr "github.com/libp2p/go-libp2p/p2p/host/resource-manager"
	"github.com/libp2p/go-libp2p/p2p/net/connmgr"
	"github.com/libp2p/go-libp2p/p2p/protocol/circuitv2/client"
	pbv2 "github.com/libp2p/go-libp2p/p2p/protocol/circuitv2/pb"
	"github.com/libp2p/go-libp2p/p2p/protocol/circuitv2/proto"
	"github.com/libp2p/go-libp2p/p2p/protocol/circuitv2/relay"
	"github.com/libp2p/go-libp2p/p2p/protocol/circuitv2/util"
	"github.com/libp2p/go-libp2p/p2p/transport/tcp"
	ma "github.com/multiformats/go-multiaddr"
	manet "github.com/multiformats/go-multiaddr/net"

	"verifsim/harness/common"
	"verifsim/simhost"
	"verifsim/simnet"
	"verifsim/simrt"
)

const echoProto = "/c11/echo/1.0.0"

type cli struct {
	idx      int
	nd       *simhost.Node
	real     network.ResourceManager
	dialer   *simnet.Dialer
	realStop bool
	relayed  bool
	inbox    []*incoming
	script   []stopPlan
	rawConns []*simnet.Conn // dialer ends of the TCP connections this node opened, newest last
}

// cmWrap is the relay's connection manager: the real BasicConnMgr, except that ONE armed TagPeer call is held for
// one virtual millisecond after an environment event (the tagged peer closing its connection) was started - the
// long pause at a program point that the scheduler's pause rule produces only rarely. Whatever the relay holds
// across the call (Relay.mx on the unchanged tree) stays held, so this only forces a legal schedule.
type cmWrap struct {
	*connmgr.BasicConnMgr
	peer  peer.ID
	tag   string
	hook  func()
	Fired int
}

func (c *cmWrap) TagPeer(p peer.ID, tag string, v int) {
	if c.hook != nil && p == c.peer && tag == c.tag {
		h := c.hook
		c.hook = nil
		c.Fired++
		h()
		simrt.TimeSleep(time.Millisecond)
	}
	c.BasicConnMgr.TagPeer(p, tag, v)
}

type aclT struct {
	w                  *world
	reserves, connects int
}

func (a *aclT) AllowReserve(p peer.ID, _ ma.Multiaddr) bool {
	a.reserves++
	c := a.w.cfg
	return c.denyRsv < 0 || p != a.w.cl[c.denyRsv].nd.ID
}

func (a *aclT) AllowConnect(src peer.ID, _ ma.Multiaddr, dest peer.ID) bool {
	a.connects++
	c := a.w.cfg
	return c.denySrc < 0 || !(src == a.w.cl[c.denySrc].nd.ID && dest == a.w.cl[c.denyDst].nd.ID)
}

type world struct {
	o       *common.Outcome
	cfg     *cfgT
	n       *simnet.Net
	R       *cli
	R2      *cli
	rl      *relay.Relay
	cm      *connmgr.BasicConnMgr
	cmw     *cmWrap
	svc     *svcRcmgr
	rw      *simhost.RefusingRcmgr
	acl     *aclT
	cl      []*cli
	m       *model
	base    time.Time // wall-clock reading of virtual instant 0
	disc    map[peer.ID]int
	dialing *cli
	closers []func()

	nextCirc     int
	pendingUntil time.Duration // until then relay-side streams of an abandoned handshake may legitimately exist
	leakReported map[string]bool
	granted      int
	connects     int
	hist         []string
	ioEnd        *simnet.Conn
	pendingIO    *pendingIO
	touched      map[int]bool
	c2Seen       bool
	racedDisc    map[int]bool // clients whose RESERVE ran concurrently with their own disconnect at least once
	xGater       *onlyRelayed
	relNow       map[int]bool // who had only relayed connections to the relay when the current operation started
	everRsv      map[int]bool
}

func (w *world) logf(format string, a ...any) { w.o.Logf(format, a...) }

// violate reports a failed oracle.
func (w *world) violate(class, format string, a ...any) {
	w.o.Violate(class, format, a...)
	w.logf("VIOLATION %s: %s", class, fmt.Sprintf(format, a...))
}

func (w *world) mkNode(seed int, ip string, port int, ho *basichost.HostOpts, wrapRc bool, gater connmgri.ConnectionGater) (*cli, error) {
	real, err := rcmgr.NewResourceManager(rcmgr.NewFixedLimiter(rcmgr.InfiniteLimits), rcmgr.WithMetricsDisabled())
	if err != nil {
		return nil, err
	}
	c := &cli{real: real, dialer: w.n.Dialer(ip)}
	var rm network.ResourceManager = real
	if wrapRc {
		w.rw = simhost.NewRefusingRcmgr(real, "", 0)
		w.svc = newSvcRcmgr(w.rw)
		rm = w.svc
	}
	d := c.dialer
	nd, err := simhost.New(w.n, simhost.Opts{Key: simhost.DetKey(seed), IP: ip, Port: port, Security: w.cfg.secu, Rcmgr: rm, Gater: gater, WithHost: true, HostOpts: ho,
		TCPOpts: []tcp.Option{tcp.WithDialerForAddr(func(ma.Multiaddr) (tcp.ContextDialer, error) { return &tracingDialer{w: w, c: c, d: d}, nil })}})
	if err != nil {
		real.Close()
		return nil, err
	}
	c.nd = nd
	w.closers = append(w.closers, func() { nd.Close(); real.Close() })
	return c, nil
}

// onlyRelayed is X's connection gater: X learns the relay's TCP address through identify but must
// never dial it directly (it stands for a peer that can reach the relay only through R2).
type onlyRelayed struct {
	target      peer.ID
	allowDirect bool // opened by X-ADD-DIRECT for the duration of one forced dial
}

func (g *onlyRelayed) InterceptPeerDial(peer.ID) bool { return true }
func (g *onlyRelayed) InterceptAddrDial(p peer.ID, a ma.Multiaddr) bool {
	if p != g.target || g.allowDirect {
		return true
	}
	_, err := a.ValueForProtocol(ma.P_CIRCUIT)
	return err == nil
}
func (g *onlyRelayed) InterceptAccept(network.ConnMultiaddrs) bool { return true }
func (g *onlyRelayed) InterceptSecured(network.Direction, peer.ID, network.ConnMultiaddrs) bool {
	return true
}
func (g *onlyRelayed) InterceptUpgraded(network.Conn) (bool, control.DisconnectReason) { return true, 0 }

// tracingDialer remembers which node opened which simulated TCP connection.
type tracingDialer struct {
	w *world
	c *cli
	d *simnet.Dialer
}

func (t *tracingDialer) DialContext(ctx context.Context, nw, addr string) (net.Conn, error) {
	t.w.dialing = t.c
	defer func() { t.w.dialing = nil }()
	return t.d.DialContext(ctx, nw, addr)
}

func (w *world) closeAll() {
	for i := len(w.closers) - 1; i >= 0; i-- {
		w.closers[i]()
	}
	w.closers = nil
}

func (w *world) ctx(d time.Duration) (context.Context, context.CancelFunc) {
	return context.WithTimeout(network.WithAllowLimitedConn(context.Background(), "c11"), d)
}

// setup builds the population. Returns false (with o.Trouble set) when something fails.
func (w *world) setup() bool {
	c := w.cfg
	o := w.o
	w.base = time.Now().Add(-simrt.Now())
	w.n.OnConn(func(d, l *simnet.Conn) {
		if w.dialing != nil {
			w.dialing.rawConns = append(w.dialing.rawConns, d)
			if p := w.pendingIO; p != nil && p.cl == w.dialing {
				// cold client: the fault sits on the connection its request is about to open (handshake, identify, first stream)
				w.pendingIO = nil
				end := d
				if p.k%2 == 0 {
					end = l
				}
				kind := p.kind
				if kind == simnet.Stall && w.cfg.secu == "insecure" {
					// the plaintext test transport ignores the upgrade context: a peer that stalls inside its handshake
					// blocks the inbound upgrade, and with it listener.Close / Host.Close, for ever (outside C11, told to
					// the lead); the run could not be shut down
					kind = simnet.Reset
				}
				w.armIO(end, kind, 1+3*p.k)
			}
		}
	})
	cm, err := connmgr.NewConnManager(1000, 2000)
	if err != nil {
		o.Trouble = "connmgr: " + err.Error()
		return false
	}
	w.cm = cm
	w.cmw = &cmWrap{BasicConnMgr: cm}
	R, err := w.mkNode(100, "5.5.5.1", 4001, &basichost.HostOpts{ConnManager: w.cmw}, true, nil)
	if err != nil {
		o.Trouble = "relay node: " + err.Error()
		return false
	}
	R.idx = -1
	w.R = R
	rc := relay.DefaultResources()
	rc.ReservationTTL = c.ttl
	rc.MaxReservations = c.maxRes
	rc.MaxReservationsPerIP = c.perIP
	rc.MaxReservationsPerASN = c.perASN
	rc.MaxCircuits = c.maxCirc
	rc.BufferSize = c.bufSize
	opts := []relay.Option{relay.WithResources(rc)}
	if c.limited {
		opts = append(opts, relay.WithLimit(&relay.RelayLimit{Duration: c.limDur, Data: int64(c.limData)}))
	} else {
		opts = append(opts, relay.WithInfiniteLimits())
	}
	if c.denyRsv >= 0 || c.denySrc >= 0 {
		w.acl = &aclT{w: w}
		opts = append(opts, relay.WithACL(w.acl))
	}
	rl, err := relay.New(R.nd.Host, opts...)
	if err != nil {
		o.Trouble = "relay: " + err.Error()
		return false
	}
	w.rl = rl
	w.closers = append(w.closers, func() { rl.Close() })
	R.nd.Swarm.Notify(&network.NotifyBundle{DisconnectedF: func(n network.Network, cn network.Conn) {
		if n.Connectedness(cn.RemotePeer()) != network.Connected {
			w.disc[cn.RemotePeer()]++
		}
	}})
	for i := 0; i < c.nCl; i++ {
		cl, err := w.mkNode(1+i, c.home[i], 0, nil, false, nil)
		if err != nil {
			o.Trouble = "client node: " + err.Error()
			return false
		}
		cl.idx = i
		cl.realStop = c.realStop[i]
		if cl.realStop {
			if err := client.AddTransport(cl.nd.Host, cl.nd.Up); err != nil {
				o.Trouble = "client transport: " + err.Error()
				return false
			}
			cl.nd.Host.SetStreamHandler(echoProto, func(s network.Stream) {
				s.SetDeadline(time.Now().Add(30 * time.Second))
				io.Copy(s, s)
				s.Close()
			})
		} else {
			cl.nd.Host.SetStreamHandler(proto.ProtoIDv2Stop, w.stopHandler(cl))
		}
		w.cl = append(w.cl, cl)
	}
	if c.withX {
		R2, err := w.mkNode(101, "5.5.5.2", 4001, nil, false, nil)
		if err != nil {
			o.Trouble = "R2 node: " + err.Error()
			return false
		}
		R2.idx = -2
		w.R2 = R2
		var o2 []relay.Option
		if !c.r2Lim {
			o2 = append(o2, relay.WithInfiniteLimits())
		}
		rl2, err := relay.New(R2.nd.Host, o2...)
		if err != nil {
			o.Trouble = "relay R2: " + err.Error()
			return false
		}
		w.closers = append(w.closers, func() { rl2.Close() })
		if err := client.AddTransport(R.nd.Host, R.nd.Up); err != nil {
			o.Trouble = "relay's own circuit transport: " + err.Error()
			return false
		}
		xip := "9.9.9.9"
		if c.mixed {
			xip = c.pool[0] // its direct connection competes for the per-IP / per-ASN caps
		}
		w.xGater = &onlyRelayed{target: R.nd.ID}
		X, err := w.mkNode(50, xip, 0, nil, false, w.xGater)
		if err != nil {
			o.Trouble = "X node: " + err.Error()
			return false
		}
		X.idx, X.relayed, X.realStop = c.nCl, true, true
		if err := client.AddTransport(X.nd.Host, X.nd.Up); err != nil {
			o.Trouble = "X transport: " + err.Error()
			return false
		}
		w.cl = append(w.cl, X)
	}
	for _, cl := range w.cl {
		if c.cold && !cl.relayed {
			// no warm-up: the client only knows the relay's address; its first request dials, so that the request
			// meets the relay while identify / the connection manager's Connected notification are still under way
			cl.nd.PS.AddAddrs(R.nd.ID, []ma.Multiaddr{R.nd.Addr}, peerstore.PermanentAddrTTL)
			continue
		}
		if !w.ensure(cl) {
			o.Trouble = "initial connection of " + c.name(cl.idx) + " failed"
			return false
		}
	}
	simrt.WaitIdle()
	w.takeDisc()
	return true
}

// ensure makes sure cl has a connection to the relay (direct, or through R2 for X).
func (w *world) ensure(cl *cli) bool {
	R := w.R
	if cl.nd.Swarm.Connectedness(R.nd.ID) != network.NotConnected {
		return true
	}
	cl.nd.Swarm.Backoff().Clear(R.nd.ID)
	ai := R.nd.AddrInfo()
	if cl.relayed {
		// the relay keeps a reservation on R2 so that X can reach it through R2
		ctx, cancel := w.ctx(30 * time.Second)
		err := R.nd.Host.Connect(ctx, w.R2.nd.AddrInfo())
		if err == nil {
			_, err = client.Reserve(ctx, R.nd.Host, w.R2.nd.AddrInfo())
		}
		cancel()
		simrt.WaitIdle()
		if err != nil {
			w.logf("   relay could not reserve on R2: %v", err)
			return false
		}
		ai = peer.AddrInfo{ID: R.nd.ID, Addrs: []ma.Multiaddr{ma.StringCast(fmt.Sprintf("%s/p2p/%s/p2p-circuit", w.R2.nd.Addr, w.R2.nd.ID))}}
		cl.nd.Swarm.Backoff().Clear(w.R2.nd.ID)
		cl.nd.PS.ClearAddrs(R.nd.ID)
	}
	ctx, cancel := w.ctx(30 * time.Second)
	err := cl.nd.Host.Connect(ctx, ai)
	cancel()
	simrt.WaitIdle()
	if err != nil {
		w.logf("   %s could not connect to the relay: %v", w.cfg.name(cl.idx), err)
		return false
	}
	if cl.relayed && !w.cfg.mixed {
		for _, cn := range R.nd.Swarm.ConnsToPeer(cl.nd.ID) {
			if _, err := cn.RemoteMultiaddr().ValueForProtocol(ma.P_CIRCUIT); err != nil {
				w.o.Trouble = "X has a direct connection to the relay"
				return false
			}
		}
	}
	return true
}

func isCircuit(a ma.Multiaddr) bool {
	_, err := a.ValueForProtocol(ma.P_CIRCUIT)
	return err == nil
}

// ipsSeen lists the source IPs of cl's connections as the relay sees them. Requests travel over a direct
// connection when there is one (the swarm prefers it), so relayed connections only count when alone.
func (w *world) ipsSeen(cl *cli) []string {
	var direct, all []string
	for _, cn := range w.R.nd.Swarm.ConnsToPeer(cl.nd.ID) {
		if ip, err := manet.ToIP(cn.RemoteMultiaddr()); err == nil {
			all = union(all, []string{ip.String()})
			if !isCircuit(cn.RemoteMultiaddr()) {
				direct = union(direct, []string{ip.String()})
			}
		}
	}
	if len(direct) > 0 {
		return direct
	}
	return all
}

// relayedOnly: every connection the relay has to cl runs through another relay.
func (w *world) relayedOnly(cl *cli) bool {
	conns := w.R.nd.Swarm.ConnsToPeer(cl.nd.ID)
	for _, cn := range conns {
		if !isCircuit(cn.RemoteMultiaddr()) {
			return false
		}
	}
	return len(conns) > 0
}

func (w *world) noteRelayed() {
	w.relNow = map[int]bool{}
	for _, cl := range w.cl {
		w.relNow[cl.idx] = w.relayedOnly(cl)
	}
}

// takeDisc returns (and forgets) the clients the relay saw disconnect completely.
func (w *world) takeDisc() map[int]bool {
	out := map[int]bool{}
	for _, cl := range w.cl {
		if w.disc[cl.nd.ID] > 0 {
			out[cl.idx] = true
		}
	}
	w.disc = map[peer.ID]int{}
	return out
}

func (w *world) svcStat() network.ScopeStat {
	var st network.ScopeStat
	w.R.real.ViewService(relay.ServiceName, func(s network.ServiceScope) error { st = s.Stat(); return nil })
	return st
}

func (w *world) tags(cl *cli) map[string]int {
	ti := w.cm.GetTagInfo(cl.nd.ID)
	if ti == nil {
		return nil
	}
	return ti.Tags
}

func tagString(m map[string]int) string {
	var k []string
	for t, v := range m {
		k = append(k, fmt.Sprintf("%s=%d", t, v))
	}
	sort.Strings(k)
	return fmt.Sprint(k)
}

// stopHandler is the raw destination: it answers an incoming stop request as scripted.
func (w *world) stopHandler(c *cli) func(network.Stream) {
	return func(s network.Stream) {
		in := &incoming{at: simrt.Now()}
		c.inbox = append(c.inbox, in)
		if len(c.script) > 0 {
			in.plan = c.script[0]
			c.script = c.script[1:]
		}
		if in.plan == stopResetUnread {
			s.Reset()
			return
		}
		s.SetDeadline(time.Now().Add(150 * time.Second))
		rd := util.NewDelimitedReader(s, maxMsg)
		defer rd.Close()
		var msg pbv2.StopMessage
		if err := rd.ReadMsg(&msg); err != nil {
			in.readErr = err.Error()
			s.Reset()
			return
		}
		if pi, err := util.PeerToPeerInfoV2(msg.GetPeer()); err == nil {
			in.src = pi.ID
		}
		in.limit = msg.GetLimit()
		var rep pbv2.StopMessage
		rep.Type = pbv2.StopMessage_STATUS.Enum()
		rep.Status = pbv2.Status_OK.Enum()
		wr := util.NewDelimitedWriter(s)
		var werr error
		switch in.plan {
		case stopRefuse:
			rep.Status = pbv2.Status_CONNECTION_FAILED.Enum()
			werr = wr.WriteMsg(&rep)
			s.Close()
			return
		case stopDeny:
			rep.Status = pbv2.Status_PERMISSION_DENIED.Enum()
			werr = wr.WriteMsg(&rep)
			s.Close()
			return
		case stopNoStatus:
			rep.Status = nil
			werr = wr.WriteMsg(&rep)
			s.Close()
			return
		case stopWrongType:
			rep.Type = pbv2.StopMessage_CONNECT.Enum()
			rep.Status = nil
			rep.Peer = &pbv2.Peer{Id: []byte(c.nd.ID)}
			werr = wr.WriteMsg(&rep)
			in.stream = s
			return
		case stopGarbage:
			_, werr = s.Write([]byte{5, 0xff, 0xff, 0xff, 0xff, 0xff})
			in.stream = s
			return
		case stopOversized:
			_, werr = s.Write([]byte{0xff, 0xff, 0x03, 1, 2, 3})
			in.stream = s
			return
		case stopReset:
			s.Reset()
			return
		case stopClose:
			s.Close()
			return
		case stopSilent:
			in.stream = s
			return
		case stopDisconnect:
			simrt.GoNamed("stop-disconnect", func() { c.nd.Swarm.ClosePeer(w.R.nd.ID) })
			return
		}
		if in.plan == stopSlowAccept {
			simrt.TimeSleep(time.Second)
		}
		werr = wr.WriteMsg(&rep)
		if werr != nil {
			in.readErr = "write: " + werr.Error()
			s.Reset()
			return
		}
		s.SetDeadline(time.Time{})
		if in.plan == stopAcceptReset {
			s.Reset()
			return
		}
		in.stream = s
	}
}

// arm installs the resource-manager / I/O fault of op (if any) right before it runs.
func (w *world) arm(op opT, src, dst *cli) {
	switch op.fault {
	case faultTag:
		t, tag := src, "relay-reservation"
		if op.kind != opReserve {
			tag = "relay-v2-hop"
			if op.ioOnDst && dst != nil {
				t = dst
			}
		}
		w.cmw.peer, w.cmw.tag = t.nd.ID, tag
		w.cmw.hook = func() {
			simrt.GoNamed("tag-race-disconnect", func() { t.nd.Swarm.ClosePeer(w.R.nd.ID) })
		}
	case faultRc:
		if op.rcSite == "SvcSpan" || op.rcSite == "SvcMemory" {
			w.svc.arm(op.rcSite, op.rcN)
		} else {
			w.rw.Arm(op.rcSite, op.rcN)
		}
	case faultIO:
		t := src
		if op.ioOnDst && dst != nil {
			t = dst
		}
		if t == nil {
			return
		}
		if len(t.rawConns) == 0 || t.rawConns[len(t.rawConns)-1].Stats().Closed {
			if w.cfg.cold && t == src {
				w.pendingIO = &pendingIO{cl: t, kind: op.ioKind, k: op.ioK}
			}
			return
		}
		cn := t.rawConns[len(t.rawConns)-1]
		end := cn
		if op.ioK%2 == 0 {
			end = cn.Peer() // the relay's end
		}
		w.armIO(end, op.ioKind, end.Stats().Calls+(op.ioK+1)/2)
	}
}

type pendingIO struct {
	cl   *cli
	kind simnet.FaultKind
	k    int
}

func (w *world) armIO(end *simnet.Conn, kind simnet.FaultKind, target int) {
	w.ioEnd = end
	end.SetOnCall(func(call int, _ bool) {
		if call == target {
			end.InjectFault(simnet.Fault{Kind: kind, AtCall: call})
		}
	})
}

// prep gets an actor ready: warm runs (re)connect it and wait for quiescence first; cold runs leave a
// disconnected client alone, its request dials by itself (first contact inside the request).
func (w *world) prep(cl *cli) bool {
	if w.cfg.cold && !cl.relayed && cl.nd.Swarm.Connectedness(w.R.nd.ID) == network.NotConnected {
		cl.nd.Swarm.Backoff().Clear(w.R.nd.ID)
		w.o.Probe("cold-first-contact-in-request")
		return true
	}
	return w.ensure(cl)
}

// ipsFor: the source IP(s) the relay sees (will see, for a client that dials inside its request).
func (w *world) ipsFor(cl *cli) []string {
	if ips := w.ipsSeen(cl); len(ips) > 0 {
		return ips
	}
	if ip := net.ParseIP(cl.dialer.LocalIP); ip != nil && !cl.relayed {
		return []string{ip.String()}
	}
	return nil
}

// disarm removes the fault and reports whether it fired.
func (w *world) disarm(op opT, firedBefore map[string]int) bool {
	fired := false
	switch op.fault {
	case faultTag:
		fired = w.cmw.Fired > firedBefore["tag"]
		w.cmw.hook = nil
	case faultRc:
		fired = w.svc.Fired+w.rw.Fired > firedBefore["rc"]
		w.svc.disarm()
		w.rw.Arm("", 0)
	case faultIO:
		n := 0
		for _, v := range w.n.FaultsFired() {
			n += v
		}
		fired = n > firedBefore["io"]
		w.pendingIO = nil
		if w.ioEnd != nil {
			w.ioEnd.SetOnCall(nil)
			w.ioEnd = nil
		}
	}
	return fired
}

func (w *world) firedCounts() map[string]int {
	n := 0
	for _, v := range w.n.FaultsFired() {
		n += v
	}
	return map[string]int{"rc": w.svc.Fired + w.rw.Fired, "io": n, "tag": w.cmw.Fired}
}
