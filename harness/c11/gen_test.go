package c11

import (
	"fmt"
	"time"

	"verifsim/simnet"
	"verifsim/simrt"
)

// Everything a run does is drawn here, before the simulation starts (0 = simplest choice).

const (
	opReserve = iota
	opConnect
	opAdvance
	opDisconnect
	opMove
	opCloseCirc
	opConnectReal
	opBatch
	opXDirect     // X (connected through R2) additionally dials the relay directly
	opXDropDirect // X closes its direct connection(s); the relayed one stays
)

var opNames = [...]string{"RESERVE", "CONNECT", "ADVANCE", "DISCONNECT", "MOVE", "CLOSE-CIRCUIT", "CONNECT-REAL", "BATCH", "X-ADD-DIRECT", "X-DROP-DIRECT"}

const (
	faultNone = iota
	faultHop  // byzantine source (CONNECT) / client that never reads the answer (RESERVE)
	faultStop // byzantine destination
	faultRc   // resource manager refusal on the relay
	faultIO   // the TCP connection of a party dies at its k-th I/O call from now
	faultTag  // the relay task is held for 1 ms inside its ConnManager.TagPeer call for this request while the tagged peer disconnects
)

var rcSites = []string{"SvcSpan", "SvcMemory", "OpenStream", "SetService", "StreamMemory", "SetProtocol"}

type opT struct {
	kind      int
	a, b      int
	raw       bool // RESERVE through the hand-written client instead of client.Reserve
	fwd, back int  // payload size selectors
	hold      bool
	fault     int
	hop       hopPlan
	stop      stopPlan
	rcSite    string
	rcN       int
	ioKind    simnet.FaultKind
	ioOnDst   bool
	ioK       int
	dt        int // ADVANCE selector
	keep      bool
	refresh   bool // MOVE followed by a refresh
	closeHow  int
	sub       []opT
}

type cfgT struct {
	secu     string
	mode     simnet.LinkMode
	stratum  int // 0 sequential fault-free, 1 sequential with faults, 2 concurrent batches (fault-free)
	maxRes   int
	perIP    int
	perASN   int
	v6       bool
	pool     []string
	maxCirc  int
	ttl      time.Duration
	limited  bool
	limData  int
	limDur   time.Duration
	bufSize  int
	denyRsv  int // client whose reservations the ACL refuses (-1 none)
	denySrc  int // (src,dst) pair whose circuits the ACL refuses (-1 none)
	denyDst  int
	nCl      int
	home     []string
	alt      []string
	realStop []bool
	withX    bool // one more client (index nCl) that reaches the relay through relay R2
	r2Lim    bool
	cold     bool // no warm-up: clients are not connected beforehand, the prologue may carry faults (first contact inside the requests)
	mixed    bool // X may also hold a direct connection (added / dropped by operations)
	nPro     int
	ops      []opT
}

var ipPool4 = []string{"1.2.3.4", "1.2.3.5", "6.7.8.9"}

// with IPv6 sources the per-ASN cap applies (the relay looks up the AS of IPv6 addresses only): two
// addresses of one AS (Google), one of another (Facebook) and one IPv4 address
var ipPool6 = []string{"2001:4860:4860::8888", "1.2.3.4", "2001:4860:4860::8844", "2a03:2880:f003:c07:face:b00c:0:2"}

func (c *cfgT) nAll() int {
	if c.withX {
		return c.nCl + 1
	}
	return c.nCl
}

func (c *cfgT) name(i int) string {
	if i == c.nCl {
		return "X"
	}
	return fmt.Sprintf("c%d", i)
}

func (c *cfgT) String() string {
	lim := "unlimited"
	if c.limited {
		lim = fmt.Sprintf("limit(data=%d,dur=%v)", c.limData, c.limDur)
	}
	s := fmt.Sprintf("cold=%v sec=%s link=%d stratum=%d maxRes=%d perIP=%d perASN=%d maxCirc=%d ttl=%v %s buf=%d acl(rsv=%d,conn=%d>%d) clients=", c.cold, c.secu, c.mode, c.stratum,
		c.maxRes, c.perIP, c.perASN, c.maxCirc, c.ttl, lim, c.bufSize, c.denyRsv, c.denySrc, c.denyDst)
	for i := 0; i < c.nCl; i++ {
		k := "raw"
		if c.realStop[i] {
			k = "real"
		}
		s += fmt.Sprintf("[c%d %s alt %s %s]", i, c.home[i], c.alt[i], k)
	}
	if c.withX {
		s += fmt.Sprintf("[X via R2 limited=%v mixed=%v]", c.r2Lim, c.mixed)
	}
	return s
}

func drawCfg(g simrt.Gen) *cfgT {
	c := &cfgT{}
	c.secu = []string{"insecure", "noise"}[g.Weighted(3, 1)]
	c.mode = []simnet.LinkMode{simnet.Whole, simnet.Fragment}[g.Weighted(3, 1)]
	c.stratum = g.Weighted(4, 4, 3)
	c.maxRes = 1 + g.Int(4)
	c.perIP = 1 + g.Int(2)
	c.v6 = g.Chance(1, 3)
	c.pool, c.perASN = ipPool4, 1000
	if c.v6 {
		c.pool, c.perASN = ipPool6, 1+g.Int(2)
	}
	c.maxCirc = 1 + g.Int(2)
	c.ttl = []time.Duration{60 * time.Second, 45 * time.Second, 90 * time.Second}[g.Int(3)]
	c.limited = !g.Chance(1, 4)
	c.limData = []int{1024, 2048, 4096, 1500}[g.Int(4)]
	c.limDur = []time.Duration{10 * time.Second, 20 * time.Second, 30 * time.Second}[g.Int(3)]
	c.bufSize = []int{256, 64, 1024, 2048}[g.Int(4)]
	c.nCl = 3 + g.Int(3)
	c.denyRsv, c.denySrc, c.denyDst = -1, -1, -1
	switch g.Weighted(3, 1, 1, 1) {
	case 1:
		c.denyRsv = g.Int(c.nCl)
	case 2:
		c.denySrc = g.Int(c.nCl)
		c.denyDst = (c.denySrc + 1 + g.Int(c.nCl-1)) % c.nCl
	case 3:
		c.denyRsv = g.Int(c.nCl)
		c.denySrc = g.Int(c.nCl)
		c.denyDst = (c.denySrc + 1 + g.Int(c.nCl-1)) % c.nCl
	}
	for i := 0; i < c.nCl; i++ {
		h := g.Int(len(c.pool))
		c.home = append(c.home, c.pool[h])
		c.alt = append(c.alt, c.pool[(h+1+g.Int(len(c.pool)-1))%len(c.pool)])
		c.realStop = append(c.realStop, g.Chance(1, 3))
	}
	c.withX = g.Chance(1, 4)
	c.r2Lim = g.Bool()
	c.mixed = c.withX && !g.Chance(1, 3)
	// prologue: the first clients reserve, so that later CONNECTs mostly aim at reservation holders
	c.nPro = 1 + g.Int(3)
	c.cold = g.Chance(1, 3)
	for i := 0; i < c.nPro; i++ {
		op := opT{kind: opReserve, a: i, raw: g.Bool()}
		if c.cold && c.stratum == 1 {
			// cold runs: the very first hop stream / reservation / connection may already meet the fault
			op.fault = []int{faultNone, faultHop, faultRc, faultIO, faultTag}[g.Weighted(3, 1, 1, 2, 1)]
			drawFaultArgs(g, &op)
		}
		c.ops = append(c.ops, op)
	}
	nOps := 3 + g.Int(9)
	for i := 0; i < nOps; i++ {
		c.ops = append(c.ops, drawOp(g, c, c.stratum == 2))
	}
	return c
}

func drawOp(g simrt.Gen, c *cfgT, batchOK bool) opT {
	var op opT
	wBatch := 0
	if batchOK {
		wBatch = 8
	}
	wX := 0
	if c.mixed {
		wX = 4
	}
	op.kind = g.Weighted(7, 7, 3, 2, 3, 2, 2, wBatch, wX, wX)
	op.a, op.b = drawPair(g, c)
	switch op.kind {
	case opReserve:
		op.raw = g.Bool()
		if c.stratum == 1 {
			op.fault = []int{faultNone, faultHop, faultRc, faultIO, faultTag}[g.Weighted(4, 1, 1, 1, 2)]
		}
	case opConnect:
		op.fwd, op.back = g.Int(8), g.Int(8)
		op.hold = g.Chance(2, 5)
		if c.stratum == 1 {
			op.fault = g.Weighted(3, 3, 4, 3, 2, 2)
		}
	case opAdvance:
		op.dt = g.Int(7)
	case opMove:
		op.keep = !g.Chance(1, 3)
		op.refresh = !g.Chance(1, 4)
		op.raw = g.Bool()
	case opCloseCirc:
		op.closeHow = g.Int(3)
	case opXDirect, opXDropDirect:
		op.a = c.nCl
		op.b = g.Int(c.nCl)
		op.refresh = !g.Chance(1, 4) // followed by RESERVE(X) / by a CONNECT to X
		op.raw = g.Bool()
	case opBatch:
		k := 2 + g.Int(3)
		if g.Chance(1, 3) {
			// a RESERVE racing the disconnect of the same client and nothing else of that client: whichever is handled
			// first, the relay must end up with reservation and connection-manager tag both present or both absent
			op.sub = append(op.sub, opT{kind: opReserve, a: op.a, raw: g.Bool(), hold: true}, opT{kind: opDisconnect, a: op.a, hold: true})
			k = g.Int(2)
		}
		for i := 0; i < k; i++ {
			var s opT
			s.kind = []int{opReserve, opConnect, opDisconnect}[g.Weighted(4, 4, 1)]
			s.a, s.b = drawPair(g, c)
			s.raw = g.Bool()
			s.hold = true
			if len(op.sub) >= 2 && op.sub[1].kind == opDisconnect && op.sub[0].a == op.sub[1].a && (s.a == op.sub[0].a || (s.kind == opConnect && s.b == op.sub[0].a)) {
				continue // keep the racing client free of other actions
			}
			op.sub = append(op.sub, s)
		}
	}
	drawFaultArgs(g, &op)
	return op
}

func drawFaultArgs(g simrt.Gen, op *opT) {
	switch op.fault {
	case faultHop:
		op.hop = hopPlan(1 + g.Int(int(nHopPlans)-1))
	case faultStop:
		op.stop = stopPlan(1 + g.Int(int(nStopPlans)-1))
	case faultRc:
		op.rcSite = rcSites[g.Int(len(rcSites))]
		op.rcN = 1 + g.Int(3)
	case faultIO:
		op.ioKind = []simnet.FaultKind{simnet.Reset, simnet.EOF, simnet.Stall}[g.Weighted(3, 3, 1)]
		op.ioOnDst = g.Bool()
		op.ioK = 1 + g.Int(12)
	case faultTag:
		op.ioOnDst = g.Bool()
	}
}

// drawPair draws an actor a and a distinct partner b; three times out of four b is one of the
// clients that reserved in the prologue.
func drawPair(g simrt.Gen, c *cfgT) (int, int) {
	n := c.nAll()
	a := g.Int(n)
	b := (a + 1 + g.Int(n-1)) % n
	if g.Chance(3, 4) {
		b = g.Int(c.nPro)
		if a == b {
			a = (b + 1 + g.Int(n-1)) % n
		}
	}
	return a, b
}

func (c *cfgT) size(sel int) int {
	l := 2048
	if c.limited {
		l = c.limData
	}
	return []int{100, l, l + 1, l - 1, 0, 1, l + 700, 2*l + 3}[sel]
}

func (c *cfgT) advance(sel int) time.Duration {
	return []time.Duration{5 * time.Second, 31 * time.Second, c.ttl + time.Second, 15 * time.Second, c.ttl / 2, 61 * time.Second, c.ttl + gcSlack + time.Second}[sel]
}

func (c *cfgT) opString(op opT) string {
	s := opNames[op.kind]
	switch op.kind {
	case opReserve:
		s += fmt.Sprintf("(%s raw=%v)", c.name(op.a), op.raw)
	case opConnect:
		s += fmt.Sprintf("(%s->%s fwd=%d back=%d hold=%v)", c.name(op.a), c.name(op.b), c.size(op.fwd), c.size(op.back), op.hold)
	case opConnectReal:
		s += fmt.Sprintf("(%s->%s)", c.name(op.a), c.name(op.b))
	case opAdvance:
		s += fmt.Sprintf("(%v)", c.advance(op.dt))
	case opDisconnect:
		s += fmt.Sprintf("(%s)", c.name(op.a))
	case opMove:
		s += fmt.Sprintf("(%s keep=%v refresh=%v)", c.name(op.a), op.keep, op.refresh)
	case opCloseCirc:
		s += fmt.Sprintf("(#%d how=%d)", op.a, op.closeHow)
	case opXDirect:
		s += fmt.Sprintf("(then reserve=%v)", op.refresh)
	case opXDropDirect:
		s += fmt.Sprintf("(then connect from %s=%v)", c.name(op.b), op.refresh)
	case opBatch:
		s += "{"
		for i, x := range op.sub {
			if i > 0 {
				s += " || "
			}
			s += c.opString(x)
		}
		s += "}"
	}
	switch op.fault {
	case faultHop:
		if op.kind == opReserve {
			s += " fault=client-never-reads-reply"
		} else {
			s += " fault=hop:" + op.hop.String()
		}
	case faultStop:
		s += " fault=stop:" + op.stop.String()
	case faultRc:
		s += fmt.Sprintf(" fault=rcmgr:%s#%d", op.rcSite, op.rcN)
	case faultIO:
		side := "source"
		if op.ioOnDst {
			side = "destination"
		}
		s += fmt.Sprintf(" fault=io:%s@%s-conn+%d", op.ioKind, side, op.ioK)
	case faultTag:
		side := "source"
		if op.ioOnDst && op.kind != opReserve {
			side = "destination"
		}
		s += " fault=disconnect-of-" + side + "-while-relay-is-in-TagPeer"
	}
	return s
}

func faultClass(op opT) string {
	switch op.fault {
	case faultHop:
		if op.kind == opReserve {
			return "reserve-reply-unread"
		}
		return "hop-" + op.hop.String()
	case faultStop:
		return "stop-" + op.stop.String()
	case faultRc:
		return "rcmgr-" + op.rcSite
	case faultIO:
		return "io-" + op.ioKind.String()
	case faultTag:
		if op.kind == opReserve {
			return "tag-race-reservation"
		}
		return "tag-race-hop"
	}
	return "none"
}
