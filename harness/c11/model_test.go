package c11

import (
	"net"
	"sort"
	"time"

	asnutil "github.com/libp2p/go-libp2p-asn-util"
	"github.com/libp2p/go-libp2p/core/network"
)

// Reference model of what the relay is allowed to do, three-valued where the statement leaves
// room (documented weaker readings):
//
//   - a reservation is DEFINITELY live from its grant until its expiry (lower bound lo) unless its
//     peer disconnected; from expiry until "collected for sure" (upper bound hi + gcSlack) it MAY
//     still serve CONNECTs and MAY still count against the caps ("at the next collection");
//   - a RESERVE whose answer the client never saw may or may not have produced a reservation;
//   - "neither party reached the relay through another relay" is read per REQUEST: the connection that carried
//     the destination's RESERVE and the one that carries the source's CONNECT must be direct (a destination that
//     reserved directly and later is reachable only through an unlimited second relay is not driven);
//   - a circuit is definitely open between the OK reply and the first event that can end it
//     (an end closed/reset by the harness, a party disconnecting, the duration limit).
const gcSlack = 2*time.Minute + 5*time.Second

type counted int

const (
	cntYes     counted = iota // counted against the caps
	cntRefused                // a refresh of this live reservation was REFUSED (DESIGN section 9, c2): the implementation stops counting it
	cntUnknown                // an unanswered request may have been a refused refresh
)

type rsvM struct {
	ips     []string      // source IP(s) the reservation may have been made from
	lo, hi  time.Duration // bounds on the expiry instant chosen by the relay
	sure    bool          // false: the reservation may not exist at all
	counted counted
}

type circ struct {
	id         int
	s, d       int
	ss, ds     network.Stream
	fw, bw     *sink // fw: bytes arriving at the destination, bw: bytes arriving at the source
	lo, hi     time.Duration
	state      int // 0 definitely open, 1 maybe open, 2 closed
	durChecked bool
}

const (
	circOpen = iota
	circMaybe
	circClosed
)

type model struct {
	rsv   map[int]*rsvM
	why   map[int]string // why a client holds no reservation
	circs []*circ
}

func newModel() *model { return &model{rsv: map[int]*rsvM{}, why: map[int]string{}} }

func (m *model) keys() []int {
	var k []int
	for i := range m.rsv {
		k = append(k, i)
	}
	sort.Ints(k)
	return k
}

func (m *model) whyNone(i int) string {
	if s := m.why[i]; s != "" {
		return s
	}
	return "never-reserved"
}

// purge forgets reservations that have certainly been collected.
func (m *model) purge(now time.Duration) {
	for _, i := range m.keys() {
		if now > m.rsv[i].hi+gcSlack {
			delete(m.rsv, i)
			m.why[i] = "after-expiry-and-collection"
		}
	}
}

func (m *model) defLive(i int, t1 time.Duration) bool {
	r := m.rsv[i]
	return r != nil && r.sure && t1 < r.lo
}

func (m *model) maybeThere(i int, t0 time.Duration) bool {
	r := m.rsv[i]
	return r != nil && t0 <= r.hi+gcSlack
}

func contains(l []string, s string) bool {
	for _, x := range l {
		if x == s {
			return true
		}
	}
	return false
}

func union(a, b []string) []string {
	out := append([]string(nil), a...)
	for _, x := range b {
		if !contains(out, x) {
			out = append(out, x)
		}
	}
	sort.Strings(out)
	return out
}

// asnOf is the autonomous system the relay's library attributes to an address (0 for IPv4 and for
// IPv6 addresses it does not know): an environment fact the model needs, not relay logic.
func asnOf(ip string) uint32 {
	p := net.ParseIP(ip)
	if p == nil || p.To4() != nil {
		return 0
	}
	return asnutil.AsnForIPv6(p)
}

func sameAS(a, b []string) bool {
	for _, x := range a {
		for _, y := range b {
			if asnOf(x) != 0 && asnOf(x) == asnOf(y) {
				return true
			}
		}
	}
	return false
}

type capCount struct{ def, defIP, defAS, c2, c2IP, c2AS, may, mayIP, mayAS int }

// count tallies the reservations of peers other than `self` over [t0,t1] (peers in `skip` disconnect concurrently):
// def = certainly live and counted, c2 = certainly live but a refresh was refused, may = possibly
// still known to the relay. ips are the possible source IPs of the request being judged.
func (m *model) count(self int, ips []string, t0, t1 time.Duration, skip map[int]bool) capCount {
	var c capCount
	for _, q := range m.keys() {
		if q == self {
			continue
		}
		r := m.rsv[q]
		// a peer that disconnects in the same concurrent batch may leave before OR after the request is handled:
		// it cannot be relied on to be counted (def, c2) but may well still be counted (may)
		live := r.sure && t1 < r.lo && !skip[q]
		onIP := len(r.ips) == 1 && len(ips) == 1 && r.ips[0] == ips[0]
		onAS := len(r.ips) == 1 && len(ips) == 1 && asnOf(ips[0]) != 0 && asnOf(r.ips[0]) == asnOf(ips[0])
		if live && r.counted == cntYes {
			c.def++
			if onIP {
				c.defIP++
			}
			if onAS {
				c.defAS++
			}
		}
		if live && r.counted == cntRefused {
			c.c2++
			if onIP {
				c.c2IP++
			}
			if onAS {
				c.c2AS++
			}
		}
		if t0 <= r.hi+gcSlack {
			c.may++
			for _, ip := range ips {
				if contains(r.ips, ip) {
					c.mayIP++
					break
				}
			}
			if sameAS(r.ips, ips) {
				c.mayAS++
			}
		}
	}
	return c
}

func (m *model) cntDef(p int) int {
	n := 0
	for _, c := range m.circs {
		// "definitely open": established, nothing that can end it has happened, and both ends the harness holds
		// are still waiting for data
		if c.state == circOpen && (c.s == p || c.d == p) && c.fw != nil && !c.fw.done && !c.bw.done {
			n++
		}
	}
	return n
}

func (m *model) cntMaybe(p int) int {
	n := 0
	for _, c := range m.circs {
		if c.state != circClosed && (c.s == p || c.d == p) {
			n++
		}
	}
	return n
}

func (m *model) anyCircuit() bool {
	for _, c := range m.circs {
		if c.state != circClosed {
			return true
		}
	}
	return false
}
