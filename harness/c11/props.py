# orchestrator configuration of the C11 check (loaded by tools/props.py)
from stack import FULL_STACK, FULL_DEPS

SPEC = dict(
    pkg="./harness/c11",
    instrument=FULL_STACK + ["./p2p/protocol/circuitv2/relay", "./p2p/protocol/circuitv2/client", "./p2p/protocol/circuitv2/util"],
    deps=FULL_DEPS,
    level="exploration",
    level_text=("seeded search over histories x fault positions x schedules of a REAL circuit-v2 relay (relay.New on a basic host "
                "with real resource manager and BasicConnMgr) serving 3-5 real client hosts on a simulated TCP network; a reference "
                "model of reservations / circuits decides which status codes, byte counts and end times are allowed; relay "
                "service scope, connection-manager tags and fresh-reservation / fresh-circuit capacity are audited at quiescence. "
                "Sampling, not proof."),
    level_note=("trusted: testing/synctest, simnet's TCP model, the overlay rewrite, the harness model; weaker readings: a reservation "
                "that expired but may not have been collected yet may or may not serve a CONNECT / count against caps; collection is "
                "assumed to happen within 2 minutes of expiry; IPv6-sourced clients (per-ASN cap) dial the relay's IPv4 listener, which only simnet allows"),
    technique="deterministic simulation with fault injection: full stack on simnet, lock-level scheduling, reference model + audits",
    design_ref="DESIGN.md section 6 (C11), section 9 (c2)",
    quick_s=60, thorough_s=600,
    rule=("one run = one tape: warm or cold start (cold: no connection / identify before the first request, faults allowed in the prologue), relay resources (MaxReservations 1-4, per-IP 1-2, per-ASN 1-2 when IPv6 sources are drawn, MaxCircuits 1-2, TTL, data / duration limit or "
          "unlimited), ACL, population (3-5 clients on shared / distinct public IPs, raw or real circuit clients, optional client "
          "that reaches the relay through a second relay and may add / drop a direct connection next to the relayed one), a history of 4-12 operations (RESERVE real / raw, refresh, move to "
          "another IP, CONNECT raw with payloads around the limit and scripted hop / stop misbehaviour or resource refusal, "
          "CONNECT through the real client transport, hold past the duration limit, disconnect, clock advance, concurrent "
          "batches) and the schedule; non-trivial = at least one reservation granted and one CONNECT attempted; distinct = "
          "distinct (configuration, operation/result history, scheduler decision hash)"),
    probes=["batch", "refresh-granted", "refresh-from-other-ip-granted", "refresh-refused-while-holding", "moved-keeping-reservation",
            "reserve-refused-total-cap", "reserve-refused-per-ip-cap", "reserve-refused-per-asn-cap", "reserve-refused-acl", "reserve-refused-relayed",
            "connect-refused-acl", "connect-refused-relayed", "circuit-cap-hit-source", "circuit-cap-hit-destination",
            "no-reservation-never-reserved", "no-reservation-after-disconnect", "no-reservation-after-expiry-and-collection",
            "connect-ok-on-expired-uncollected-or-uncertain", "disconnect-of-reservation-holder",
            "data-limit-hit-forward", "data-limit-hit-backward", "data-exactly-at-limit-forward", "data-exactly-at-limit-backward",
            "duration-limit-hit", "cold-first-contact-in-request", "batch-disconnect-races-own-request", "probe-connect-after-disconnect-race", "x-direct-and-relayed", "x-reservation-dropped-limited-connection-remains",
            "x-reservation-kept-unlimited-relayed-connection", "real-connect-ok", "real-echo-ok", "connection-failed"],
    real=["ALL of the following run as tasks of the seeded scheduler (instrumented)", "circuitv2 relay (relay.go, constraints.go)",
          "circuitv2 client (Reserve, transport dial / listen / stop handler)", "basic host, identify", "swarm", "tcp transport dial path",
          "upgrader + listener", "noise / insecure", "multistream-select", "yamux", "resource manager (real, infinite limits) behind "
          "refusing wrappers", "BasicConnMgr on the relay", "pstoremem", "eventbus"],
    stubs=["wire: simnet TCP model", "ACL filter scripted by the harness", "byzantine sources / destinations speaking raw hop / stop messages",
           "refusing resource-manager wrappers (delegate to the real one)",
           "connection-manager wrapper that can hold one TagPeer call of the relay for 1 ms (delegates to the real BasicConnMgr)"],
    assume=["virtual clock of testing/synctest", "reservation collection happens at least every 2 minutes"],
)
