# orchestrator configuration of the C18 check (loaded by tools/props.py)
SPEC = dict(
    mode="B",
    pkg="./p2p/transport/webtransport",
    overlay_add={"p2p/transport/webtransport/zz_verifsim_test.go": "harness/c18/zz_verifsim_test.go"},
    level="exploration",
    level_text=("seeded search over (host key, start instant, sampling schedule, stop/restart plan) trajectories of the real "
                "certManager on a virtual clock, and over generated certificate/hash-list pairs presented to the real "
                "verifyRawCerts at drawn clock offsets; per-sample oracles derived from the statement. Sampling, not proof."),
    level_note=("trusted: testing/synctest fake clock (benbjohnson/clock.New() is a thin wrapper over package time, hence "
                "virtual inside the bubble), crypto/x509 parsing of the served leaf, the harness oracles; the harness is "
                "compiled into the package under test through a build overlay, /repo is not modified; simulated_time_s is a lower "
                "bound (each worker stops adding after 140 years so that the worker's int64 nanosecond sum cannot wrap)"),
    technique="deterministic simulation: real certManager + verifyRawCerts in a synctest bubble, in-package harness via overlay, sampled-instant oracles",
    design_ref="DESIGN.md section 6 (C18)",
    quick_s=30, thorough_s=300,
    rule=("one run = one tape. Stratum T (3/4): tape-derived Ed25519 host key (=> bucket offset), optional epoch shift, start "
          "instant drawn relative to the key's bucket grid (exactly on / +-1ns / +-1ms / +-1s / within +-skew of a roll-over "
          "instant, a bucket boundary or a certificate expiry, or uniform in a period), 1-14 sampling advances (1ns .. one "
          "period; biased to land exactly on, 1ns before, 1ns after, +-skew around the next roll-over instant) across at most "
          "maxRoll in 0..6 roll-overs with never more than one switch between consecutive samples, 0-2 Close()+restart with the "
          "same key after a drawn gap (0 .. four periods, or aimed at a roll-over instant); all oracles at every sample. "
          "Stratum V (1/4): 1-6 certificate/hash-list pairs at drawn clock offsets (valid incl. boundary instants and exactly "
          "14 days; hash absent / other multihash function / same digest under another code / flipped bit / truncated; "
          "expired; not yet valid; > 14 days; RSA PKCS#1, RSA-PSS, RSA subject key; empty chain; two-certificate chains), "
          "verdict compared with the statement's rule. non-trivial = T: >=2 samples and (>=1 roll-over observed or >=1 "
          "restart), V: >=1 pair judged; distinct = distinct signature (start offset, per-sample incarnation / certificate "
          "index / instant / advertised-set sizes, restart gaps; per-pair features and verdict)"),
    probes=["sample-exactly-at-rollover-instant", "sample-1ns-before-rollover", "sample-1ns-after-rollover",
            "start-exactly-on-rollover-instant", "start-within-skew-of-boundary",
            "restart-in-third-0", "restart-in-third-1", "restart-in-third-2", "restart-exactly-at-rollover-instant",
            "restart-serves-same-certificate", "restart-serves-announced-next", "restart-serves-later-certificate",
            "learned-addr-checked-across-restart", "restart-drops-previous-period-hash", "rollovers>=3", "rollovers>=6",
            "verifier-valid", "verifier-hash-not-listed-as-sha2-256", "verifier-expired", "verifier-not-yet-valid",
            "verifier-lifetime-over-14-days", "verifier-rsa", "verifier-rsa-pss", "verifier-rsa-subject-key",
            "verifier-empty-chain", "verifier-chain-pinned-cert-not-first"],
    real=["p2p/transport/webtransport: certManager (cert_manager.go), generateCert/getTLSConf/verifyRawCerts (crypto.go), "
          "extractCertHashes/addrComponentForCert (multiaddr.go)", "benbjohnson/clock (real clock on the bubble's fake time)",
          "crypto/x509, crypto/ecdsa, filippo.io/keygen, x/crypto/hkdf"],
    stubs=[],
    assume=["synctest fake clock and quiescence detection (Go 1.25.7)",
            "gap: the dialer's in-handshake confirmation of the certificate hashes (transport.upgrade) needs a live WebTransport "
            "session and is not executed; it is modelled at the level of hash sets (learned address subset of SerializedCertHashes)"],
)
ENABLED = True
