# orchestrator configuration of the C18 check (loaded by tools/props.py)
SPEC = dict(
    mode="B",
    pkg="./p2p/transport/webtransport",
    overlay_add={"p2p/transport/webtransport/zz_verifsim_test.go": "harness/c18/zz_verifsim_test.go"},
    level="exploration",
    level_text=("seeded search over (host key, start instant, sampling schedule, stop/restart plan) trajectories of the real "
                "certManager on a virtual clock, and over generated certificate/hash-list pairs presented to the real "
                "verifyRawCerts at drawn clock offsets, and over dialled addresses (1-4 certhashes: served / next / previous / "
                "stale / foreign / bogus, positions drawn) with the real dialer against the real listener across roll-overs "
                "and restarts; oracles derived from the statement. Sampling, not proof."),
    level_note=("trusted: testing/synctest fake clock (benbjohnson/clock.New() is a thin wrapper over package time, hence "
                "virtual inside the bubble), crypto/x509 parsing of the served leaf, the harness oracles; the harness is "
                "compiled into the package under test through a build overlay, /repo is not modified; the dial stratum is "
                "message level: quic-go, http3, webtransport-go and Noise run un-instrumented inside the bubble over the in-memory "
                "UDP network github.com/marcopolo/simnet (fault free), only dial outcomes are observed; simulated_time_s is a lower "
                "bound (each worker stops adding after 140 years so that the worker's int64 nanosecond sum cannot wrap)"),
    technique="deterministic simulation: real certManager, verifyRawCerts and WebTransport dialer/listener in a synctest bubble, in-package harness via overlay, sampled-instant and dial-outcome oracles",
    design_ref="DESIGN.md section 6 (C18)",
    quick_s=30, thorough_s=300,
    rule=("one run = one tape. Stratum T (3/5): tape-derived Ed25519 host key (=> bucket offset), optional epoch shift, start "
          "instant drawn relative to the key's bucket grid (exactly on / +-1ns / +-1ms / +-1s / within +-skew of a roll-over "
          "instant, a bucket boundary or a certificate expiry, or uniform in a period), 1-14 sampling advances (1ns .. one "
          "period; biased to land exactly on, 1ns before, 1ns after, +-skew around the next roll-over instant) across at most "
          "maxRoll in 0..6 roll-overs with never more than one switch between consecutive samples, 0-2 Close()+restart with the "
          "same key after a drawn gap (0 .. four periods, or aimed at a roll-over instant); all oracles at every sample. "
          "Fault stratum of T (1/3 of T runs, drawn apart): the manager runs on a clock whose Now() = bubble clock + offset while "
          "its timers stay on the bubble clock; at drawn steps the offset jumps forward by 1 min / 59 min / 61 min / 90 min / 5 h / "
          "2 d / 20 d (suspend, VM pause, wall-clock step: a timer armed before the jump fires late by the jump in wall time); "
          "every oracle is judged in wall time; only while a roll-over is overdue because the pending timer was delayed by jumps "
          "(from the due instant until due + jumps since the timer was armed, computed from the documented roll-over rule) the "
          "valid-until oracle and the one-switch-between-samples assumption are suspended - after that firing everything must "
          "hold again for good. "
          "Stratum V (1/5): 1-6 certificate/hash-list pairs at drawn clock offsets (valid incl. boundary instants and exactly "
          "14 days; hash absent / other multihash function / same digest under another code / flipped bit / truncated; "
          "expired; not yet valid; > 14 days; RSA PKCS#1, RSA-PSS, RSA subject key; empty chain; two-certificate chains), "
          "verdict compared with the statement's rule. Stratum D (1/5): real server transport (Listen) and client transport "
          "(Dial) on an in-memory UDP network inside the bubble; server start drawn like in T; 1-7 events: advance (as in T), "
          "server restart with the same key, dial of an address exactly as learned at a drawn earlier sample, dial of a "
          "composed address with 1-4 certhashes drawn from {served, next, previous, own certificate of a period two away, "
          "another host's certificate, hash of nothing} at drawn positions; every dial judged against the server's served "
          "certificate and SerializedCertHashes() before and after it; all T oracles at every sample of the server's manager. "
          "non-trivial = T: >=2 samples and (>=1 roll-over observed or >=1 restart), V: >=1 pair judged, D: >=1 dial judged; distinct = distinct signature (start offset, per-sample incarnation / certificate "
          "index / instant / advertised-set sizes, restart gaps; per-pair features and verdict)"),
    probes=["sample-exactly-at-rollover-instant", "sample-1ns-before-rollover", "sample-1ns-after-rollover",
            "start-exactly-on-rollover-instant", "start-within-skew-of-boundary",
            "restart-in-third-0", "restart-in-third-1", "restart-in-third-2", "restart-exactly-at-rollover-instant",
            "restart-serves-same-certificate", "restart-serves-announced-next", "restart-serves-later-certificate",
            "learned-addr-checked-across-restart", "restart-drops-previous-period-hash", "rollovers>=3", "rollovers>=6",
            "clock-jump-longer-than-skew", "clock-jump-longer-than-a-period", "sample-while-rollover-overdue-after-jump",
            "late-rollover-timer-fired", "rollover-after-a-late-one-observed",
            "verifier-valid", "verifier-hash-not-listed-as-sha2-256", "verifier-expired", "verifier-not-yet-valid",
            "verifier-lifetime-over-14-days", "verifier-rsa", "verifier-rsa-pss", "verifier-rsa-subject-key",
            "verifier-empty-chain", "verifier-chain-pinned-cert-not-first",
            "dial-completed", "dial-refused-served-certificate-not-pinned", "dial-refused-unconfirmed-hash",
            "dial-refused-unconfirmed-hash-before-genuine-last", "dial-learned-address-in-following-period",
            "dial-learned-address-refused-after-restart-or-expiry"],
    real=["p2p/transport/webtransport: certManager (cert_manager.go), generateCert/getTLSConf/verifyRawCerts (crypto.go), "
          "extractCertHashes/addrComponentForCert (multiaddr.go), transport.dial/upgrade + listener (dial stratum)", "quicreuse (reuseport disabled), quic-go, quic-go/http3, webtransport-go, p2p/security/noise (un-instrumented, dial stratum)", "benbjohnson/clock (real clock on the bubble's fake time)",
          "crypto/x509, crypto/ecdsa, filippo.io/keygen, x/crypto/hkdf"],
    stubs=["UDP: github.com/marcopolo/simnet in-memory network, 1 ms latency, no loss (dial stratum)"],
    assume=["synctest fake clock and quiescence detection (Go 1.25.7)",
            "clock jumps: forward only (backward steps are not covered by the statement); model = wall-clock Now() + monotonic timers; "
            "verifiers/dialers are assumed to live on the true wall clock; the dial and verifier strata run without jumps "
            "(verifyRawCerts reads time.Now(), which cannot be offset)",
            "dial stratum: the outcome of a fault-free dial (completed / refused at TLS / refused in Noise) does not depend on the "
            "runtime's goroutine interleaving (checked by VERIF_SELFTEST and ./check selftest); dials never start within 5 s before a roll-over",
            "gap: the server in the dial stratum is honest; a relay that owns the certificate behind an injected certhash and pipes the "
            "session to the real server (byzantine path) is not simulated - only the dialer's rule 'every certhash of the dialled address "
            "must be confirmed' is checked against honest servers"],
)
ENABLED = True
