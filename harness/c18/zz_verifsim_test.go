// C18 — WebTransport serves a valid, advertised certificate at all times; dialers pin it.
//
// In-package harness ("mode B"): this file is injected into /repo/p2p/transport/webtransport through the
// go build overlay (never copied into /repo) because the property's observation points are unexported
// (newCertManager, GetConfig, SerializedCertHashes, AddrComponent, verifyRawCerts).
//
// One run = one tape. Stratum 0 drives a real certManager on the bubble's virtual clock (clock.New() inside
// testing/synctest) through a drawn trajectory; stratum 1 presents generated certificate / hash-list pairs
// to verifyRawCerts at drawn clock offsets; stratum 2 (added for the second-round seeds) runs the real dialer
// (transport.Dial -> dial -> verifyRawCerts -> upgrade with its certhash confirmation in the Noise early data)
// against the real listener over an in-memory UDP network inside the bubble, with dialled addresses of 1-4
// certhashes (served / next / previous / stale own / foreign / bogus at drawn positions) across roll-overs and
// server restarts — see the comment above vsDial. The host key is derived from the tape, so a run (including all
// certificate bytes of the ECDSA path) is a pure function of the tape; traces and signatures nevertheless
// contain structural facts only (offsets, indices, outcome classes), never key or hash bytes.
//
// Oracles (from the statement; clock-skew allowance = the package's documented constant clockSkewAllowance):
//   served/valid-since, served/valid-until   NotBefore+skew <= now <= NotAfter-skew at every sample
//   served/lifetime                          NotAfter-NotBefore <= 14 days
//   advertised/served-missing/{serialized,addr}   sha256(served) in SerializedCertHashes() and AddrComponent()
//   advertised/next-missing/{serialized,addr}     when the served certificate changed between two consecutive
//                                            samples (the schedule never lets more than one switch happen in
//                                            between) the new one was advertised at the earlier sample
//   learned-addr/served-not-pinned/{same-incarnation,after-restart}
//                                            an AddrComponent() learned at ANY earlier sample (also before a
//                                            restart) pins the certificate served now, as long as now lies before
//                                            the end of that sample's following certificate period
//   learned-addr/hash-not-confirmed/same-incarnation
//                                            ... and, while the manager keeps running, every hash of that learned
//                                            address is still in SerializedCertHashes() (what the server confirms in
//                                            the Noise handshake; upgrade() refuses the connection otherwise).
//                                            Across a restart this is only a probe (restart-drops-previous-period-hash):
//                                            init() leaves lastConfig nil, so the previous period's hash is no longer
//                                            confirmed; under the weaker reading of the statement ("keeps verifying" =
//                                            the served certificate is pinned by the learned address) that is allowed.
//   determinism/same-bucket-different-cert   same key, same NotBefore => byte-identical certificate, across
//                                            restarts and across current/next slots
//   verifier/accepted/<defect>, verifier/rejected-valid
//                                            verifyRawCerts accepts exactly: non-empty chain, server (first)
//                                            certificate's SHA-256 listed as sha2-256, not RSA, <= 14 days, valid now
//   dial/completed-without-pinned-certificate
//                                            a dial completed although neither the certificate served before nor the
//                                            one served after the dial is among the certhashes of the dialled address
//   dial/completed-with-unconfirmed-hash/{only,first,middle,last}
//                                            a dial completed although a certhash of the dialled address is in
//                                            SerializedCertHashes() neither before nor after the dial ("completes only if
//                                            the server confirms every certificate hash"; every sha2-256 certhash of the
//                                            dialled address would have been accepted by the TLS pinning, so the dialer
//                                            relies on all of them; discriminator = position of the first unconfirmed one)
//   dial/refused-valid-address               a fault-free dial failed although the served certificate did not change
//                                            during it, is pinned by the address, and every certhash of the address is
//                                            confirmed before and after (counterpart of verifier/rejected-valid; includes
//                                            "a learned address keeps verifying" while the manager keeps running)
// Fault: clock jumps (trajectory stratum, drawn apart from the fault-free runs). The manager gets vsJumpClock (Now() =
// bubble clock + offset, timers on the bubble clock); the offset jumps forward at drawn steps. All oracles are judged on
// the jumped wall clock. Relaxation, stated once in vsLateModel: from the instant a roll-over is due until the instant
// the pending timer — armed before the jump(s), hence late by their sum — fires, the manager cannot have rolled; only
// there served/valid-until and advertised/next-missing are suspended. From that firing on everything holds for good;
// a valid-until failure after a jump gets the class served/valid-until/after-clock-jump.
// Weaker readings taken (guide rule 1/6): period ends are exclusive (at the exact roll-over instant either
// certificate may be served); a certificate period ends at NotAfter-skew (package doc comment: "we stop using a
// certificate one clockSkewAllowance before its expiry"); the end of the *following* period is read from the
// manager's announced next certificate; instants in (NotAfter, NotAfter+1s) are "don't care" for the verifier
// (X.509 times have second granularity); for multi-certificate chains only rejection is asserted.
//
// Sensitivity: mutations applied one at a time to overlay copies of cert_manager.go / crypto.go / transport.go /
// multiaddr.go (merged into a private copy of the mode-B overlay; /repo never edited), 4 workers x 10-15 s each.
// Every breaking mutation was reported within the first few hundred runs (< 5 s); class that caught it:
//   cert_manager.go
//     AddrComponent() omits the next certificate            advertised/next-missing/addr, learned-addr/served-not-pinned/*
//     SerializedCertHashes() omits the next certificate     advertised/next-missing/serialized, learned-addr/hash-not-confirmed/same-incarnation
//     previous hash dropped from SerializedCertHashes()     learned-addr/hash-not-confirmed/same-incarnation
//       one period early (lastConfig not listed)
//     init(): no skew subtracted before bucketing           served/valid-since (start within skew of a boundary)
//     init(): skew-1ms subtracted                           served/valid-since (start 1ns before a roll-over instant)
//     init(): start not bucketed (NotBefore = now-skew)     learned-addr/served-not-pinned/after-restart
//     bucket width certValidity instead of validity-2*skew  learned-addr/served-not-pinned/after-restart
//     rollConfig: next starts at End-1*skew                 served/valid-since, learned-addr/served-not-pinned/after-restart
//     rollConfig: next certificate 1 h shorter              determinism/same-bucket-different-cert
//     first timer / timer reset at End instead of End-skew  served/valid-until, advertised/next-missing/*
//     timer reset 1 ms late / 1 ms early                    served/valid-until / served/valid-since (samples 1ns around the roll-over)
//   transport.go
//     certValidity = 15 days                                served/lifetime
//   multiaddr.go
//     addrComponentForCert tags the digest as sha3-256      advertised/served-missing/addr
//   crypto.go
//     deterministicSigner passes the rand reader on         determinism/same-bucket-different-cert (hedged ECDSA signature)
//     verifyRawCerts: lifetime check removed                verifier/accepted/lifetime-over-14-days
//     verifyRawCerts: lifetime check >= instead of >        verifier/rejected-valid
//     verifyRawCerts: NotAfter check removed / +1 h         verifier/accepted/expired
//     verifyRawCerts: NotBefore check removed               verifier/accepted/not-yet-valid
//     verifyRawCerts: all RSA checks removed                verifier/accepted/rsa (+ rsa-pss, rsa-subject-key)
//     verifyRawCerts: PublicKeyAlgorithm check removed      verifier/accepted/rsa-subject-key
//     verifyRawCerts: multihash code not compared           verifier/accepted/hash-not-listed-as-sha2-256
//     verifyRawCerts: last instead of first certificate     verifier/accepted/chain-pinned-cert-not-first
//   transport.go / listener.go (dial stratum)
//     upgrade(): only the LAST certhash of the address      dial/completed-with-unconfirmed-hash/{first,middle} (second-round seed C18b-2)
//       checked (missing overwritten per iteration)
//     upgrade(): only the first certhash checked            dial/completed-with-unconfirmed-hash/{middle,last}
//     upgrade(): confirmation loop skipped                  dial/completed-with-unconfirmed-hash/*
//     dial(): VerifyPeerCertificate returns nil             dial/completed-without-pinned-certificate
//     listener sends only the first of its hashes           dial/refused-valid-address
//     rollConfig(): lastConfig assigned after the caches    learned-addr/hash-not-confirmed/same-incarnation (seed C18b-1)
//   cert_manager.go under clock jumps
//     timer re-armed with the constant period instead of    served/valid-until/after-clock-jump at the first sample after the
//       End-skew-Now() (third-round seed C18c-1)              NEXT due roll-over following a late one (e.g. 1 min jump 1 ns before
//                                                             roll-over #1, sample 1 s after roll-over #2 is due)
//     no immediate catch-up when d <= 0 (waits a period)    served/valid-until/after-clock-jump (after a jump longer than a period)
//   Not caught, by design: key-derived offset dropped (getCurrentBucketStartTime(start, 0)) — all hosts then rotate
//   at the same instants, which the statement does not forbid (equivalent mutant for this property).
// Found on the pinned tree by this harness before the fixes 42df5f3 / 581fd0e: chain-pinned-cert-not-first,
// rsa-pss, rsa-subject-key (all three classes are silent on the fixed tree).
package libp2pwebtransport

import (
	"bytes"
	"context"
	crand "crypto/rand"
	"crypto/rsa"
	"crypto/sha256"
	"crypto/sha512"
	"crypto/x509"
	"crypto/x509/pkix"
	"encoding/binary"
	"fmt"
	"io"
	"log/slog"
	"math/big"
	"net"
	"sort"
	"strings"
	"sync"
	"sync/atomic"
	"testing"
	"time"

	"github.com/benbjohnson/clock"
	ic "github.com/libp2p/go-libp2p/core/crypto"
	"github.com/libp2p/go-libp2p/core/network"
	"github.com/libp2p/go-libp2p/core/peer"
	tpt "github.com/libp2p/go-libp2p/core/transport"
	"github.com/libp2p/go-libp2p/p2p/transport/quicreuse"
	"github.com/marcopolo/simnet"
	ma "github.com/multiformats/go-multiaddr"
	"github.com/multiformats/go-multibase"
	"github.com/multiformats/go-multihash"
	"github.com/quic-go/quic-go"

	"verifsim/harness/common"
	"verifsim/simrt"
)

const (
	vsSkew        = clockSkewAllowance  // "Allow for a bit of clock skew" — documented constant of the package
	vsMaxLifetime = 14 * 24 * time.Hour // from the statement
	vsDay         = 24 * time.Hour
)

func TestSim(t *testing.T) {
	common.Main(t, common.Harness{Property: "C18", Run: vsRun})
}

func vsRun(t *testing.T, tape *simrt.Tape) *common.Outcome {
	g := simrt.Gen{S: tape.G}
	o := &common.Outcome{}
	switch g.Weighted(3, 1, 1) {
	case 0:
		vsTrajectory(t, tape, g, o)
	case 1:
		vsVerifier(t, tape, g, o)
	case 2:
		vsDial(t, tape, g, o)
	}
	return o
}

// ---------------------------------------------------------------------------------------------
// draws

// vsKey derives the Ed25519 host key from two tape values (=> run is a pure function of the tape).
func vsKey(g simrt.Gen) (ic.PrivKey, error) {
	var b [8]byte
	binary.LittleEndian.PutUint32(b[:4], uint32(g.Int(1<<31-1)))
	binary.LittleEndian.PutUint32(b[4:], uint32(g.Int(1<<31-1)))
	seed := sha256.Sum256(b[:])
	priv, _, err := ic.GenerateEd25519Key(bytes.NewReader(seed[:]))
	return priv, err
}

// vsFrac draws a sub-second part: mostly 0, sometimes whole milliseconds, sometimes arbitrary nanoseconds.
func vsFrac(g simrt.Gen) time.Duration {
	switch g.Weighted(4, 2, 2) {
	case 1:
		return time.Duration(g.Int(1000)) * time.Millisecond
	case 2:
		return time.Duration(g.Int(1_000_000_000))
	}
	return 0
}

// vsUniform draws a duration in [0, max) with second resolution plus a drawn sub-second part.
func vsUniform(g simrt.Gen, max time.Duration) time.Duration {
	secs := int(max / time.Second)
	if secs <= 0 {
		return 0
	}
	d := time.Duration(g.Int(secs))*time.Second + vsFrac(g)
	if d >= max {
		d = max - 1
	}
	return d
}

// vsNear draws a small signed displacement around an interesting instant. Index 0 = exactly on it.
func vsNear(g simrt.Gen) (time.Duration, string) {
	switch g.Weighted(4, 3, 3, 1, 1, 1, 1, 2, 2) {
	case 1:
		return -1, "-1ns"
	case 2:
		return 1, "+1ns"
	case 3:
		return -time.Millisecond, "-1ms"
	case 4:
		return time.Millisecond, "+1ms"
	case 5:
		return -time.Second, "-1s"
	case 6:
		return time.Second, "+1s"
	case 7:
		return -vsUniform(g, vsSkew) - 1, "-U(skew)"
	case 8:
		return vsUniform(g, vsSkew) + 1, "+U(skew)"
	}
	return 0, "+0"
}

// vsDrawStart draws the instant at which a manager is created, relative to the key's roll-over grid
// (R = a roll-over instant, R-skew = bucket boundary, R+skew = expiry of the previous bucket's certificate).
func vsDrawStart(g simrt.Gen, o *common.Outcome, R time.Time, period time.Duration) (time.Time, string) {
	if g.Weighted(3, 1) == 0 {
		anchor, aname := R, "roll-over instant"
		switch g.Weighted(3, 2, 1) {
		case 1:
			anchor, aname = R.Add(-vsSkew), "bucket boundary (NotBefore of the bucket)"
		case 2:
			anchor, aname = R.Add(vsSkew), "expiry of the previous bucket's certificate"
		}
		d, dn := vsNear(g)
		if d == 0 && anchor.Equal(R) {
			o.Probe("start-exactly-on-rollover-instant")
		}
		if d >= -vsSkew && d <= vsSkew {
			o.Probe("start-within-skew-of-boundary")
		}
		return anchor.Add(d), aname + " " + dn
	}
	d := vsUniform(g, period)
	return R.Add(d), fmt.Sprintf("roll-over instant + %s (third %d of the period)", d, int(3*d/period))
}

// vsDrawTarget draws the next sampling instant (W = documented roll-over instant of the served certificate).
func vsDrawTarget(g simrt.Gen, now, W time.Time, period time.Duration) (time.Time, string) {
	switch g.Weighted(2, 3, 3, 3, 3, 2, 2, 3, 1) {
	case 1:
		return W, "to the roll-over instant"
	case 2:
		return W.Add(-1), "to 1ns before the roll-over instant"
	case 3:
		return W.Add(1), "to 1ns after the roll-over instant"
	case 4:
		d, dn := vsNear(g)
		return W.Add(d), "to the roll-over instant " + dn
	case 5:
		// NotBefore of the next certificate (W-skew) or expiry of the current one (W+skew)
		d, dn := vsNear(g)
		if g.Bool() {
			return W.Add(vsSkew).Add(d), "to the expiry of the served certificate " + dn
		}
		return W.Add(-vsSkew).Add(d), "to NotBefore of the next certificate " + dn
	case 6:
		d := vsUniform(g, 6*time.Hour)
		return now.Add(d), "+" + d.String()
	case 7:
		d := vsUniform(g, period)
		return now.Add(d), "+" + d.String()
	case 8:
		return now.Add(1), "+1ns"
	}
	return now.Add(time.Second), "+1s"
}

// ---------------------------------------------------------------------------------------------
// trajectory stratum

type vsCert struct {
	raw    string
	nb, na time.Time
	hkey   string // sha2-256 multihash key of raw
}

type vsSample struct {
	idx      int
	inc      int
	at       time.Time
	cert     int // index into certs
	serial   map[string]bool
	addr     map[string]bool
	addrList []string
	addrSeq  []string     // hashes of AddrComponent() in the order of its /certhash components
	addrMA   ma.Multiaddr // AddrComponent() as learned
	prev     int          // previous certificate still confirmed (index), -1 if none
	next     int       // announced next certificate (index), -1 if none
	follEnd  time.Time // exclusive end of this sample's following certificate period
	rolls    int       // switches observed so far in this incarnation chain
	overdue  bool      // taken while a roll-over was due in wall time but the manager's timer, delayed by a clock jump, had not fired yet
}

type vsTraj struct {
	o       *common.Outcome
	t0      time.Time
	certs   []vsCert
	byRaw   map[string]int
	byNB    map[int64]int
	byHash  map[string]int
	samples []*vsSample
	sig     strings.Builder

	off           *atomic.Int64 // wall clock = bubble clock + off (nil: no jumps in this stratum)
	model         *vsLateModel  // when the pending roll-over timer of a correct manager fires (nil: always on time)
	jumpSincePrev bool          // a clock jump happened since the previous sample
	jumped        bool          // a clock jump happened during the life of the current incarnation
}

// wall is the wall clock everybody but the manager's timers lives on: the truth for every oracle.
func (tr *vsTraj) wall() time.Time {
	if tr.off == nil {
		return time.Now()
	}
	return time.Now().Add(time.Duration(tr.off.Load()))
}

// vsJumpClock is what a process sees whose wall clock steps forward (suspend/resume, VM pause, clock step) while its
// timers run on a monotonic clock that does not: Now() = bubble clock + offset, timers / tickers / Sleep are the
// bubble's and purely relative. A timer armed for d before a jump of J still fires d of timer time after it was armed,
// i.e. J late in wall time; timers armed afterwards are relative as usual. The offset only moves forward and only at
// quiescent instants (harness main task after WaitIdle).
type vsJumpClock struct {
	clock.Clock
	off *atomic.Int64
}

func (c vsJumpClock) Now() time.Time                  { return c.Clock.Now().Add(time.Duration(c.off.Load())) }
func (c vsJumpClock) Since(t time.Time) time.Duration { return c.Now().Sub(t) }
func (c vsJumpClock) Until(t time.Time) time.Duration { return t.Sub(c.Now()) }

var vsJumpSizes = []time.Duration{time.Minute, 59 * time.Minute, 61 * time.Minute, 90 * time.Minute, 5 * time.Hour, 2 * vsDay, 20 * vsDay}

// vsLateModel answers one question from the statement and the documented roll-over rule alone ("once we reach
// clockSkewAllowance before expiry we switch over", i.e. roll-overs are due on the grid R + k*period, and the manager
// is driven by a timer): at which wall instant does the pending roll-over timer of a CORRECT manager fire after clock
// jumps? A timer armed at wall instant a for the next grid instant W fires at W + (forward jumps since a). When it
// fires, a correct manager re-synchronises with the wall clock: it catches up to the certificate of the period
// containing that instant and arms its next timer for the following grid instant — so from then on everything holds
// again FOR GOOD (until the next jump). Before that, between the due instant W and W+late, the manager cannot have
// rolled (its timer has not fired): samples in that window are "overdue" and only there the valid-until oracle and the
// one-switch-between-samples assumption are suspended.
type vsLateModel struct {
	R      time.Time
	period time.Duration
	armedW time.Time     // grid instant the pending timer was aimed at when it was armed
	late   time.Duration // forward jumps since then
}

func (m *vsLateModel) nextGrid(after time.Time) time.Time {
	g := m.R.Add(after.Sub(m.R) / m.period * m.period)
	for !g.After(after) {
		g = g.Add(m.period)
	}
	for g.Add(-m.period).After(after) {
		g = g.Add(-m.period)
	}
	return g
}
func (m *vsLateModel) arm(at time.Time) { m.armedW, m.late = m.nextGrid(at), 0 }
func (m *vsLateModel) fires() time.Time { return m.armedW.Add(m.late) }

// advanceTo brings the model to wall instant now (settled); it reports whether a timer fired late on the way.
func (m *vsLateModel) advanceTo(now time.Time) (lateFiring bool) {
	for !now.Before(m.fires()) {
		if m.late > 0 {
			lateFiring = true
		}
		m.arm(m.fires())
	}
	return
}
func (m *vsLateModel) overdue(now time.Time) bool { return m.late > 0 && !now.Before(m.armedW) }


func vsHashKey(code uint64, digest []byte) string { return fmt.Sprintf("%x/%x", code, digest) }

func (tr *vsTraj) rel(t time.Time) string { return "t0+" + t.Sub(tr.t0).String() }

// register records a certificate generated by the code under test and applies the determinism oracle.
func (tr *vsTraj) register(raw []byte, nb, na time.Time, where string) int {
	if i, ok := tr.byRaw[string(raw)]; ok {
		return i
	}
	sum := sha256.Sum256(raw)
	c := vsCert{raw: string(raw), nb: nb, na: na, hkey: vsHashKey(multihash.SHA2_256, sum[:])}
	i := len(tr.certs)
	tr.certs = append(tr.certs, c)
	tr.byRaw[c.raw] = i
	tr.byHash[c.hkey] = i
	if j, ok := tr.byNB[nb.UnixNano()]; ok {
		tr.o.Violate("C18/determinism/same-bucket-different-cert",
			"same host key, two certificates with NotBefore=%s differ: cert#%d (NotAfter %s) vs cert#%d (NotAfter %s, seen as %s)",
			tr.rel(nb), j, tr.rel(tr.certs[j].na), i, tr.rel(na), where)
	} else {
		tr.byNB[nb.UnixNano()] = i
	}
	tr.o.Logf("   cert#%d: NotBefore=%s NotAfter=%s (first seen as %s)", i, tr.rel(nb), tr.rel(na), where)
	return i
}

func (tr *vsTraj) names(set map[string]bool) string {
	var l []string
	for k := range set {
		if i, ok := tr.byHash[k]; ok {
			l = append(l, fmt.Sprintf("cert#%d", i))
		} else {
			l = append(l, "unknown-hash")
		}
	}
	sort.Strings(l)
	return "{" + strings.Join(l, ",") + "}"
}

// take observes the manager at a quiescent instant and applies every per-sample oracle.
func (tr *vsTraj) take(m *certManager, inc int) *vsSample {
	o := tr.o
	simrt.WaitIdle()
	now := tr.wall()
	s := &vsSample{idx: len(tr.samples), inc: inc, at: now, cert: -1, next: -1, prev: -1, serial: map[string]bool{}, addr: map[string]bool{}}

	conf := m.GetConfig()
	if conf == nil || len(conf.Certificates) == 0 || len(conf.Certificates[0].Certificate) == 0 || conf.Certificates[0].Leaf == nil {
		o.Violate("C18/served/none", "sample#%d at %s: GetConfig() serves no certificate", s.idx, tr.rel(now))
		return nil
	}
	leaf := conf.Certificates[0].Leaf
	wire := conf.Certificates[0].Certificate[0]
	if !bytes.Equal(leaf.Raw, wire) {
		o.Violate("C18/served/leaf-differs-from-wire", "sample#%d: Certificates[0].Leaf is not the parsed Certificates[0].Certificate[0]", s.idx)
	}
	s.cert = tr.register(wire, leaf.NotBefore, leaf.NotAfter, "served")
	c := tr.certs[s.cert]

	// announced next (state anchor nextConfig) — used for planning and for the extent of the following period only
	m.mx.RLock()
	nx, last := m.nextConfig, m.lastConfig
	m.mx.RUnlock()
	s.follEnd = c.na.Add(-vsSkew)
	if nx != nil && nx.tlsConf != nil && len(nx.tlsConf.Certificates) > 0 && nx.tlsConf.Certificates[0].Leaf != nil {
		nl := nx.tlsConf.Certificates[0].Leaf
		s.next = tr.register(nl.Raw, nl.NotBefore, nl.NotAfter, "announced next")
		if e := nl.NotAfter.Add(-vsSkew); e.After(s.follEnd) {
			s.follEnd = e
		}
	}
	if last != nil && last.tlsConf != nil && len(last.tlsConf.Certificates) > 0 && last.tlsConf.Certificates[0].Leaf != nil {
		ll := last.tlsConf.Certificates[0].Leaf
		s.prev = tr.register(ll.Raw, ll.NotBefore, ll.NotAfter, "previous")
	}

	// advertised hashes
	for _, h := range m.SerializedCertHashes() {
		dh, err := multihash.Decode(h)
		if err != nil {
			o.Violate("C18/advertised/undecodable/serialized", "sample#%d: SerializedCertHashes() entry is not a multihash: %v", s.idx, err)
			continue
		}
		s.serial[vsHashKey(dh.Code, dh.Digest)] = true
	}
	ac := m.AddrComponent()
	ahs, err := extractCertHashes(ac)
	if err != nil {
		o.Violate("C18/advertised/undecodable/addr", "sample#%d: AddrComponent() does not parse: %v", s.idx, err)
	}
	s.addrMA = ac
	for _, dh := range ahs {
		s.addr[vsHashKey(dh.Code, dh.Digest)] = true
		s.addrSeq = append(s.addrSeq, vsHashKey(dh.Code, dh.Digest))
	}
	for k := range s.addr {
		s.addrList = append(s.addrList, k)
	}
	sort.Strings(s.addrList)

	if tr.model != nil {
		if tr.model.advanceTo(now) {
			o.Probe("late-rollover-timer-fired")
		}
		if s.overdue = tr.model.overdue(now); s.overdue {
			o.Probe("sample-while-rollover-overdue-after-jump")
			o.Logf("   (roll-over due at %s; the manager's timer, %s late after clock jumps, fires at %s)", tr.rel(tr.model.armedW), tr.model.late, tr.rel(tr.model.fires()))
		}
	}
	toRoll := c.na.Add(-vsSkew).Sub(now)
	o.Logf("sample#%d inc=%d at %s: served=cert#%d (valid since %s, expires in %s, roll-over in %s) serialized=%s addr=%s next=cert#%d",
		s.idx, inc, tr.rel(now), s.cert, now.Sub(c.nb), c.na.Sub(now), toRoll, tr.names(s.serial), tr.names(s.addr), s.next)
	fmt.Fprintf(&tr.sig, "|%d,%d,%d,%d,%d,%d", inc, s.cert, now.Sub(tr.t0), len(s.serial), len(s.addr), s.next)

	// --- oracles on the served certificate
	if now.Before(c.nb.Add(vsSkew)) {
		o.Violate("C18/served/valid-since", "sample#%d at %s: served cert#%d has been valid for %s only (< clock-skew allowance %s)",
			s.idx, tr.rel(now), s.cert, now.Sub(c.nb), vsSkew)
	}
	if now.After(c.na.Add(-vsSkew)) && !s.overdue {
		class := "C18/served/valid-until"
		if tr.jumped {
			// the manager's timer is not excused by a jump any more (see vsLateModel): it did not get back in step
			class += "/after-clock-jump"
		}
		o.Violate(class, "sample#%d at %s: served cert#%d stays valid for %s only (< clock-skew allowance %s)",
			s.idx, tr.rel(now), s.cert, c.na.Sub(now), vsSkew)
	}
	if l := c.na.Sub(c.nb); l > vsMaxLifetime {
		o.Violate("C18/served/lifetime", "sample#%d: served cert#%d has a validity period of %s (> 14 days)", s.idx, s.cert, l)
	}
	if !s.serial[c.hkey] {
		o.Violate("C18/advertised/served-missing/serialized", "sample#%d at %s: SerializedCertHashes()=%s lacks the served cert#%d",
			s.idx, tr.rel(now), tr.names(s.serial), s.cert)
	}
	if !s.addr[c.hkey] {
		o.Violate("C18/advertised/served-missing/addr", "sample#%d at %s: AddrComponent()=%s lacks the served cert#%d",
			s.idx, tr.rel(now), tr.names(s.addr), s.cert)
	}

	// --- the certificate served next was advertised beforehand (consecutive samples of one incarnation;
	// the schedule guarantees at most one switch in between)
	if n := len(tr.samples); n > 0 {
		p := tr.samples[n-1]
		s.rolls = p.rolls // the roll-over budget of a run spans its restarts
		oneSwitch := !p.overdue && !tr.jumpSincePrev // otherwise a catch-up over several periods may lie in between
		tr.jumpSincePrev = false
		if p.inc == inc {
			if p.cert != s.cert {
				s.rolls++
			}
			if p.cert != s.cert && oneSwitch {
				if !p.serial[c.hkey] {
					o.Violate("C18/advertised/next-missing/serialized", "sample#%d at %s serves cert#%d, but at sample#%d (%s, serving cert#%d) SerializedCertHashes() was %s",
						s.idx, tr.rel(now), s.cert, p.idx, tr.rel(p.at), p.cert, tr.names(p.serial))
				}
				if !p.addr[c.hkey] {
					o.Violate("C18/advertised/next-missing/addr", "sample#%d at %s serves cert#%d, but at sample#%d (%s, serving cert#%d) AddrComponent() was %s",
						s.idx, tr.rel(now), s.cert, p.idx, tr.rel(p.at), p.cert, tr.names(p.addr))
				}
			}
		}
	}

	// --- addresses learned earlier keep verifying through their current and following period
	for _, e := range tr.samples {
		if !now.Before(e.follEnd) {
			continue
		}
		suffix := "/same-incarnation"
		if e.inc != inc {
			suffix = "/after-restart"
			o.Probe("learned-addr-checked-across-restart")
		}
		if !e.addr[c.hkey] {
			o.Violate("C18/learned-addr/served-not-pinned"+suffix,
				"address learned at sample#%d (inc %d, %s, serving cert#%d, following period ends %s) = %s does not pin cert#%d served at sample#%d (inc %d, %s)",
				e.idx, e.inc, tr.rel(e.at), e.cert, tr.rel(e.follEnd), tr.names(e.addr), s.cert, s.idx, inc, tr.rel(now))
		}
		for _, h := range e.addrList {
			if s.serial[h] {
				continue
			}
			if e.inc != inc {
				// Observation, not a violation (weaker reading of "keeps verifying" = the served certificate is
				// pinned by the learned address, checked above): init() does not rebuild lastConfig, so after a
				// restart SerializedCertHashes() lacks the previous period's hash. The real dialer's rule in
				// upgrade() (every certhash of the dialed address must be confirmed in the Noise early data) would
				// therefore refuse an address learned in the previous period until the address is re-learned.
				o.Probe("restart-drops-previous-period-hash")
				break
			}
			name := "unknown-hash"
			if i, ok := tr.byHash[h]; ok {
				name = fmt.Sprintf("cert#%d", i)
			}
			o.Violate("C18/learned-addr/hash-not-confirmed/same-incarnation",
				"address learned at sample#%d (%s, serving cert#%d, following period ends %s) = %s; at sample#%d of the same incarnation (%s, serving cert#%d) SerializedCertHashes()=%s no longer confirms %s, so upgrade() of a dial to that address fails with \"missing cert hash\"",
				e.idx, tr.rel(e.at), e.cert, tr.rel(e.follEnd), tr.names(e.addr), s.idx, tr.rel(now), s.cert, tr.names(s.serial), name)
			break
		}
	}
	tr.samples = append(tr.samples, s)
	return s
}

func vsTrajectory(t *testing.T, tape *simrt.Tape, g simrt.Gen, o *common.Outcome) {
	tr := &vsTraj{o: o, byRaw: map[string]int{}, byNB: map[int64]int{}, byHash: map[string]int{}}
	finished := false
	restarts, jumps := 0, 0
	lateRolled := false // a roll-over that was late because of a clock jump has been passed
	trouble := func(format string, a ...any) {
		if o.Trouble == "" {
			o.Trouble = fmt.Sprintf(format, a...)
		}
	}
	res := simrt.Run(t, simrt.Config{MaxSteps: 4000, IdleLimit: 200 * 365 * vsDay}, tape.S, func() {
		tr.t0 = time.Now()
		priv, err := vsKey(g)
		if err != nil {
			trouble("key: %v", err)
			return
		}
		// optional epoch shift (X.509 switches from UTCTime to GeneralizedTime in 2050)
		if g.Chance(1, 8) {
			d := vsUniform(g, 60*365*vsDay)
			o.Logf("epoch shift %s", d)
			time.Sleep(d)
		}
		maxRoll := g.Range(0, 6)
		nSteps := g.Range(1, 14)
		nRestarts := g.Weighted(4, 3, 1)
		// fault stratum drawn apart (0 = fault free): forward jumps of the wall clock against the manager's timers
		jumpy := g.Chance(1, 3)
		restartBefore := map[int]int{}
		for i := 0; i < nRestarts; i++ {
			restartBefore[g.Int(nSteps+1)]++
		}

		// Anchor discovery (planning only): a throw-away incarnation tells where the next roll-over instant of
		// this key lies and how long a period is. Its certificates also feed the determinism oracle.
		var off atomic.Int64
		tr.off = &off
		cl := vsJumpClock{Clock: clock.New(), off: &off}
		probe, err := newCertManager(priv, cl)
		if err != nil {
			o.Violate("C18/start-failed", "newCertManager at %s: %v", tr.rel(tr.wall()), err)
			return
		}
		pl := probe.GetConfig().Certificates[0].Leaf
		tr.register(pl.Raw, pl.NotBefore, pl.NotAfter, "served by the planning incarnation")
		probe.Close()
		period := pl.NotAfter.Sub(pl.NotBefore) - 2*vsSkew
		if period < 4*vsSkew {
			period = 4 * vsSkew
		}
		R := pl.NotAfter.Add(-vsSkew).Add(period) // a future roll-over instant with >= one period of room before it
		o.Logf("key offset class: roll-over instants at %s + k*%s; plan maxRoll=%d steps=%d restarts=%d", tr.rel(R), period, maxRoll, nSteps, nRestarts)

		start, sdesc := vsDrawStart(g, o, R, period)
		o.Logf("start at %s = %s", tr.rel(start), sdesc)
		fmt.Fprintf(&tr.sig, "start=%d", start.Sub(R))
		if d := start.Sub(tr.wall()); d > 0 {
			simrt.TimeSleep(d)
		}
		tr.model = &vsLateModel{R: R, period: period}
		tr.model.arm(tr.wall())
		m, err := newCertManager(priv, cl)
		if err != nil {
			o.Violate("C18/start-failed", "newCertManager at %s: %v", tr.rel(tr.wall()), err)
			return
		}
		defer func() {
			if m != nil {
				m.Close()
			}
		}()
		inc := 0
		cur := tr.take(m, inc)
		if cur == nil {
			return
		}

		for step := 0; step <= nSteps; step++ {
			// stop + restart (only the key survives)
			for k := 0; k < restartBefore[step]; k++ {
				closedAt := tr.wall()
				m.Close()
				m = nil
				W := tr.certs[cur.cert].na.Add(-vsSkew)
				var gap time.Duration
				var gdesc string
				switch g.Weighted(2, 2, 3, 3, 2) {
				case 0:
					gap, gdesc = 0, "immediately"
				case 1:
					gap = vsUniform(g, 2*time.Hour)
					gdesc = "shortly after"
				case 2:
					d, dn := vsNear(g)
					gap, gdesc = W.Add(d).Sub(closedAt), "at the closed incarnation's next roll-over instant "+dn
				case 3:
					gap = vsUniform(g, period)
					gdesc = "within one period"
				case 4:
					gap = vsUniform(g, 4*period)
					gdesc = "within four periods"
				}
				if gap < 0 {
					gap = 0
				}
				o.Logf("Close() at %s; restart %s (gap %s)", tr.rel(closedAt), gdesc, gap)
				fmt.Fprintf(&tr.sig, "|R%d", gap)
				if gap > 0 {
					simrt.TimeSleep(gap)
				}
				tr.model.arm(tr.wall())
				tr.jumped = false
				m, err = newCertManager(priv, cl)
				if err != nil {
					o.Violate("C18/start-failed", "newCertManager (restart) at %s: %v", tr.rel(tr.wall()), err)
					return
				}
				inc++
				restarts++
				prev := cur
				cur = tr.take(m, inc)
				if cur == nil {
					return
				}
				c := tr.certs[cur.cert]
				if plen := c.na.Sub(c.nb) - 2*vsSkew; plen > 0 {
					third := int(3 * cur.at.Sub(c.nb.Add(vsSkew)) / plen)
					if third >= 0 && third <= 2 {
						o.Probe(fmt.Sprintf("restart-in-third-%d", third))
					}
				}
				switch {
				case cur.cert == prev.cert:
					o.Probe("restart-serves-same-certificate")
				case cur.cert == prev.next:
					o.Probe("restart-serves-announced-next")
				default:
					o.Probe("restart-serves-later-certificate")
				}
				if cur.at.Equal(W) {
					o.Probe("restart-exactly-at-rollover-instant")
				}
			}
			if step == nSteps {
				break
			}

			now := tr.wall()
			// fault: the wall clock steps forward while the manager's timers do not (suspend / VM pause / clock step)
			if jumpy && g.Chance(1, 4) {
				J := vsJumpSizes[g.Int(len(vsJumpSizes))]
				off.Add(int64(J))
				tr.model.late += J
				tr.jumpSincePrev, tr.jumped = true, true
				jumps++
				o.Fault("clock-jump-forward")
				switch {
				case J > period:
					o.Probe("clock-jump-longer-than-a-period")
				case J > vsSkew:
					o.Probe("clock-jump-longer-than-skew")
				}
				o.Logf("step %d: WALL CLOCK JUMPS FORWARD by %s at %s (pending roll-over timer now %s late: due %s, fires %s)",
					step, J, tr.rel(now), tr.model.late, tr.rel(tr.model.armedW), tr.rel(tr.model.fires()))
				fmt.Fprintf(&tr.sig, "|J%d", J)
				if cur = tr.take(m, inc); cur == nil {
					return
				}
				continue
			}

			// advance to the next sampling instant
			c := tr.certs[cur.cert]
			W := c.na.Add(-vsSkew) // documented roll-over instant of the served certificate
			if cur.overdue {
				W = tr.model.fires() // the interesting instant is now the one at which the late timer fires
			}
			if !W.After(now) {
				W = now.Add(period) // only reachable when an oracle has already fired
			}
			limit := W.Add(-1) // no further roll-over allowed: stay strictly before it
			if cur.rolls < maxRoll {
				limit = cur.follEnd.Add(-1) // at most one switch between consecutive samples
				if !limit.After(W) {
					limit = W.Add(period - 1)
				}
			}
			if !now.Before(limit) {
				continue // roll-over budget used up and already 1ns before the next one: nothing new to sample
			}
			target, adesc := vsDrawTarget(g, now, W, period)
			if target.After(limit) {
				target, adesc = limit, adesc+" (capped)"
			}
			if target.Before(now) {
				target = now
			}
			o.Logf("step %d: advance %s => %s", step, adesc, tr.rel(target))
			if d := target.Sub(now); d > 0 {
				simrt.TimeSleep(d)
			}
			prev := cur
			cur = tr.take(m, inc)
			if cur == nil {
				return
			}
			if lateRolled && cur.cert != prev.cert && !prev.overdue && !cur.overdue {
				o.Probe("rollover-after-a-late-one-observed")
			}
			if prev.overdue && !cur.overdue {
				lateRolled = true
			}
			switch cur.at.Sub(W) {
			case 0:
				o.Probe("sample-exactly-at-rollover-instant")
			case -1:
				o.Probe("sample-1ns-before-rollover")
			case 1:
				o.Probe("sample-1ns-after-rollover")
			}
			if cur.cert != prev.cert {
				o.Probe("rollover-observed")
			}
		}
		m.Close()
		m = nil
		finished = true
	})
	o.Sched = res
	o.Virtual = vsVirtual(res.Virtual)
	o.Sig = "T:" + tr.sig.String()
	if res.Panic != "" {
		o.Violate("C18/panic", "%s", vsFirstLines(res.Panic, 12))
		return
	}
	if o.Trouble != "" {
		return
	}
	if res.StepLimit || res.Stuck {
		o.Trouble = fmt.Sprintf("run cut: steplimit=%v stuck=%v", res.StepLimit, res.Stuck)
		return
	}
	if !finished && len(o.Violations) == 0 {
		o.Trouble = "trajectory did not finish"
		return
	}
	if len(res.Residue) > 0 && len(o.Violations) == 0 {
		o.Trouble = fmt.Sprintf("goroutines left after Close(): %v", res.Residue)
		return
	}
	rollsTotal := 0
	for i, s := range tr.samples {
		if i > 0 && tr.samples[i-1].inc == s.inc && tr.samples[i-1].cert != s.cert {
			rollsTotal++
		}
	}
	if rollsTotal >= 3 {
		o.Probe("rollovers>=3")
	}
	if rollsTotal >= 6 {
		o.Probe("rollovers>=6")
	}
	if restarts > 0 {
		o.Probe("restarted")
	}
	_ = jumps
	// non-trivial: at least two samples and (a roll-over observed or a restart executed)
	o.Nontrivial = len(tr.samples) >= 2 && (rollsTotal > 0 || restarts > 0)
}

// ---------------------------------------------------------------------------------------------
// verifier stratum

var (
	vsRSAOnce sync.Once
	vsRSAKey  *rsa.PrivateKey
)

// vsRSA: one throw-away RSA key per process (crypto/rand: only outcome classes are observed).
func vsRSA() *rsa.PrivateKey {
	vsRSAOnce.Do(func() { vsRSAKey, _ = rsa.GenerateKey(crand.Reader, 1024) })
	return vsRSAKey
}

type vsPin struct {
	code   uint64
	digest []byte
}

// vsHashList builds the dialer's hash list the way a dial does: /certhash components -> extractCertHashes.
func vsHashList(pins []vsPin) ([]multihash.DecodedMultihash, error) {
	if len(pins) == 0 {
		return []multihash.DecodedMultihash{}, nil
	}
	var addr ma.Multiaddr
	for _, p := range pins {
		mh, err := multihash.Encode(p.digest, p.code)
		if err != nil {
			return nil, err
		}
		s, err := multibase.Encode(multibase.Base58BTC, mh)
		if err != nil {
			return nil, err
		}
		c, err := ma.NewComponent(ma.ProtocolWithCode(ma.P_CERTHASH).Name, s)
		if err != nil {
			return nil, err
		}
		addr = addr.AppendComponent(c)
	}
	return extractCertHashes(addr)
}

func vsTemplate(nb, na time.Time, serial int64) *x509.Certificate {
	return &x509.Certificate{
		SerialNumber:          big.NewInt(serial),
		Subject:               pkix.Name{},
		NotBefore:             nb,
		NotAfter:              na,
		IsCA:                  true,
		ExtKeyUsage:           []x509.ExtKeyUsage{x509.ExtKeyUsageClientAuth, x509.ExtKeyUsageServerAuth},
		KeyUsage:              x509.KeyUsageDigitalSignature | x509.KeyUsageCertSign,
		BasicConstraintsValid: true,
	}
}

var vsKeyKinds = []string{"ecdsa-p256", "rsa", "rsa-pss", "rsa-subject-key-ecdsa-signed"}

// vsMakeCert: kind 0 = the package's own deterministic ECDSA certificate; 1 = self-signed RSA (PKCS#1 v1.5);
// 2 = self-signed RSA (PSS); 3 = RSA subject key signed by an ECDSA key.
func vsMakeCert(kind int, host ic.PrivKey, nb, na time.Time) ([]byte, error) {
	switch kind {
	case 0:
		c, _, err := generateCert(host, nb, na)
		if err != nil {
			return nil, err
		}
		return c.Raw, nil
	case 1, 2:
		k := vsRSA()
		tm := vsTemplate(nb, na, 7)
		if kind == 2 {
			tm.SignatureAlgorithm = x509.SHA256WithRSAPSS
		}
		return x509.CreateCertificate(crand.Reader, tm, tm, &k.PublicKey, k)
	case 3:
		k := vsRSA()
		parent, ppriv, err := generateCert(host, nb, na)
		if err != nil {
			return nil, err
		}
		return x509.CreateCertificate(crand.Reader, vsTemplate(nb, na, 9), parent, &k.PublicKey, ppriv)
	}
	return nil, fmt.Errorf("bad kind")
}

func vsVerifier(t *testing.T, tape *simrt.Tape, g simrt.Gen, o *common.Outcome) {
	var sig strings.Builder
	cases := 0
	finished := false
	res := simrt.Run(t, simrt.Config{MaxSteps: 2000, IdleLimit: 200 * 365 * vsDay}, tape.S, func() {
		t0 := time.Now()
		host, err := vsKey(g)
		if err != nil {
			o.Trouble = "key: " + err.Error()
			return
		}
		n := g.Range(1, 6)
		for i := 0; i < n; i++ {
			// clock offset
			switch g.Weighted(3, 2, 2, 1) {
			case 1:
				simrt.TimeSleep(vsFrac(g) + 1)
			case 2:
				simrt.TimeSleep(vsUniform(g, 400*vsDay) + 1)
			case 3:
				simrt.TimeSleep(vsUniform(g, 30*365*vsDay) + 1)
			}
			now := time.Now()
			nowS := now.Truncate(time.Second)

			// features; index 0 of each = no defect
			primary := g.Int(10)
			extra := -1
			if g.Chance(1, 5) {
				extra = g.Range(1, 7)
			}
			has := func(k int) bool { return primary == k || extra == k }

			// validity window (whole seconds; X.509 has second granularity)
			life := vsMaxLifetime
			switch g.Weighted(2, 3) {
			case 1:
				life = time.Duration(g.Range(1, int(vsMaxLifetime/time.Second))) * time.Second
			}
			if has(4) { // too long-lived
				switch g.Weighted(2, 2, 1) {
				case 0:
					life = vsMaxLifetime + time.Second
				case 1:
					life = vsMaxLifetime + time.Duration(g.Range(1, 86400))*time.Second
				case 2:
					life = vsMaxLifetime + time.Duration(g.Range(1, 365))*vsDay
				}
			}
			var nb time.Time
			pos := "inside"
			switch {
			case has(2): // expired
				back := time.Second
				if g.Bool() {
					back = time.Duration(g.Range(1, 400*86400)) * time.Second
				}
				nb, pos = nowS.Add(-life-back), fmt.Sprintf("expired %s ago", back)
			case has(3): // not yet valid
				ahead := time.Second
				if g.Bool() {
					ahead = time.Duration(g.Range(1, 400*86400)) * time.Second
				}
				nb, pos = nowS.Add(ahead), fmt.Sprintf("valid in %s", ahead)
			default:
				switch g.Weighted(3, 1, 1) {
				case 0:
					nb = nowS.Add(-time.Duration(g.Int(int(life/time.Second))) * time.Second)
				case 1:
					nb, pos = nowS, "NotBefore = now (truncated to the second)"
				case 2:
					nb, pos = nowS.Add(-life), "NotAfter = now (truncated to the second)"
				}
			}
			na := nb.Add(life)

			keyKind := 0
			if has(5) {
				keyKind = 1
			} else if has(8) {
				keyKind = 2
			} else if has(9) {
				keyKind = 3
			}
			raw, err := vsMakeCert(keyKind, host, nb, na)
			if err != nil {
				o.Trouble = fmt.Sprintf("building the %s certificate: %v", vsKeyKinds[keyKind], err)
				return
			}
			leaf, err := x509.ParseCertificate(raw)
			if err != nil {
				o.Trouble = "parsing the generated certificate: " + err.Error()
				return
			}
			otherRaw, err := vsMakeCert(0, host, nowS.Add(-time.Hour-time.Second), nowS.Add(vsDay))
			if err != nil {
				o.Trouble = "building the second certificate: " + err.Error()
				return
			}

			// chain
			chain := [][]byte{raw}
			shape := "single"
			pinnedFirst := true
			if has(6) {
				chain, shape = nil, "empty"
			} else if has(7) {
				chain, shape, pinnedFirst = [][]byte{otherRaw, raw}, "two certificates, the pinned one LAST (server certificate = first = not pinned)", false
			} else if primary == 0 && g.Chance(1, 6) {
				chain, shape = [][]byte{raw, otherRaw}, "two certificates, the pinned one first"
			}

			// hash list
			sum := sha256.Sum256(raw)
			osum := sha256.Sum256(otherRaw)
			xsum := sha256.Sum256([]byte("verifsim"))
			decoys := []vsPin{{multihash.SHA2_256, xsum[:]}, {multihash.SHA2_256, osum[:]}}
			if len(chain) > 1 {
				decoys = decoys[:1] // in two-certificate chains the second certificate is never listed
			}
			var pins []vsPin
			pinDesc := "sha2-256 of the certificate listed"
			right := vsPin{multihash.SHA2_256, sum[:]}
			pinned := true
			if has(1) {
				pinned = false
				switch g.Weighted(3, 2, 2, 2, 1) {
				case 0:
					pinDesc = "hash absent"
				case 1:
					s5 := sha512.Sum512(raw)
					pins = append(pins, vsPin{multihash.SHA2_512, s5[:]})
					pinDesc = "only the sha2-512 of the certificate listed"
				case 2:
					code := []uint64{multihash.SHA3_256, multihash.DBL_SHA2_256, multihash.KECCAK_256, multihash.BLAKE2S_MAX}[g.Int(4)]
					pins = append(pins, vsPin{code, sum[:]})
					pinDesc = fmt.Sprintf("the SHA-256 digest listed under another multihash function (code 0x%x)", code)
				case 3:
					bad := append([]byte(nil), sum[:]...)
					bad[g.Int(32)] ^= 1 << uint(g.Int(8))
					pins = append(pins, vsPin{multihash.SHA2_256, bad})
					pinDesc = "sha2-256 digest with one bit flipped"
				case 4:
					pins = append(pins, vsPin{multihash.SHA2_256, sum[:16]})
					pinDesc = "sha2-256 digest truncated to 16 bytes"
				}
			}
			nDecoys := g.Int(len(decoys) + 1)
			pins = append(pins, decoys[:nDecoys]...)
			if pinned {
				at := g.Int(len(pins) + 1)
				pins = append(pins[:at], append([]vsPin{right}, pins[at:]...)...)
			}
			hashes, err := vsHashList(pins)
			if err != nil {
				o.Trouble = "building the hash list: " + err.Error()
				return
			}

			// expected verdict, from the statement, over the certificate as parsed
			var reject []string
			dontCare := ""
			if len(chain) == 0 {
				reject = append(reject, "empty-chain")
			} else {
				if !pinnedFirst {
					reject = append(reject, "chain-pinned-cert-not-first")
				} else if !pinned {
					reject = append(reject, "hash-not-listed-as-sha2-256")
				}
				switch keyKind {
				case 1:
					reject = append(reject, "rsa")
				case 2:
					reject = append(reject, "rsa-pss")
				case 3:
					reject = append(reject, "rsa-subject-key")
				}
				if leaf.NotAfter.Sub(leaf.NotBefore) > vsMaxLifetime {
					reject = append(reject, "lifetime-over-14-days")
				}
				if now.Before(leaf.NotBefore) {
					reject = append(reject, "not-yet-valid")
				} else if now.After(leaf.NotAfter) {
					if now.Before(leaf.NotAfter.Add(time.Second)) {
						dontCare = "now within the second of NotAfter"
					} else {
						reject = append(reject, "expired")
					}
				}
				if len(chain) > 1 && pinnedFirst {
					dontCare = "multi-certificate chain with the pinned certificate first: acceptance not asserted"
				}
			}

			verr := verifyRawCerts(chain, hashes)
			accepted := verr == nil
			cases++
			verdict := "rejected"
			if accepted {
				verdict = "accepted"
			}
			o.Logf("case %d at t0+%s: key=%s lifetime=%s now-NotBefore=%s NotAfter-now=%s (%s) chain=%s hashes=%d (%s) => %s; must reject for %v %s",
				i, now.Sub(t0), vsKeyKinds[keyKind], leaf.NotAfter.Sub(leaf.NotBefore), now.Sub(leaf.NotBefore), leaf.NotAfter.Sub(now), pos, shape, len(hashes), pinDesc, verdict, reject, dontCare)
			fmt.Fprintf(&sig, "|%d,%d,%d,%d,%d,%d,%s,%v,%v", primary, extra, keyKind, life/time.Second, now.Sub(leaf.NotBefore), len(hashes), shape[:3], reject, accepted)
			if len(reject) == 0 {
				o.Probe("verifier-valid")
			}
			for _, r := range reject {
				o.Probe("verifier-" + r)
			}
			switch {
			case len(reject) > 0 && accepted:
				o.Violate("C18/verifier/accepted/"+reject[0],
					"verifyRawCerts accepted: key=%s lifetime=%s now-NotBefore=%s NotAfter-now=%s chain=%s hash list: %s (+%d others); reasons to reject: %v",
					vsKeyKinds[keyKind], leaf.NotAfter.Sub(leaf.NotBefore), now.Sub(leaf.NotBefore), leaf.NotAfter.Sub(now), shape, pinDesc, len(hashes), reject)
			case len(reject) == 0 && dontCare == "" && !accepted:
				o.Violate("C18/verifier/rejected-valid",
					"verifyRawCerts rejected a valid pinned certificate: key=%s lifetime=%s now-NotBefore=%s NotAfter-now=%s (%s) hashes=%d: %v",
					vsKeyKinds[keyKind], leaf.NotAfter.Sub(leaf.NotBefore), now.Sub(leaf.NotBefore), leaf.NotAfter.Sub(now), pos, len(hashes), vsScrub(verr))
			case dontCare != "" && len(reject) == 0:
				if accepted {
					o.Probe("verifier-dontcare-accepted")
				} else {
					o.Probe("verifier-dontcare-rejected")
				}
			}
		}
		finished = true
	})
	o.Sched = res
	o.Virtual = vsVirtual(res.Virtual)
	o.Sig = "V:" + sig.String()
	if res.Panic != "" {
		o.Violate("C18/panic", "%s", vsFirstLines(res.Panic, 12))
		return
	}
	if o.Trouble != "" {
		return
	}
	if res.StepLimit || res.Stuck || !finished {
		o.Trouble = fmt.Sprintf("verifier run cut: steplimit=%v stuck=%v finished=%v", res.StepLimit, res.Stuck, finished)
		return
	}
	// non-trivial: at least one certificate / hash-list pair was judged
	o.Nontrivial = cases > 0
}

// vsVirtual: one run covers weeks to decades of virtual time and the worker adds the nanoseconds of all runs
// into one int64, which would wrap after roughly a thousand runs. Once this process has reported 140 years the
// harness reports 0 for further runs, so the evidence's simulated_time_s is a lower bound instead of garbage.
var vsVirtualTotal time.Duration

func vsVirtual(d time.Duration) time.Duration {
	const ceiling = 140 * 365 * vsDay
	if d < 0 || vsVirtualTotal+d > ceiling || vsVirtualTotal+d < 0 {
		return 0
	}
	vsVirtualTotal += d
	return d
}

// vsScrub keeps only the kind of a verifier error (its text may contain hash bytes).
func vsScrub(err error) string {
	if err == nil {
		return "<nil>"
	}
	if _, ok := err.(ErrCertHashMismatch); ok {
		return "cert hash not found"
	}
	s := err.Error()
	if i := strings.IndexByte(s, '('); i > 0 {
		s = s[:i]
	}
	return s
}

func vsFirstLines(s string, n int) string {
	l := strings.Split(s, "\n")
	if len(l) > n {
		l = l[:n]
	}
	return strings.Join(l, " | ")
}

// ---------------------------------------------------------------------------------------------
// dial stratum: the real dialer against the real listener (message level, un-instrumented)
//
// Two real WebTransport transports (New + Listen + Dial: real quic-go, http3, webtransport-go, Noise with early data)
// run inside the bubble over github.com/marcopolo/simnet (the in-memory UDP network /repo already depends on for
// x/simlibp2p; it does not involve the simulator's scheduler, so the only task of the run is the harness main task).
// quicreuse runs with DisableReuseport() because its reuse pool has a 30 s garbage-collection ticker that would make
// weeks of virtual time expensive. The network is fault free (1 ms latency, no loss): the outcome of a dial is then a
// function of the dialled address and of the server's certificate state alone, and only that outcome (completed /
// refused at TLS / refused in Noise) is observed. Dials never start within vsDialGuard before a roll-over instant, so
// that the handshake cannot straddle a switch of the served certificate.

const vsDialGuard = 5 * time.Second

type vsFixedSrc struct{ ip net.IP }

func (f vsFixedSrc) PreferredSourceIPForDestination(*net.UDPAddr) (net.IP, error) { return f.ip, nil }

func vsConnManager(nw *simnet.Simnet, ip string, nextPort *int, tag byte) (*quicreuse.ConnManager, error) {
	ls := simnet.NodeBiDiLinkSettings{
		Downlink: simnet.LinkSettings{BitsPerSecond: 1_000_000_000},
		Uplink:   simnet.LinkSettings{BitsPerSecond: 1_000_000_000},
	}
	return quicreuse.NewConnManager(quic.StatelessResetKey{tag}, quic.TokenGeneratorKey{tag},
		quicreuse.DisableReuseport(),
		quicreuse.OverrideSourceIPSelector(func() (quicreuse.SourceIPSelector, error) { return vsFixedSrc{net.ParseIP(ip)}, nil }),
		quicreuse.OverrideListenUDP(func(_ string, a *net.UDPAddr) (net.PacketConn, error) {
			b := &net.UDPAddr{IP: net.ParseIP(ip), Port: a.Port}
			if b.Port == 0 {
				*nextPort++
				b.Port = *nextPort
			}
			return nw.NewEndpoint(b, ls), nil
		}))
}

type vsDialEntry struct {
	label string
	hkey  string
	dig   []byte
}

func vsDialErrClass(err error) string {
	s := err.Error()
	switch {
	case strings.Contains(s, "missing cert hash"):
		return "refused in Noise (missing cert hash)"
	case strings.Contains(s, "cert hash not found"):
		return "refused at TLS (cert hash not found)"
	case strings.Contains(s, "context deadline exceeded"), strings.Contains(s, "timeout"):
		return "timed out"
	}
	return "failed otherwise"
}

func vsDial(t *testing.T, tape *simrt.Tape, g simrt.Gen, o *common.Outcome) {
	tr := &vsTraj{o: o, byRaw: map[string]int{}, byNB: map[int64]int{}, byHash: map[string]int{}}
	finished := false
	dials, completed := 0, 0
	trouble := func(format string, a ...any) {
		if o.Trouble == "" {
			o.Trouble = fmt.Sprintf(format, a...)
		}
	}
	res := simrt.Run(t, simrt.Config{MaxSteps: 4000, IdleLimit: 200 * 365 * vsDay}, tape.S, func() {
		tr.t0 = time.Now()
		skey, err1 := vsKey(g)
		ckey, err2 := vsKey(g)
		fkey, err3 := vsKey(g)
		if err1 != nil || err2 != nil || err3 != nil {
			trouble("keys: %v %v %v", err1, err2, err3)
			return
		}
		sid, err := peer.IDFromPrivateKey(skey)
		if err != nil {
			trouble("peer id: %v", err)
			return
		}
		nEvents := g.Range(1, 7)

		// the server key's roll-over grid (planning only), as in the trajectory stratum
		probe, err := newCertManager(skey, clock.New())
		if err != nil {
			o.Violate("C18/start-failed", "newCertManager at %s: %v", tr.rel(time.Now()), err)
			return
		}
		pl := probe.GetConfig().Certificates[0].Leaf
		tr.register(pl.Raw, pl.NotBefore, pl.NotAfter, "served by the planning incarnation")
		probe.Close()
		period := pl.NotAfter.Sub(pl.NotBefore) - 2*vsSkew
		if period < 4*vsSkew {
			period = 4 * vsSkew
		}
		R := pl.NotAfter.Add(-vsSkew).Add(period)
		start, sdesc := vsDrawStart(g, o, R, period)
		o.Logf("dial stratum: %d events; server starts at %s = %s", nEvents, tr.rel(start), sdesc)
		fmt.Fprintf(&tr.sig, "start=%d", start.Sub(R))
		if d := time.Until(start); d > 0 {
			simrt.TimeSleep(d)
		}

		nw := &simnet.Simnet{LatencyFunc: simnet.StaticLatency(time.Millisecond), Logger: slog.New(slog.DiscardHandler)}
		nw.Start()
		defer nw.Close()
		sport, cport := 4000, 20000
		ccm, err := vsConnManager(nw, "1.0.0.2", &cport, 2)
		if err != nil {
			trouble("client conn manager: %v", err)
			return
		}
		defer ccm.Close()
		ctp, err := New(ckey, nil, ccm, nil, &network.NullResourceManager{})
		if err != nil {
			trouble("client transport: %v", err)
			return
		}
		defer ctp.(io.Closer).Close()

		// server incarnation
		var scm *quicreuse.ConnManager
		var stp *transport
		var ln tpt.Listener
		var base ma.Multiaddr
		stopServer := func() {
			if ln != nil {
				ln.Close()
				ln = nil
			}
			if stp != nil {
				stp.Close()
				stp = nil
			}
			if scm != nil {
				scm.Close()
				scm = nil
			}
		}
		defer stopServer()
		startServer := func() bool {
			sport++
			dummy := 30000
			var err error
			scm, err = vsConnManager(nw, "1.0.0.1", &dummy, 1)
			if err != nil {
				trouble("server conn manager: %v", err)
				return false
			}
			x, err := New(skey, nil, scm, nil, &network.NullResourceManager{}, WithClock(clock.New()))
			if err != nil {
				trouble("server transport: %v", err)
				return false
			}
			stp = x.(*transport)
			ln, err = stp.Listen(ma.StringCast(fmt.Sprintf("/ip4/1.0.0.1/udp/%d/quic-v1/webtransport", sport)))
			if err != nil {
				o.Violate("C18/start-failed", "Listen at %s: %v", tr.rel(time.Now()), vsDialErrClass(err))
				return false
			}
			base, _ = ma.SplitFunc(ln.Multiaddr(), func(c ma.Component) bool { return c.Protocol().Code == ma.P_CERTHASH })
			return true
		}
		if !startServer() {
			return
		}
		inc := 0
		cur := tr.take(stp.certManager, inc)
		if cur == nil {
			return
		}

		for ev := 0; ev < nEvents; ev++ {
			now := time.Now()
			c := tr.certs[cur.cert]
			W := c.na.Add(-vsSkew)
			if !W.After(now) {
				W = now.Add(period)
			}
			kind := g.Weighted(5, 3, 2, 1) // composed dial | advance | dial of a learned address | restart
			switch kind {
			case 1: // advance (at most one switch between consecutive samples)
				limit := cur.follEnd.Add(-1)
				if !limit.After(W) {
					limit = W.Add(period - 1)
				}
				target, adesc := vsDrawTarget(g, now, W, period)
				if target.After(limit) {
					target, adesc = limit, adesc+" (capped)"
				}
				if target.Before(now) {
					target = now
				}
				o.Logf("event %d: advance %s => %s", ev, adesc, tr.rel(target))
				fmt.Fprintf(&tr.sig, "|A")
				if d := target.Sub(now); d > 0 {
					simrt.TimeSleep(d)
				}
				prev := cur
				if cur = tr.take(stp.certManager, inc); cur == nil {
					return
				}
				if cur.cert != prev.cert {
					o.Probe("rollover-observed")
				}
				continue
			case 3: // restart of the server (only the key survives); new port, same IP
				stopServer()
				var gap time.Duration
				switch g.Weighted(2, 2, 2, 2) {
				case 1:
					gap = vsUniform(g, 2*time.Hour)
				case 2:
					d, _ := vsNear(g)
					gap = W.Add(d).Sub(now)
				case 3:
					gap = vsUniform(g, 2*period)
				}
				if gap < 0 {
					gap = 0
				}
				o.Logf("event %d: server closed at %s, restarted after %s", ev, tr.rel(now), gap)
				fmt.Fprintf(&tr.sig, "|R%d", gap)
				if gap > 0 {
					simrt.TimeSleep(gap)
				}
				if !startServer() {
					return
				}
				inc++
				o.Probe("restarted")
				if cur = tr.take(stp.certManager, inc); cur == nil {
					return
				}
				continue
			}

			// --- a dial. Never let the handshake straddle a roll-over.
			if d := W.Sub(now); d > 0 && d < vsDialGuard {
				o.Logf("event %d: %s before the roll-over instant: waiting for it", ev, d)
				simrt.TimeSleep(d)
				if cur = tr.take(stp.certManager, inc); cur == nil {
					return
				}
				c = tr.certs[cur.cert]
			}
			var entries []vsDialEntry
			var what string
			add := func(label string, raw string) {
				sum := sha256.Sum256([]byte(raw))
				e := vsDialEntry{label: label, hkey: vsHashKey(multihash.SHA2_256, sum[:]), dig: sum[:]}
				for _, x := range entries {
					if x.hkey == e.hkey {
						return
					}
				}
				entries = append(entries, e)
			}
			if kind == 2 {
				// an address exactly as learned at an earlier sample (possibly of an earlier incarnation)
				e := tr.samples[g.Int(len(tr.samples))]
				for _, h := range e.addrSeq {
					if i, ok := tr.byHash[h]; ok {
						add(fmt.Sprintf("cert#%d", i), tr.certs[i].raw)
					}
				}
				what = fmt.Sprintf("address learned at sample#%d (inc %d, %s)", e.idx, e.inc, tr.rel(e.at))
				if e.inc == inc && e.cert != cur.cert {
					o.Probe("dial-learned-address-in-following-period")
				}
			} else {
				n := g.Range(1, 4)
				for k := 0; k < n; k++ {
					switch g.Weighted(4, 2, 2, 1, 1, 3, 1) {
					case 0:
						add("served", c.raw)
					case 1:
						if cur.next >= 0 {
							add("next", tr.certs[cur.next].raw)
						}
					case 2:
						if cur.prev >= 0 {
							add("previous", tr.certs[cur.prev].raw)
						}
					case 3, 4:
						// a certificate of this server for a period it neither serves nor announces now
						shift, label := -2*period, "own, two periods ago"
						if g.Bool() {
							shift, label = 2*period, "own, two periods ahead"
						}
						if oc, _, err := generateCert(skey, c.nb.Add(shift), c.nb.Add(shift).Add(c.na.Sub(c.nb))); err == nil {
							add(label, string(oc.Raw))
						}
					case 5:
						// certificate of another host (what a relay in front of the server would present)
						if fc, _, err := generateCert(fkey, c.nb, c.na); err == nil {
							add("foreign host's certificate", string(fc.Raw))
						}
					case 6:
						add("no certificate at all", fmt.Sprintf("verifsim-%d-%d", ev, k))
					}
				}
				// mostly make sure the served certificate is pinned somewhere, at a drawn position
				if g.Chance(3, 4) {
					had := false
					for _, x := range entries {
						had = had || x.label == "served"
					}
					if !had {
						add("served", c.raw)
						at := g.Int(len(entries))
						last := entries[len(entries)-1]
						copy(entries[at+1:], entries[at:len(entries)-1])
						entries[at] = last
					}
				}
				if len(entries) == 0 {
					add("served", c.raw)
				}
				what = "composed address"
			}
			if len(entries) == 0 {
				continue
			}
			addr := base
			var labels []string
			for _, e := range entries {
				comp, err := addrComponentForCert(e.dig)
				if err != nil {
					trouble("certhash component: %v", err)
					return
				}
				addr = addr.AppendComponent(comp)
				labels = append(labels, e.label)
			}
			before := cur
			ctx, cancel := context.WithTimeout(context.Background(), time.Minute)
			conn, derr := ctp.Dial(ctx, addr, sid)
			cancel()
			if derr == nil {
				conn.Close()
			}
			// a handshake takes a few (not exactly reproducible) milliseconds of virtual time: continue on a whole second
			if el := time.Since(before.at); el%time.Second != 0 {
				simrt.TimeSleep(time.Second - el%time.Second)
			}
			after := tr.take(stp.certManager, inc)
			if after == nil {
				return
			}
			cur = after
			dials++
			outcome := "completed"
			if derr != nil {
				outcome = vsDialErrClass(derr)
			}
			o.Logf("event %d: dial %s = /certhash x%d [%s] at %s => %s", ev, what, len(entries), strings.Join(labels, " | "), tr.rel(before.at), outcome)
			fmt.Fprintf(&tr.sig, "|D%d:%s:%s", kind, strings.Join(labels, ","), outcome)

			// judge (weaker reading while the server's state changed during the dial: union of both states)
			servedPinned, unconfirmedAt := false, -1
			for i, e := range entries {
				if e.hkey == tr.certs[before.cert].hkey || e.hkey == tr.certs[after.cert].hkey {
					servedPinned = true
				}
				if !before.serial[e.hkey] && !after.serial[e.hkey] && unconfirmedAt < 0 {
					unconfirmedAt = i
				}
			}
			stable := before.cert == after.cert
			allConfirmedBoth := true
			for _, e := range entries {
				if !before.serial[e.hkey] || !after.serial[e.hkey] {
					allConfirmedBoth = false
				}
			}
			switch {
			case derr == nil:
				completed++
				o.Probe("dial-completed")
				if !servedPinned {
					o.Violate("C18/dial/completed-without-pinned-certificate",
						"dial of %s [%s] at %s completed although the served cert#%d is not among its certhashes", what, strings.Join(labels, " | "), tr.rel(before.at), before.cert)
				}
				if unconfirmedAt >= 0 {
					pos := "middle"
					switch {
					case len(entries) == 1:
						pos = "only"
					case unconfirmedAt == 0:
						pos = "first"
					case unconfirmedAt == len(entries)-1:
						pos = "last"
					}
					o.Violate("C18/dial/completed-with-unconfirmed-hash/"+pos,
						"dial of %s [%s] at %s (inc %d) completed although the server (serving cert#%d, SerializedCertHashes()=%s) never confirms certhash #%d (%s) of the dialled address",
						what, strings.Join(labels, " | "), tr.rel(before.at), inc, before.cert, tr.names(before.serial), unconfirmedAt+1, entries[unconfirmedAt].label)
				}
			case stable && servedPinned && allConfirmedBoth:
				o.Violate("C18/dial/refused-valid-address",
					"fault-free dial of %s [%s] at %s (inc %d) %s although it pins the served cert#%d and the server confirms every certhash of it (SerializedCertHashes()=%s)",
					what, strings.Join(labels, " | "), tr.rel(before.at), inc, outcome, before.cert, tr.names(before.serial))
			case !servedPinned:
				o.Probe("dial-refused-served-certificate-not-pinned")
			default:
				o.Probe("dial-refused-unconfirmed-hash")
				if unconfirmedAt >= 0 && unconfirmedAt < len(entries)-1 && entries[len(entries)-1].hkey == tr.certs[before.cert].hkey {
					o.Probe("dial-refused-unconfirmed-hash-before-genuine-last")
				}
				if kind == 2 {
					o.Probe("dial-learned-address-refused-after-restart-or-expiry")
				}
			}
		}
		stopServer()
		finished = true
	})
	o.Sched = res
	o.Virtual = vsVirtual(res.Virtual)
	o.Sig = "D:" + tr.sig.String()
	if res.Panic != "" {
		o.Violate("C18/panic", "%s", vsFirstLines(res.Panic, 12))
		return
	}
	if o.Trouble != "" {
		return
	}
	if res.StepLimit || res.Stuck {
		o.Trouble = fmt.Sprintf("dial run cut: steplimit=%v stuck=%v", res.StepLimit, res.Stuck)
		return
	}
	if !finished && len(o.Violations) == 0 {
		o.Trouble = "dial run did not finish"
		return
	}
	if len(res.Residue) > 0 && len(o.Violations) == 0 {
		o.Trouble = fmt.Sprintf("goroutines left after everything was closed: %v", res.Residue)
		return
	}
	// non-trivial: at least one dial was judged
	o.Nontrivial = dials > 0
	_ = completed
}
