package c07

import (
	"fmt"
	"sort"
	"strconv"
	"strings"

	"github.com/libp2p/go-libp2p/core/protocol"
)

// ---- reference model of the listener's handler table ---------------------------------------------
//
// From the documentation of core/protocol.Router: AddHandler = exact literal match, AddHandlerWithFunc =
// the match function decides (the name is not used for matching), RemoveHandler(name) removes the handler
// registered under that name, handlers are checked in order of registration and the first eligible one is
// invoked. SetStreamHandler "sets": a second registration under the same name replaces the first.

type entry struct {
	in   *inst
	name protocol.ID
	seq  int // index of the (latest) registration
	slot int // index of the registration that created the name (re-registration keeps it)
}

type state []entry

func (s state) has(in *inst) bool {
	for _, e := range s {
		if e.in == in {
			return true
		}
	}
	return false
}

// firstEligible returns the instances that the documented rule allows to run for id: the first
// eligible by registration order, where a re-registered name counts either at its original slot or at
// the position of its latest registration (undocumented, both accepted). nil = nothing matches.
func (s state) firstEligible(id protocol.ID) (out []*inst, eligible int) {
	var bySeq, bySlot *entry
	for i := range s {
		e := &s[i]
		if !hspecs[e.in.spec].match(id) {
			continue
		}
		eligible++
		if bySeq == nil || e.seq < bySeq.seq {
			bySeq = e
		}
		if bySlot == nil || e.slot < bySlot.slot {
			bySlot = e
		}
	}
	if bySeq == nil {
		return nil, 0
	}
	out = append(out, bySeq.in)
	if bySlot.in != bySeq.in {
		out = append(out, bySlot.in)
	}
	return out, eligible
}

func (s state) matches(id protocol.ID) bool {
	l, _ := s.firstEligible(id)
	return len(l) > 0
}

func (s state) String() string {
	var p []string
	for _, e := range s {
		p = append(p, e.in.String())
	}
	return "{" + strings.Join(p, ", ") + "}"
}

// states[k] = handler table after the first k mutations (they are issued strictly one after another).
func buildStates(muts []*mutation) []state {
	states := []state{nil}
	cur := state{}
	for k, m := range muts {
		next := state{}
		replaced := false
		for _, e := range cur {
			if e.name == m.name {
				if !m.remove {
					next = append(next, entry{in: m.in, name: m.name, seq: k + 1, slot: e.slot})
					replaced = true
				}
				continue
			}
			next = append(next, e)
		}
		if !m.remove && !replaced {
			next = append(next, entry{in: m.in, name: m.name, seq: k + 1, slot: k + 1})
		}
		cur = next
		states = append(states, cur)
	}
	return states
}

// window returns the range of model states that the listener's handler lookup may have seen for
// an operation invoked at inv whose negotiation was over by end: every mutation that RETURNED
// before inv is applied (kmin), no mutation INVOKED after end is (kmax).
func window(muts []*mutation, inv, end uint64) (kmin, kmax int) {
	for _, m := range muts {
		if m.ret != 0 && m.ret < inv {
			kmin++
		}
		if m.inv < end {
			kmax++
		}
	}
	if kmax < kmin {
		kmax = kmin
	}
	return
}

func inList(l []protocol.ID, p protocol.ID) bool {
	for _, x := range l {
		if x == p {
			return true
		}
	}
	return false
}

// legit decides whether instance in may have run for id given the window; reason is a stable
// discriminator for the class when it may not.
func legit(states []state, kmin, kmax int, in *inst, id protocol.ID) (ok bool, class, detail string) {
	registered := false
	for k := kmin; k <= kmax; k++ {
		l, _ := states[k].firstEligible(id)
		for _, x := range l {
			if x == in {
				return true, "", ""
			}
		}
		if states[k].has(in) {
			registered = true
		}
	}
	var tabs []string
	for k := kmin; k <= kmax; k++ {
		tabs = append(tabs, fmt.Sprintf("S%d=%s", k, states[k]))
	}
	detail = fmt.Sprintf("%s ran for %s; handler tables possible during the open: %s", in, id, strings.Join(tabs, " "))
	if !registered {
		earlier := false
		for k := 0; k < kmin; k++ {
			if states[k].has(in) {
				earlier = true
			}
		}
		if earlier {
			return false, "C07/removed-handler-ran", detail
		}
		return false, "C07/wrong-handler/not-registered", detail
	}
	if !hspecs[in.spec].match(id) {
		return false, "C07/wrong-handler/not-matching/" + hspecs[in.spec].kind, detail
	}
	return false, "C07/wrong-handler/not-first-registered", detail
}

func check(w *world) {
	o := w.o
	states := buildStates(w.muts)
	byNonce := map[string]*openRec{}
	for _, op := range w.opens {
		byNonce[op.nonce] = op
	}
	invByNonce := map[string][]*invocation{}
	for _, iv := range w.invs {
		if !iv.anon {
			invByNonce[iv.nonce] = append(invByNonce[iv.nonce], iv)
		}
	}
	if w.p.blankA {
		o.Probe("blank-dialer")
	}
	if w.p.blankB {
		o.Probe("blank-listener")
	}

	var sig strings.Builder
	fmt.Fprintf(&sig, "%v%v|%s|%s|", w.p.blankA, w.p.blankB, w.p.secu, trNames[w.p.transport])
	for _, m := range w.muts {
		fmt.Fprintf(&sig, "m%v%v%s.%d;", m.remove, m.silent, m.name, m.spec)
	}
	verified, mutAfterConnect := 0, len(w.muts)-len(w.p.initial)

	for _, op := range w.opens {
		end := op.useDone
		ivs := invByNonce[op.nonce]
		if len(ivs) > 0 && ivs[0].start < end {
			end = ivs[0].start // the lookup happened before the handler started
		}
		kmin, kmax := window(w.muts, op.inv, end)
		stable := kmin == kmax
		anyCommonAll, anyCommonSome := true, false // some requested ID matched in every / in some possible table
		for k := kmin; k <= kmax; k++ {
			c := false
			for _, id := range op.plan.req {
				if states[k].matches(id) {
					c = true
				}
			}
			anyCommonAll = anyCommonAll && c
			anyCommonSome = anyCommonSome || c
		}
		know := "unknown"
		if len(op.known) > 0 {
			know = "accurate"
			if !states[kmin].matches(op.known[0]) {
				know = "stale"
			}
		}
		o.Probe("knowledge-" + know)
		if !stable {
			o.Probe("mutation-overlaps-open")
		}
		if op.connIdx > 0 {
			o.Probe("open-on-later-connection")
		}
		desc := fmt.Sprintf("open#%d round %d req=%v use=%d known=%v [inv %d, ret %d, done %d] tables S%d..S%d", op.idx, op.round, op.plan.req, op.plan.use, op.known, op.inv, op.ret, op.useDone, kmin, kmax)
		outcome := ""
		switch {
		case op.openErr != "":
			outcome = "open-error"
			o.Logf("  %s -> NewStream error: %s", desc, op.openErr)
			if !anyCommonSome {
				o.Probe("open-failed-no-common-protocol")
			}
			if anyCommonAll && stable && !op.relaxed() {
				o.Violate("C07/open-failed-with-common-protocol", "%s: NewStream failed (%s) although the listener's table %s (unchanged during the open) matches a requested ID", desc, op.openErr, states[kmin])
			}
		default:
			path := "eager"
			if op.lazy {
				path = "lazy"
			}
			unbound := op.proto == ""
			if unbound {
				// reported once; the checks that would only repeat it are skipped for this open
				o.Violate("C07/stream-not-bound/"+path+"/"+hostKind(w.p.blankA)+"-dialer"+refusalTag(op), "%s: NewStream returned a stream whose Protocol() is empty (not bound, not charged to any protocol scope)", desc)
			} else if !inList(op.plan.req, op.proto) {
				o.Violate("C07/protocol-not-requested/"+path, "%s: returned stream reports Protocol()=%q", desc, op.proto)
			}
			matchedAll, matchedSome := true, false
			for k := kmin; k <= kmax; k++ {
				m := states[k].matches(op.proto)
				matchedAll = matchedAll && m
				matchedSome = matchedSome || m
			}
			if !op.lazy && !unbound && !matchedSome {
				// a stream that is not the optimistic (lazy) kind was negotiated inside NewStream: the
				// listener must have accepted the ID, so the open itself had to fail
				o.Violate("C07/open-succeeded-without-common-protocol/eager", "%s: NewStream negotiated %s although no possible table matches it (%s)", desc, op.proto, states[kmin])
			}
			switch {
			case op.plan.use == useUnused:
				outcome = path + "-unused:" + string(op.proto)
				o.Probe("unused-stream-" + path)
				o.Logf("  %s -> %s stream %s on conn %d, ended without I/O", desc, path, op.proto, op.connIdx)
			case op.useErr != "":
				outcome = path + "-first-use-failed:" + string(op.proto)
				o.Logf("  %s -> %s stream %s on conn %d, first use failed: %s", desc, path, op.proto, op.connIdx, op.useErr)
				if !matchedSome {
					o.Probe(path + "-first-use-failed-unsupported")
					if know == "stale" {
						o.Probe("stale-knowledge-failed-at-first-use")
					}
				}
				if matchedAll && !op.relaxed() {
					o.Violate("C07/first-use-failed-although-supported/"+path, "%s: stream bound to %s, first Write+Read failed (%s) although every possible table matches it (%s)", desc, op.proto, op.useErr, states[kmin])
				}
			default:
				// first round trip succeeded: reply = "<instance>|<protocol seen by the handler>|<nonce>"
				f := strings.Split(op.reply, "|")
				if len(f) != 3 {
					o.Violate("C07/cross-talk/garbled-reply", "%s: reply %q", desc, op.reply)
					outcome = "garbled"
					break
				}
				id, _ := strconv.Atoi(f[0])
				seen := protocol.ID(f[1])
				outcome = fmt.Sprintf("%s-ok:%s:h%d", path, op.proto, id)
				o.Logf("  %s -> %s stream %s on conn %d, reply from h%d seeing %q nonce %s", desc, path, op.proto, op.connIdx, id, seen, f[2])
				want := op.nonce
				if op.plan.use == useReadOnly {
					want = "EOF" // the handler saw a clean EOF instead of a nonce
				}
				if f[2] != want {
					o.Violate("C07/cross-talk/foreign-nonce", "%s: expected nonce field %s, reply carries %s", desc, want, f[2])
				}
				if seen == "" {
					o.Violate("C07/handler-on-unbound-stream/"+hostKind(w.p.blankB)+"-listener"+refusalTag(op), "%s: handler %d ran on a stream whose Protocol() is empty (not charged to any protocol scope)", desc, id)
				} else if seen != op.proto && !unbound {
					o.Violate("C07/ends-disagree/"+path, "%s: dialer's stream reports %q, the handler's stream reports %q", desc, op.proto, seen)
				}
				var in *inst
				if id >= 1 && id <= len(w.insts) {
					in = w.insts[id-1]
				}
				if in == nil {
					o.Violate("C07/cross-talk/unknown-handler", "%s: reply names handler %d", desc, id)
					break
				}
				negotiated := op.proto
				if unbound {
					negotiated = seen // judge the handler by what its own end reports
				}
				if negotiated == "" {
				} else if ok, class, detail := legit(states, kmin, kmax, in, negotiated); !ok {
					if class != "C07/removed-handler-ran" && !anyMatch(states, kmin, kmax, negotiated) {
						class = "C07/handler-ran-without-common-protocol"
					}
					o.Violate(class, "%s: %s", desc, detail)
				}
				verified++
				o.Probe(path + "-ok")
				o.Probe(path + "-ok-" + trNames[w.p.transport])
				if op.lossy {
					o.Probe("verified-under-udp-loss")
				}
				if !op.lazy && op.proto != op.plan.req[0] {
					o.Probe("eager-fallback-ok")
				}
				if hspecs[in.spec].kind != "exact" {
					o.Probe("match-handler-ran")
				}
				if _, n := states[kmin].firstEligible(op.proto); n >= 2 {
					o.Probe("overlapping-handlers-resolved")
				}
				if op.plan.use == useCloseWrite {
					o.Probe("close-write-before-read")
				}
				if op.plan.use == useReadOnly {
					o.Probe("read-only-client-" + path)
				}
				if op.plan.use == useIdle {
					// second round trip after the stream idled for twice the listener's negotiation timeout:
					// no fault touches an established stream in any stratum, so it must work and be answered
					// by the same handler run
					var hiv *invocation
					if len(ivs) > 0 {
						hiv = ivs[0]
					}
					switch {
					case op.use2Err != "" && op.lossy:
						o.Probe("second-round-trip-failed-under-udp-loss")
					case op.use2Err != "":
						side := "dialer"
						herr := ""
						if hiv != nil && strings.HasPrefix(hiv.endErr, "later reply") {
							side, herr = "listener", hiv.endErr
						}
						o.Violate("C07/stream-broke-after-negotiation/"+side, "%s: first round trip fine, after %v idle the second one failed on the dialer with %q (handler: %q) on a healthy connection", desc, op.idled, op.use2Err, herr)
					case op.reply2 != fmt.Sprintf("%d|%s|%s", id, seen, op.nonce2):
						o.Violate("C07/cross-talk/second-reply", "%s: second nonce %s answered with %q (first reply %q)", desc, op.nonce2, op.reply2, op.reply)
					default:
						o.Probe("second-round-trip-after-idle-" + path)
						if w.p.transport != trTCP {
							o.Probe("second-round-trip-after-idle-quic")
							if w.p.longIdle {
								o.Probe("second-round-trip-after-40s-idle-quic")
							}
						}
					}
				}
				if op.plan.use == useDuplex {
					o.Probe("first-read-races-first-write-" + path)
				}
			}
			// handler runs carrying this open's nonce
			switch {
			case op.plan.use == useUnused || op.plan.use == useReadOnly:
				// no nonce sent: attributed per round below
			case op.useErr != "":
				if len(ivs) > 0 && !op.relaxed() {
					o.Violate("C07/handler-ran-for-failed-open", "%s: first use failed (%s) yet %s ran and read the nonce", desc, op.useErr, ivs[0].in)
				}
			default:
				if len(ivs) != 1 {
					o.Violate("C07/handler-count", "%s: %d handler runs read this open's nonce (want exactly 1)", desc, len(ivs))
				}
			}
		}
		// removed-before-open probe: a requested ID whose only handlers were removed before the open
		for _, id := range op.plan.req {
			was := false
			for k := 0; k < kmin; k++ {
				if states[k].matches(id) {
					was = true
				}
			}
			if was && !states[kmin].matches(id) && stable {
				o.Probe("requested-id-removed-before-open")
				break
			}
		}
		fmt.Fprintf(&sig, "o%d%v:%s;", op.round, op.plan.req, outcome)
	}

	// handler runs: every nonce is known and read once; nonce-less runs are attributed per round
	for n, l := range invByNonce {
		if byNonce[n] == nil {
			o.Violate("C07/cross-talk/unknown-nonce", "%s read nonce %q that no open sent", l[0].in, n)
		}
		if len(l) > 1 {
			o.Violate("C07/cross-talk/duplicate-nonce", "nonce %q was read by %d handler runs", n, len(l))
		}
	}
	for _, iv := range w.invs {
		for _, n2 := range iv.nonces {
			if op := byNonce[iv.nonce]; op == nil || n2 != op.nonce2 || op.nonce2 == "" {
				o.Violate("C07/cross-talk/unknown-nonce", "%s (first nonce %q) later received %q, which its dialer never sent on that stream", iv.in, iv.nonce, n2)
			}
		}
		if iv.extra > 0 {
			o.Violate("C07/cross-talk/extra-bytes", "%s (round %d, nonce %q) received %d bytes beyond the nonce", iv.in, iv.round, iv.nonce, iv.extra)
		}
		if !iv.anon {
			if op := byNonce[iv.nonce]; op != nil && iv.seen != op.proto && op.useErr != "" {
				// (successful opens are compared through the reply)
				o.Probe("handler-on-failed-open")
			}
			continue
		}
		o.Logf("  handler run without nonce: %s round %d seen=%q start=%d (%s)", iv.in, iv.round, iv.seen, iv.start, iv.endErr)
		// candidates: opens of the same round that legitimately end without sending a nonce
		var cand []*openRec
		faulty, ftag := false, ""
		for _, op := range w.opens {
			if op.round != iv.round {
				continue
			}
			if op.relaxed() {
				faulty = true
				ftag = refusalTag(op)
			}
			if op.openErr == "" && (op.plan.use == useUnused || op.plan.use == useReadOnly) {
				cand = append(cand, op)
			}
		}
		if iv.seen == "" {
			tag := ftag
			o.Violate("C07/handler-on-unbound-stream/"+hostKind(w.p.blankB)+"-listener"+tag, "round %d: %s ran (no nonce received) on a stream whose Protocol() is empty (not charged to any protocol scope)", iv.round, iv.in)
			continue
		}
		if faulty {
			// an injected refusal on the dialer makes NewStream fail after the listener dispatched:
			// only the handler/ID relation is checked
			if !hspecs[iv.in.spec].match(iv.seen) {
				o.Violate("C07/wrong-handler/not-matching/"+hspecs[iv.in.spec].kind, "nonce-less run of %s on a stream reporting %q", iv.in, iv.seen)
			}
			continue
		}
		if len(cand) == 0 {
			o.Violate("C07/handler-ran-for-failed-open", "%s ran in round %d on a stream reporting %q without receiving a nonce, but every open of the round either failed or sent its nonce", iv.in, iv.round, iv.seen)
			continue
		}
		op := cand[0]
		if op.proto == "" {
			continue // already reported as stream-not-bound
		}
		if iv.seen != op.proto {
			o.Violate("C07/ends-disagree/unused", "open#%d (unused) reports %q, the handler's stream reports %q", op.idx, op.proto, iv.seen)
		}
		end := op.useDone
		if iv.start < end {
			end = iv.start
		}
		kmin, kmax := window(w.muts, op.inv, end)
		if ok, class, detail := legit(states, kmin, kmax, iv.in, op.proto); !ok {
			o.Violate(class, "open#%d (unused, req=%v): %s", op.idx, op.plan.req, detail)
		}
		o.Probe("handler-ran-for-unused-stream")
	}
	// at most one nonce-less run per round in the fault-free stratum
	perRound := map[int]int{}
	for _, iv := range w.invs {
		if iv.anon {
			perRound[iv.round]++
		}
	}
	var rounds []int
	for r := range perRound {
		rounds = append(rounds, r)
	}
	sort.Ints(rounds)
	for _, r := range rounds {
		armed := false
		for _, op := range w.opens {
			if op.round == r && op.relaxed() {
				armed = true
			}
		}
		if perRound[r] > 1 && !armed {
			o.Violate("C07/handler-count", "round %d: %d handler runs without nonce for at most one unused stream", r, perRound[r])
		}
	}
	for r, rp := range w.p.rounds {
		if len(rp.opens) >= 2 {
			o.Probe("concurrent-opens")
		}
		_ = r
	}
	o.Sig = sig.String()
	o.Nontrivial = verified >= 1 && (len(w.opens) >= 2 || mutAfterConnect >= 1)
}

func hostKind(blank bool) string {
	if blank {
		return "blank"
	}
	return "basic"
}

func refusalTag(op *openRec) string {
	if op.faultArmed {
		return "/refusal-injected"
	}
	if op.lossy {
		return "/udp-loss"
	}
	return ""
}

// relaxed: a fault may be acting on this open (an injected SetProtocol refusal was armed, or datagrams are
// being lost on the UDP wire): it may fail or time out; liveness oracles and "a handler ran for a failed
// open" are off, every safety oracle stays on.
func (op *openRec) relaxed() bool { return op.faultArmed || op.lossy }

func anyMatch(states []state, kmin, kmax int, id protocol.ID) bool {
	for k := kmin; k <= kmax; k++ {
		if states[k].matches(id) {
			return true
		}
	}
	return false
}
