# orchestrator configuration of the C07 check (loaded by tools/props.py)
from stack import FULL_STACK, FULL_DEPS, QUIC_STACK, QUIC_DEPS, WT_STACK, WT_DEPS

ENABLED = True

SPEC = dict(
    pkg="./harness/c07",
    instrument=FULL_STACK + QUIC_STACK + WT_STACK + ["./p2p/host/blank"],
    deps=FULL_DEPS + QUIC_DEPS + WT_DEPS,
    level="exploration",
    level_text=("seeded search over (listener handler table history x ordered request lists x dialer knowledge x host kinds x "
                "connection events x schedules) with two real nodes on the simulated network; every lock, channel operation, "
                "select and go statement of the stack is a scheduling decision. A reference model of the handler table (from the "
                "Router documentation) judges, over stamped histories, which handler instance may have run for which negotiated "
                "ID; nonce echo tagged with handler instance and the ID seen on the handler's end proves agreement and absence of "
                "cross-talk; both REAL resource managers are read while the streams are held open and after they ended. "
                "Sampling, not proof."),
    level_note=("trusted: testing/synctest, simnet's TCP model, the overlay rewrite, the reference model of the handler table; a "
                "mutation concurrent with an open may be seen or not (every prefix of the mutation sequence inside the open's "
                "window is accepted); liveness (open must succeed) only when no mutation overlaps the open and no fault is "
                "injected; 'first use' = first Write followed by first Read; not covered: limited (relayed) connections, scripted UDP partitions, wire "
                "faults on the identify push (staleness comes from racing the push, link latency and Host.Mux() mutations that "
                "emit no event), transports other than TCP, QUIC and WebTransport"),
    technique=("deterministic simulation with fault injection: full go-libp2p stack (host, identify, swarm, multistream, yamux, "
               "resource manager) under a seeded lock-level scheduler on a simulated network; model-based history oracles"),
    design_ref="DESIGN.md section 6 (C07)",
    quick_s=50, thorough_s=600,
    rule=("one run = one tape: transport stratum first (TCP+yamux 3/5 | QUIC 1/5 | WebTransport over QUIC 1/5; on the QUIC strata "
          "UDP duplication/reordering for the whole run and 0|3|12 % datagram loss during the first k rounds only, opens under "
          "loss judged by the safety oracles only, liveness again one loss-free virtual minute later), then dialer/listener host kind (basic with identify | blank), security insecure|noise, link chunking and "
          "latency, optional simultaneous connect (two connections), 1-4 initial handlers out of 8 specs (exact /a/1 /a/1.1 /a /b/1 "
          "/c; match functions: prefix under the name /a, major-version under /a/1, alias under /b that does not match its own "
          "name), then 1-3 rounds of: 0-2 handler mutations (set/replace/remove, through the host or silently through Host.Mux()), "
          "push propagated or not, dialer knowledge kept|cleared|injected, optional reconnect, 1-3 concurrent NewStream calls with "
          "ordered lists of 1-4 IDs out of 9 (Write then Read | CloseWrite before Read | ended without I/O | first Read racing the first Write from another task | read-only client: CloseWrite as the very first operation, then Read | round trip, idle in virtual time for twice the listener's negotiation timeout (drawn 10|1|2|3 s), second round trip on the same stream; Close | Reset), optionally 1-2 "
          "mutations racing with the opens; strata drawn first: 3/5 fault-free with real resource managers, 1/5 one resource-manager refusal of SetProtocol on "
          "either side (liveness oracles off), 1/5 fault-free with network.NullResourceManager on both nodes (a stream scope that "
          "accepts repeated SetProtocol calls; scope oracles off). In 1/4 of the runs a returning-peer scenario follows: a third real node keeps a stream of protocol X open on the listener "
          "while the dialer, after using X, is disconnected for 130|190|250 virtual seconds (2-4 resource-manager gc runs; control: "
          "the third node's stream ends first), then re-dials and opens X again; all three managers audited. "
          "1/4 of the runs are cold (no Connect: the first opens dial and meet the first identify exchange); 1/3 of the non-final "
          "rounds hand over without a quiescent instant. non-trivial = at least one open verified end-to-end (echo tagged by the model-approved "
          "handler) and (>=2 opens or >=1 mutation after connect); distinct = distinct (scheduler decision hash, host kinds, "
          "mutation sequence, per-open request list and outcome)"),
    probes=["lazy-ok", "eager-ok", "eager-fallback-ok", "match-handler-ran", "overlapping-handlers-resolved",
            "knowledge-unknown", "knowledge-accurate", "knowledge-stale", "stale-knowledge-failed-at-first-use",
            "lazy-first-use-failed-unsupported", "open-failed-no-common-protocol", "requested-id-removed-before-open",
            "mutation-overlaps-open", "concurrent-opens", "two-connections", "reconnect", "open-on-later-connection",
            "unused-stream-lazy", "unused-stream-eager", "handler-ran-for-unused-stream", "close-write-before-read",
            "first-read-races-first-write-lazy", "first-read-races-first-write-eager",
            "read-only-client-lazy", "read-only-client-eager", "null-resource-manager",
            "second-round-trip-after-idle-lazy", "second-round-trip-after-idle-eager",
            "cold-first-contact", "round-boundary-without-quiescence", "holder-keeps-protocol-scope-alive", "dialer-away-for-gc-periods", "returning-peer-open-ok",
            "transport-tcp", "transport-quic", "transport-webtransport", "lazy-ok-quic", "eager-ok-quic", "lazy-ok-webtransport",
            "eager-ok-webtransport", "verified-under-udp-loss", "second-round-trip-after-idle-quic",
            "second-round-trip-after-40s-idle-quic",
            "blank-dialer", "blank-listener"],
    real=["ALL of the following run as tasks of the seeded scheduler (instrumented: every lock, channel operation, select, go statement is a scheduling point)",
          "basic host (NewStream eager + lazy/optimistic path, newStreamHandler, SetStreamHandler/Match, RemoveStreamHandler), blank host",
          "identify + identify push (knowledge of the remote's protocols)", "go-multistream (muxer, SelectOneOf, lazy client)",
          "swarm (conns, streams, Stream.SetProtocol/Protocol)", "tcp transport dial path, upgrader, insecure|noise, yamux",
          "QUIC strata: quic-go v0.59, p2p/transport/quic, quicreuse, p2p/transport/webtransport, webtransport-go, quic-go/http3",
          "resource manager (real, infinite limits; protocol scopes read through Stat()) behind a refusing wrapper",
          "pstoremem (protocol book), eventbus"],
    stubs=["wire: simnet TCP model", "wire: simnet UDP model (drawn loss, duplication, per-copy latency)", "crypto/rand pinned by simrand on the QUIC strata", "refusing resource-manager wrapper (delegates to the real one; one refusal of SetProtocol in the fault stratum)"],
    assume=["virtual clock of testing/synctest", "the resource manager's gc runs on its one-minute ticker in virtual time", "2 virtual seconds suffice for an identify push / a stream teardown on links with <= 20 ms latency",
            "the Router documentation (first registered eligible handler wins, exact literal match) is the specification of handler choice"],
)
