# orchestrator configuration of the C07 check (loaded by tools/props.py)
from stack import FULL_STACK, FULL_DEPS

ENABLED = True

SPEC = dict(
    pkg="./harness/c07",
    instrument=FULL_STACK + ["./p2p/host/blank"],
    deps=FULL_DEPS,
    level="exploration",
    level_text="placeholder",
    level_note="placeholder",
    technique="deterministic simulation with fault injection",
    design_ref="DESIGN.md section 6 (C07)",
    quick_s=50, thorough_s=600,
    rule="placeholder",
    probes=[],
    real=[], stubs=[], assume=[],
)
