// C07 — stream protocol negotiation: both ends agree and the right handler runs.
//
// Full-stack, lock-level simulation: two real nodes (basic host with identify, or blank host) on
// simnet (insecure|noise, yamux, real multistream-select, REAL resource managers with infinite
// limits behind a refusing wrapper). The tape draws a listener handler set that evolves over time
// (exact IDs, match functions, overlapping names /a, /a/1, /a/1.1, re-registration, removal, with or
// without the identify push), the dialer's knowledge (identify result, cleared, injected, stale),
// connection events (simultaneous connect => two connections, reconnect) and rounds of 1-3 concurrent
// NewStream calls with ordered request lists of 1-4 IDs, optionally racing with handler mutations.
// Every handler closure is a distinct instance and echoes "<instance>|<Protocol() of its end>|<nonce>".
//
// Oracle classes (see oracle_test.go; all derived from the property statement, the doc comments of
// core/protocol.Router ("checked in order of registration; ... only the first to be registered will
// be invoked", "exact literal match") and host.Host.SetStreamHandler/RemoveStreamHandler):
//
//	C07/protocol-not-requested/{eager,lazy}   returned stream's Protocol() is not in the request list
//	C07/stream-not-bound/{eager,lazy}/{basic,blank}-dialer[/refusal-injected]   returned stream's Protocol() is empty
//	C07/handler-on-unbound-stream/{basic,blank}-listener[/refusal-injected]     handler ran on a stream with empty Protocol()
//	C07/ends-disagree/{eager,lazy,unused} handler's stream reports another ID than the dialer's
//	C07/cross-talk/*                      nonce came back from another stream / unknown or duplicate nonce / extra bytes
//	C07/wrong-handler/{not-registered,not-matching/<kind>,not-first-registered}
//	                                      handler that ran is not the one registered for / matching the ID
//	C07/removed-handler-ran               instance whose removal (or replacement) RETURNED before the open was INVOKED
//	C07/handler-ran-without-common-protocol, C07/handler-ran-for-failed-open, C07/handler-count
//	C07/open-succeeded-without-common-protocol/eager   a non-optimistic (fully negotiated) stream was returned
//	                                      although no possible handler table matches its ID
//	C07/open-failed-with-common-protocol, C07/first-use-failed-although-supported/{eager,lazy}  (liveness:
//	                                      no mutation overlapping the open, fault-free stratum only)
//	C07/scope-while-open/{dialer,listener}, C07/scope-after-close/{dialer,listener}
//	C07/stream-broke-after-negotiation/{dialer,listener}   second round trip after a long idle failed (all strata)
//	C07/panic
//
// Transport stratum (drawn FIRST, 3:1:1): TCP (insecure|noise + yamux, simnet TCP model) | QUIC | WebTransport
// over QUIC (real quic-go, p2p/transport/quic, quicreuse, webtransport-go, all instrumented, over simnet's UDP
// model; nodes built with QUIC: true, NoTCPListen: true [+ WebTransport: true, NoQUICListen: true], the dial
// target is QAddr / WTAddr(); simrand.Install before the nodes are built). Workload and oracles are the same
// in every transport stratum. On the QUIC strata the UDP wire draws duplication (0|5 %) and reordering
// (0/1/15 ms per copy) for the whole run and datagram loss (0|3|12 %) for the first k rounds only - never
// during connect or the teardown audit. Opens made while loss is active are "relaxed" exactly like opens under
// an injected refusal (may fail or time out; liveness oracles, handler-ran-for-failed-open and the second
// round trip are off; class tag /udp-loss); every safety oracle (handler choice, agreement of the ends,
// cross-talk, scope counters at quiescence) stays on: negotiation RESULTS must not depend on the wire. After a
// lossy round loss stops and a virtual minute passes (retransmission timers, 30 s idle timeout of a connection
// whose CONNECTION_CLOSE was lost) before the teardown audit and before any later, loss-free round, whose
// opens get the full liveness oracles again. Idle usage: 2x the listener's negotiation timeout (2-20 s, below
// QUIC's 30 s idle timeout and yamux's keep-alive period); on 1/3 of the QUIC runs 40 s, which only the
// transport's 15 s keep-alives carry across the idle timeout. C07_TRANSPORT=tcp|quic|webtransport forces the
// stratum (sensitivity runs only).
//
// Returning-peer scenario (1/4 of the runs, after the rounds, every stratum): a THIRD real node H connects to
// the listener, opens protocol X (a freshly set exact handler) and keeps the stream; the dialer opens X, ends
// the stream and closes all its connections [control, 1/4: H's stream ends now too]; 130|190|250 virtual
// seconds pass (two to four runs of the resource manager's once-a-minute gc, which collects the absent
// dialer's peer scope while X's protocol scope survives thanks to H); the dialer opens X again (NewStream
// re-dials; usage drawn). Usual oracles (handler, agreement, first-use-failed-although-supported, ...) and
// the protocol scopes of all three real managers read at quiescence while open and after the end.
//
// First contact and observation (audit of harness artefacts): the calls made only to observe are read-only
// in the code under test (pstoremem SupportsProtocols, ResourceManagerState.Stat - NOT ViewProtocol, which
// would create the scope -, Swarm.ConnsToPeer, Stream.Protocol/Conn). What did heal state was the harness's
// own pacing: (a) Connect + a settled identify exchange before the first round made every open a second
// contact; 1/4 of the runs are now COLD: no Connect, the first round's (concurrent) NewStream calls dial,
// so the first connection, first identify run and first scopes are created by the operations under test,
// possibly under the armed refusal, datagram loss or racing handler mutations (no oracle needs the warm-up;
// only the probes two-connections/simultaneous connect do not apply); the holder of the returning-peer
// scenario dials through NewStream in half of its runs; (b) every round ended at a quiescent instant plus
// 2 virtual seconds and a teardown audit; 1/3 of the non-final rounds without a nonce-less open now hand over
// to the next round as soon as the dialer's Close/Reset calls returned, while the listener still tears the
// streams down (the while-open audit stays exact: it counts handler runs that have not returned).
//
// Strata (drawn next): fault-free with real resource managers (3/5); one injected resource-manager refusal
// of SetProtocol on either node (1/5; an open may then fail, liveness oracles and "handler ran for a failed
// open" are off, every safety oracle stays on); fault-free with network.NullResourceManager on both nodes
// (1/5; its stream scope accepts any number of SetProtocol calls, so a second SetProtocol issued by a host's
// handler wrapper takes effect instead of being refused with "already attached"; scope oracles off).
// Stream usages: Write+Read | Write, CloseWrite, Read | no I/O | first Read racing the first Write |
// read-only client (CloseWrite is the very FIRST operation, then Read: the handler answers on a clean EOF).
// round trip, idle for twice the listener's HostOpts.NegotiationTimeout (drawn 10|1|2|3 s) in virtual time,
// second round trip on the same stream (the handler sets no deadline of its own and answers every nonce:
// C07/stream-broke-after-negotiation/{dialer,listener} if the bytes stop flowing on a healthy connection).
// Whatever the first operation is, a stream bound to an ID that every possible handler table matches must
// not fail at first use (C07/first-use-failed-although-supported).
//
// Weaker readings taken (guide rule 6):
//   - "fails at the latest on first use": an optimistic Write cannot know the answer; first use is the
//     first Write followed by the first Read (one round trip). A successful Write alone is not a violation.
//   - the statement does not promise success when the dialer's knowledge is stale (it picks ONE known
//     protocol optimistically and never falls back): a first-use failure is accepted whenever the
//     protocol the stream is bound to is unmatched in SOME handler set that was current during the open.
//   - overlapping handlers: the Router doc says the first registered eligible handler runs; whether a
//     re-registration under the same name keeps its slot or moves to the end is not documented: both accepted.
//   - a mutation concurrent with an open may be seen or not (every prefix of the mutation sequence between
//     "returned before the open was invoked" and "invoked before negotiation ended" is accepted).
//   - liveness is asserted only when no handler mutation overlaps the open.
//   - scope counters are compared for the protocol IDs of the workload only (identify's own streams use
//     /ipfs/id/1.0.0 and /ipfs/id/push/1.0.0 and are not looked at).
//
// Not covered: limited (relayed) connections, scripted UDP partitions / adversarial datagrams, wire faults on the identify push (staleness is produced by
// racing the push, by link latency and by mutating through Host.Mux(), which emits no event).
//
// Sensitivity. Each mutation was applied alone to a private copy of the generated overlay (instrumented
// /repo files) or of the instrumented go-multistream copy (private -modfile), built like ./check builds,
// and run on 6 workers; "after" = total runs of all workers until the first report (all < 10 s wall unless
// noted). MUTATIONS-TRIED (15 tried, 15 caught, 0 missed):
//
//	m1  basic NewStream eager path: SetProtocol(pids[0]) instead of the negotiated ID      [should-catch]
//	      -> C07/ends-disagree/eager (+ open-succeeded-without-common-protocol/eager, handler-ran-without-common-protocol); ~90 runs
//	m2  basic NewStream known-protocol (lazy) path skips SetProtocol                        [should-catch]
//	      -> C07/stream-not-bound/lazy/basic-dialer; ~10 runs
//	m3  SetStreamHandler registers exact IDs with a prefix match (lookup by prefix)         [should-catch]
//	      -> C07/handler-ran-without-common-protocol, C07/wrong-handler/not-matching/exact, open-succeeded-without-common-protocol/eager; ~50 runs
//	m4  basic newStreamHandler dispatches although SetProtocol failed                       [should-catch]
//	      -> C07/handler-on-unbound-stream/basic-listener/refusal-injected (fault stratum); ~130 runs
//	m5  streamWrapper gets its own Protocol() returning a constant                          [should-catch]
//	      -> C07/ends-disagree/lazy, C07/protocol-not-requested/lazy, C07/scope-while-open/dialer; ~10 runs
//	m6  RemoveStreamHandler does not remove from the mux -> C07/removed-handler-ran (+ open-succeeded-without-common-protocol/eager); ~140 runs
//	m7  multistream Negotiate returns the handler's registered name instead of the proposed ID -> C07/ends-disagree/{eager,lazy,unused}; ~20 runs
//	m8  multistream findHandler prefers the last registered handler -> C07/wrong-handler/not-first-registered; ~40 runs
//	m9  preferredProtocol ignores the request list (takes any known protocol) -> C07/protocol-not-requested/lazy; ~10 runs
//	m10 swarm Stream.SetProtocol records the ID without charging the scope -> C07/scope-while-open/{dialer,listener}; ~6 runs
//	m11 swarm Conn.removeStream never calls scope.Done -> C07/scope-after-close/{dialer,listener}; ~6 runs
//	m12 multistream client treats "na" as acceptance -> C07/open-succeeded-without-common-protocol/eager; ~20 runs
//	m13 blank NewStream drops the SetProtocol error (the code before /repo 53b34e0) -> C07/stream-not-bound/eager/blank-dialer/refusal-injected; ~480 runs
//	m14 blank newStreamHandler drops the SetProtocol error (before 53b34e0) -> C07/handler-on-unbound-stream/blank-listener/refusal-injected;
//	      ~9 700 runs / 30 s (needs blank listener + refusal on the listener hitting the user stream + handler registered through Mux())
//	m15 multistream AddHandlerWithFunc does not replace a handler of the same name -> C07/removed-handler-ran; ~15 runs
//
// Seeded by the lead (scratch worktree + VERIF_REPO, ./check C07 quick, 8 workers), both missed before the
// read-only usage / the null-manager stratum existed, both caught now:
//
//	s1  streamWrapper.CloseWrite half-closes before flushing the lazy handshake -> C07/first-use-failed-although-supported/lazy (run 0)
//	s2  blank SetStreamHandler(/Match) wrappers call SetProtocol(registration id) -> C07/ends-disagree/{eager,lazy,unused} (~3 400 runs, 18 s)
//
//	s3  basic newStreamHandler clears only the READ deadline after Negotiate (write deadline of the negotiation survives)
//	      -> C07/stream-broke-after-negotiation/listener (handler's later Write: "i/o deadline reached"); run 8, missed before the idle usage existed
//
// Through the QUIC strata (scratch worktree + VERIF_REPO + C07_TRANSPORT, ./check C07 quick, 8 workers), all caught:
//
//	m1 via quic -> C07/ends-disagree/eager, open-succeeded-without-common-protocol/eager (48 runs)
//	m2 via webtransport -> C07/stream-not-bound/lazy/basic-dialer[/udp-loss|/refusal-injected] (72 runs)
//	m6 via quic -> C07/removed-handler-ran (+ open-succeeded-without-common-protocol/eager)
//	s3 via quic -> C07/stream-broke-after-negotiation/listener (handler's later Write: "deadline exceeded")
//	q1 QUIC-specific: p2p/transport/quic/stream.go CloseWrite mapped to CancelWrite (a reset instead of a FIN)
//	      -> C07/first-use-failed-although-supported/{lazy,eager} (read-only client / CloseWrite usages), 81 runs
//
//	s4  rcmgr gc() keeps the closed per-peer sub-scope of a dead peer in a surviving protocol scope (third-round seed C07c-1)
//	      -> C07/first-use-failed-although-supported/{lazy,eager}, C07/open-failed-with-common-protocol (returning-peer scenario:
//	         listener resets with 0x1002 the stream both ends agreed on); run 0; missed before the scenario existed
//
// Not caught by design: identify never pushing protocol changes (the statement allows stale knowledge to fail at first use).
//
// Genuine defect found on the tree before 53b34e0 (now fixed there): the blank host ignored a refused
// Stream.SetProtocol on both the dialing and the accepting side (classes of m13/m14).
package c07

import (
	"context"
	"fmt"
	"io"
	"os"
	"sort"
	"strings"
	"testing"
	"time"

	"github.com/libp2p/go-libp2p/core/host"
	"github.com/libp2p/go-libp2p/core/network"
	"github.com/libp2p/go-libp2p/core/peer"
	"github.com/libp2p/go-libp2p/core/peerstore"
	"github.com/libp2p/go-libp2p/core/protocol"
	basichost "github.com/libp2p/go-libp2p/p2p/host/basic"
	blankhost "github.com/libp2p/go-libp2p/p2p/host/blank"
	rcmgr "github.com/libp2p/go-libp2p/p2p/host/resource-manager"
	"github.com/libp2p/go-libp2p/p2p/net/swarm"
	ma "github.com/multiformats/go-multiaddr"

	"verifsim/harness/common"
	"verifsim/simhost"
	"verifsim/simnet"
	"verifsim/simrand"
	"verifsim/simrt"
	"verifsim/simsync"
)

func TestSim(t *testing.T) { common.Main(t, common.Harness{Property: "C07", Run: run}) }

// ---- workload vocabulary ------------------------------------------------------------------------

// IDs a dialer may ask for. "/b" is the NAME of an alias match handler that does not match its own
// name; "/zz" is never handled.
var reqUniverse = []protocol.ID{"/a/1", "/a/1.1", "/a", "/a/2", "/b/1", "/b/2", "/c", "/b", "/zz"}

type hspec struct {
	name  protocol.ID
	kind  string // exact | prefix | semver | alias
	match func(protocol.ID) bool
}

func eq(p protocol.ID) func(protocol.ID) bool { return func(x protocol.ID) bool { return x == p } }

var hspecs = []hspec{
	{"/a/1", "exact", eq("/a/1")},
	{"/a/1.1", "exact", eq("/a/1.1")},
	{"/a", "exact", eq("/a")},
	{"/b/1", "exact", eq("/b/1")},
	{"/a", "prefix", func(x protocol.ID) bool { return x == "/a" || strings.HasPrefix(string(x), "/a/") }},
	{"/a/1", "semver", func(x protocol.ID) bool { return x == "/a/1" || strings.HasPrefix(string(x), "/a/1.") }},
	{"/b", "alias", func(x protocol.ID) bool { return x == "/b/2" || x == "/c" }},
	{"/c", "exact", eq("/c")},
}

var hnames = []protocol.ID{"/a/1", "/a/1.1", "/a", "/b/1", "/b", "/c"}

// ---- plan (drawn before the simulation starts) -----------------------------------------------------

type mutPlan struct {
	remove bool
	silent bool // through Host.Mux(): no EvtLocalProtocolsUpdated, hence no identify push
	spec   int  // set: index into hspecs
	name   protocol.ID
}

func (m mutPlan) String() string {
	via := "host"
	if m.silent {
		via = "mux"
	}
	if m.remove {
		return fmt.Sprintf("remove %s via %s", m.name, via)
	}
	return fmt.Sprintf("set %s(%s) via %s", hspecs[m.spec].name, hspecs[m.spec].kind, via)
}

const (
	trTCP  = 0
	trQUIC = 1
	trWT   = 2
)

var trNames = []string{"tcp", "quic", "webtransport"}

const (
	useNormal     = 0 // Write(nonce); Read(reply); hold; end
	useCloseWrite = 1 // Write(nonce); CloseWrite; Read(reply); hold; end
	useUnused     = 2 // no I/O at all, end immediately
	useDuplex     = 3 // first Read (own task) and first Write race; hold; end
	useReadOnly   = 4 // read-only client: CloseWrite is the very first operation, then Read(reply); hold; end
	useIdle       = 5 // Write+Read; idle (virtual time) for twice the listener's negotiation timeout; Write+Read again; hold; end
)

type openPlan struct {
	req    []protocol.ID
	use    int
	reset  bool // end with Reset instead of Close
	yields int  // scheduling points before NewStream
}

type roundPlan struct {
	pre       []mutPlan
	propagate bool // settle (virtual time) after the pre mutations so that the identify push arrives
	know      int  // 0 none, 1 clear the dialer's knowledge of the listener's protocols, 2 inject an ID into it
	knowID    protocol.ID
	connOp    int // 0 none, 1 dialer closes its connections to the listener (the opens re-dial)
	connWait  bool
	opens     []openPlan
	conc      []mutPlan // executed by a mutator task concurrently with the opens
	concYield int
	// noSettle: the round ends when the dialer's Close/Reset calls have returned; the next round starts at once,
	// while the listener is still tearing the streams down (no quiescent instant, no teardown audit in between)
	noSettle bool
}

type plan struct {
	blankA, blankB bool
	secu           string
	mode           simnet.LinkMode
	lat            []time.Duration
	simul          bool // both sides connect at the same time (usually two connections)
	initial        []mutPlan
	rounds         []roundPlan
	fault          bool          // stratum: one injected resource-manager refusal of SetProtocol
	nullRcmgr      bool          // stratum: both nodes run with network.NullResourceManager
	negB           time.Duration // listener's HostOpts.NegotiationTimeout (basic host; 0 = simhost default 10 s)
	transport      int           // trTCP | trQUIC | trWT
	udpDrop        int           // permille, QUIC strata
	udpDup         int
	udpLat         []time.Duration
	udpLossRounds  int  // datagram loss is active during rounds [0, udpLossRounds)
	longIdle       bool // QUIC strata: the idle usage idles 40 s (beyond QUIC's 30 s idle timeout; 15 s keep-alives must hold the connection)
	randSeed       uint64
	// returning-peer scenario after the rounds (third node H holds a stream of protocol X on the listener while
	// the dialer is away for several resource-manager gc periods, then the dialer reconnects and opens X)
	gc        bool
	gcSpec    int           // exact handler spec that defines X
	gcAway    time.Duration // 130|190|250 s: two to four runs of the once-a-minute gc
	gcControl bool          // control: H's stream ends before the dialer goes away (X's scope is collected entirely)
	gcUse     int           // usage of the dialer's open after it returned
	gcColdH   bool          // H does not Connect first: its NewStream dials (first contact)
	// cold: no Connect before the first round: the first round's NewStream calls (concurrent, possibly under an
	// armed refusal / datagram loss / racing handler mutations) dial the listener themselves, so the first
	// connection, the first identify exchange and the first scopes are created by the operations under test
	cold       bool
	faultRound int
	faultOnB   bool
	faultN     int
}

func drawMut(g simrt.Gen) mutPlan {
	var m mutPlan
	m.remove = g.Chance(2, 5)
	m.silent = g.Chance(1, 4)
	if m.remove {
		m.name = hnames[g.Int(len(hnames))]
	} else {
		m.spec = g.Int(len(hspecs))
		m.name = hspecs[m.spec].name
	}
	return m
}

// drawReq draws an ordered request list; live are the IDs matched by the planned handler table at that
// point (half of the entries are taken from it so that most opens have something to negotiate).
func drawReq(g simrt.Gen, live []protocol.ID) []protocol.ID {
	n := 1 + g.Weighted(4, 4, 2, 1)
	var out []protocol.ID
	used := map[protocol.ID]bool{}
	for len(out) < n {
		p := reqUniverse[g.Int(len(reqUniverse))]
		if len(live) > 0 && g.Bool() {
			p = live[g.Int(len(live))]
		}
		if used[p] {
			// deterministic: take the next unused one
			for _, q := range reqUniverse {
				if !used[q] {
					p = q
					break
				}
			}
		}
		used[p] = true
		out = append(out, p)
	}
	return out
}

// planTable tracks which names are registered according to the plan (concurrent mutations included in
// plan order); used only to bias draws.
type planTable map[protocol.ID]int

func (t planTable) apply(m mutPlan) {
	if m.remove {
		delete(t, m.name)
	} else {
		t[m.name] = m.spec
	}
}

func (t planTable) live() []protocol.ID {
	var out []protocol.ID
	for _, id := range reqUniverse {
		for _, name := range hnames {
			if sp, ok := t[name]; ok && hspecs[sp].match(id) {
				out = append(out, id)
				break
			}
		}
	}
	return out
}

func drawPlan(g simrt.Gen) plan {
	var p plan
	// transport stratum first: 0 TCP (security + yamux), 1 QUIC, 2 WebTransport over QUIC; the rest of the
	// plan is drawn the same way in every stratum (link settings of the TCP model are unused on QUIC)
	p.transport = g.Weighted(3, 1, 1)
	switch os.Getenv("C07_TRANSPORT") { // sensitivity runs only: force one transport stratum (the draw is still consumed)
	case "tcp":
		p.transport = trTCP
	case "quic":
		p.transport = trQUIC
	case "webtransport":
		p.transport = trWT
	}
	// stratum first: 0 fault-free with real resource managers, 1 one injected SetProtocol refusal,
	// 2 fault-free with network.NullResourceManager on both nodes (a stream scope that accepts any number
	// of SetProtocol calls; no scope oracles there)
	switch g.Weighted(3, 1, 1) {
	case 1:
		p.fault = true
	case 2:
		p.nullRcmgr = true
	}
	hk := g.Weighted(6, 2, 1, 1)
	p.blankA = hk == 1 || hk == 3
	p.blankB = hk == 2 || hk == 3
	p.secu = []string{"insecure", "noise"}[g.Weighted(3, 1)]
	p.mode = []simnet.LinkMode{simnet.Whole, simnet.Fragment}[g.Weighted(3, 1)]
	if g.Chance(1, 3) {
		p.lat = []time.Duration{0, time.Millisecond, 20 * time.Millisecond}
	}
	p.simul = g.Chance(1, 5)
	p.negB = []time.Duration{0, time.Second, 2 * time.Second, 3 * time.Second}[g.Weighted(2, 1, 1, 1)]
	tab := planTable{}
	ni := 1 + g.Int(4)
	for i := 0; i < ni; i++ {
		m := mutPlan{spec: g.Int(len(hspecs))}
		m.name = hspecs[m.spec].name
		p.initial = append(p.initial, m)
		tab.apply(m)
	}
	nr := 1 + g.Weighted(3, 3, 2)
	for r := 0; r < nr; r++ {
		var rp roundPlan
		np := g.Weighted(3, 3, 1)
		if r == 0 {
			np = g.Weighted(5, 2, 1)
		}
		before := tab.live() // IDs that worked before this round's mutations (stale candidates)
		for i := 0; i < np; i++ {
			m := drawMut(g)
			rp.pre = append(rp.pre, m)
			tab.apply(m)
		}
		live := append(tab.live(), before...)
		rp.propagate = !g.Chance(1, 2)
		rp.know = g.Weighted(6, 1, 2)
		if rp.know == 2 {
			rp.knowID = reqUniverse[g.Int(len(reqUniverse))]
		}
		if g.Chance(1, 8) {
			rp.connOp = 1
			rp.connWait = g.Bool()
		}
		no := 1 + g.Weighted(3, 3, 2)
		unusedGiven := false
		for i := 0; i < no; i++ {
			op := openPlan{req: drawReq(g, live)}
			op.use = g.Weighted(8, 2, 1, 2, 2, 2)
			if op.use == useUnused || op.use == useReadOnly {
				if unusedGiven {
					op.use = useNormal // at most one open per round that sends no nonce (attribution of nonce-less handler runs)
				}
				unusedGiven = true
			}
			op.reset = g.Chance(1, 4)
			op.yields = g.Int(3)
			rp.opens = append(rp.opens, op)
		}
		if g.Chance(1, 3) {
			nc := 1 + g.Int(2)
			for i := 0; i < nc; i++ {
				m := drawMut(g)
				rp.conc = append(rp.conc, m)
				tab.apply(m)
			}
			rp.concYield = g.Int(4)
		}
		p.rounds = append(p.rounds, rp)
	}
	if p.fault {
		p.faultRound = g.Int(len(p.rounds))
		p.faultOnB = g.Bool()
		p.faultN = 1 + g.Int(4)
	}
	if g.Chance(1, 4) {
		p.gc = true
		p.gcSpec = []int{0, 1, 2, 3, 7}[g.Int(5)]
		p.gcAway = []time.Duration{130 * time.Second, 190 * time.Second, 250 * time.Second}[g.Int(3)]
		p.gcControl = g.Chance(1, 4)
		p.gcUse = []int{useNormal, useCloseWrite, useReadOnly, useDuplex}[g.Weighted(4, 1, 1, 1)]
	}
	p.cold = g.Chance(1, 4)
	p.gcColdH = g.Bool()
	for r := range p.rounds {
		rp := &p.rounds[r]
		nonceless := false
		for _, op := range rp.opens {
			if op.use == useUnused || op.use == useReadOnly {
				nonceless = true // its handler run is attributed by round: needs the quiescent round boundary
			}
		}
		rp.noSettle = r < len(p.rounds)-1 && !nonceless && g.Chance(1, 3)
	}
	if p.transport != trTCP {
		// light faults on the UDP wire: loss only during the rounds < udpLossRounds (never during connect,
		// never during the teardown audit), duplication and reordering throughout
		p.udpDrop = []int{0, 30, 120}[g.Weighted(2, 1, 1)]
		p.udpDup = []int{0, 50}[g.Weighted(2, 1)]
		if g.Chance(1, 2) {
			p.udpLat = []time.Duration{0, time.Millisecond, 15 * time.Millisecond}
		}
		if p.udpDrop > 0 {
			p.udpLossRounds = 1 + g.Int(len(p.rounds))
		}
		p.longIdle = g.Chance(1, 3)
		p.randSeed = uint64(1 + g.Int(1000))
	}
	return p
}

// ---- run-time records ----------------------------------------------------------------------------------

type inst struct {
	id   int
	spec int
}

func (i *inst) String() string {
	return fmt.Sprintf("h%d[%s %s]", i.id, hspecs[i.spec].name, hspecs[i.spec].kind)
}

type mutation struct {
	mutPlan
	in       *inst // set: the new instance
	inv, ret uint64
}

type openRec struct {
	idx, round int
	from       int // 0 = the dialer A, 1 = the holder H (returning-peer scenario)
	plan       openPlan
	known      []protocol.ID // dialer's peerstore ∩ request list just before the call (strata/probes only)
	inv, ret   uint64
	openErr    string
	proto      protocol.ID
	lazy       bool
	connIdx    int
	nonce      string
	useDone    uint64 // after the first round trip finished (or failed) / after the unused stream was ended
	useErr     string
	reply      string
	held       bool
	idled      time.Duration // useIdle: virtual time between the two round trips
	nonce2     string
	reply2     string
	use2Err    string
	use2Done   uint64
	faultArmed bool
	lossy      bool // datagram loss was active on the UDP wire during this open
}

type invocation struct {
	in      *inst
	round   int
	seen    protocol.ID
	start   uint64
	nonce   string
	anon    bool // could not read a full nonce
	replied bool
	holding bool
	active  bool     // handler has not returned yet
	extra   int      // bytes received after the last complete nonce (a partial message)
	answers int      // replies written (first included)
	nonces  []string // every further nonce received after the first
	endErr  string
}

const nonceLen = 12

type world struct {
	o      *common.Outcome
	p      plan
	a, b   *simhost.Node
	hA, hB host.Host
	rmA    network.ResourceManager // real managers
	rmB    network.ResourceManager
	rwA    *simhost.RefusingRcmgr
	rwB    *simhost.RefusingRcmgr
	h      *simhost.Node // holder (returning-peer scenario only)
	hH     host.Host
	rmH    network.ResourceManager

	nextInst int
	insts    []*inst
	muts     []*mutation
	opens    []*openRec
	invs     []*invocation
	conns    []network.Conn
	round    int
	release  chan struct{}
	firedAt  int // round in which the injected refusal was armed (-1 none)
}

func (w *world) handler(in *inst) network.StreamHandler {
	return func(s network.Stream) {
		iv := &invocation{in: in, round: w.round, seen: s.Protocol(), start: simrt.Stamp(), active: true}
		w.invs = append(w.invs, iv)
		defer func() { iv.active = false }()
		rel := w.release
		s.SetReadDeadline(time.Now().Add(30 * time.Second))
		buf := make([]byte, nonceLen)
		tag := ""
		if _, err := io.ReadFull(s, buf); err != nil {
			iv.anon = true
			iv.endErr = "nonce: " + short(err)
			if err != io.EOF {
				s.Reset()
				return
			}
			// clean EOF before any byte: a read-only client (or a stream ended without I/O); answer anyway
			tag = "EOF"
		} else {
			iv.nonce = string(buf)
			tag = iv.nonce
		}
		if _, err := s.Write([]byte(fmt.Sprintf("%d|%s|%s\n", in.id, s.Protocol(), tag))); err != nil {
			iv.endErr = "reply: " + short(err)
			s.Reset()
			return
		}
		iv.replied = true
		iv.answers = 1
		iv.holding = true
		defer func() { iv.holding = false }()
		// The handler manages no deadline of its own from here on: it answers every further nonce for as
		// long as the dialer keeps the stream, however long the stream has existed.
		s.SetReadDeadline(time.Time{})
		for {
			n, err := io.ReadFull(s, buf)
			if err == nil {
				iv.nonces = append(iv.nonces, string(buf))
				if _, werr := s.Write([]byte(fmt.Sprintf("%d|%s|%s\n", in.id, s.Protocol(), string(buf)))); werr != nil {
					iv.endErr = "later reply: " + short(werr)
					s.Reset()
					return
				}
				iv.answers++
				continue
			}
			iv.extra += n
			if err == io.EOF || err == io.ErrUnexpectedEOF {
				// the dialer closed (its write side): keep the stream until the round's audit is over
				simrt.Recv("c07.handler.hold", (<-chan struct{})(rel))
				s.Close()
				return
			}
			iv.endErr = "drain: " + short(err)
			s.Reset()
			return
		}
	}
}

func short(err error) string {
	s := err.Error()
	if len(s) > 90 {
		s = s[:90]
	}
	return s
}

func (w *world) apply(mp mutPlan) {
	m := &mutation{mutPlan: mp}
	var h network.StreamHandler
	if !mp.remove {
		w.nextInst++
		m.in = &inst{id: w.nextInst, spec: mp.spec}
		w.insts = append(w.insts, m.in)
		h = w.handler(m.in)
	}
	w.muts = append(w.muts, m)
	sp := hspecs[mp.spec]
	m.inv = simrt.Stamp()
	switch {
	case mp.remove && mp.silent:
		w.hB.Mux().RemoveHandler(mp.name)
	case mp.remove:
		w.hB.RemoveStreamHandler(mp.name)
	case mp.silent:
		fn := func(_ protocol.ID, rwc io.ReadWriteCloser) error { h(rwc.(network.Stream)); return nil }
		if sp.kind == "exact" {
			w.hB.Mux().AddHandler(sp.name, fn)
		} else {
			w.hB.Mux().AddHandlerWithFunc(sp.name, sp.match, fn)
		}
	case sp.kind == "exact":
		w.hB.SetStreamHandler(sp.name, h)
	default:
		w.hB.SetStreamHandlerMatch(sp.name, sp.match, h)
	}
	m.ret = simrt.Stamp()
	if m.in != nil {
		w.o.Logf("  mut#%d [%d,%d] %s -> %s", len(w.muts), m.inv, m.ret, mp, m.in)
	} else {
		w.o.Logf("  mut#%d [%d,%d] %s", len(w.muts), m.inv, m.ret, mp)
	}
}

func (w *world) connIndex(c network.Conn) int {
	for i, x := range w.conns {
		if x == c {
			return i
		}
	}
	w.conns = append(w.conns, c)
	return len(w.conns) - 1
}

func readLine(s network.Stream) (string, error) {
	var acc []byte
	buf := make([]byte, 64)
	for len(acc) < 256 {
		n, err := s.Read(buf)
		acc = append(acc, buf[:n]...)
		if k := strings.IndexByte(string(acc), '\n'); k >= 0 {
			return string(acc[:k]), nil
		}
		if err != nil {
			return string(acc), err
		}
	}
	return string(acc), fmt.Errorf("no newline in %d bytes", len(acc))
}

func (w *world) open(op *openRec, rel <-chan struct{}, reached func()) {
	marked := false
	mark := func() {
		if !marked {
			marked = true
			reached()
		}
	}
	defer mark()
	for i := 0; i < op.plan.yields; i++ {
		simrt.Yield("c07.open.start")
	}
	from, fromHost := w.a, w.hA
	if op.from == 1 {
		from, fromHost = w.h, w.hH
	}
	op.known, _ = from.PS.SupportsProtocols(w.b.ID, op.plan.req...)
	ctx, cancel := context.WithTimeout(context.Background(), 20*time.Second)
	defer cancel()
	op.inv = simrt.Stamp()
	s, err := fromHost.NewStream(ctx, w.b.ID, op.plan.req...)
	op.ret = simrt.Stamp()
	if err != nil {
		op.openErr = short(err)
		op.useDone = op.ret
		return
	}
	op.proto = s.Protocol()
	_, eager := s.(*swarm.Stream)
	op.lazy = !eager
	op.connIdx = w.connIndex(s.Conn())
	end := func() {
		if op.plan.reset {
			s.Reset()
		} else {
			s.Close()
		}
	}
	if op.plan.use == useUnused {
		end()
		op.useDone = simrt.Stamp()
		return
	}
	s.SetDeadline(time.Now().Add(30 * time.Second))
	var werr, rerr error
	if op.plan.use == useDuplex {
		// the first Read is issued by another task and may come before, during or after the first Write
		type rd struct {
			line string
			err  error
		}
		rc := make(chan rd, 1)
		simrt.GoNamed(fmt.Sprintf("reader%d", op.idx), func() {
			l, e := readLine(s)
			simrt.Send("c07.reader.done", (chan<- rd)(rc), rd{l, e})
		})
		simrt.Yield("c07.open.duplex")
		_, werr = s.Write([]byte(op.nonce))
		r := simrt.Recv("c07.open.reader", (<-chan rd)(rc))
		op.reply, rerr = r.line, r.err
	} else if op.plan.use == useReadOnly {
		if err := s.CloseWrite(); err != nil {
			werr = fmt.Errorf("CloseWrite: %w", err)
		} else {
			op.reply, rerr = readLine(s)
		}
	} else {
		_, werr = s.Write([]byte(op.nonce))
		if werr == nil && op.plan.use == useCloseWrite {
			s.CloseWrite()
		}
		if werr == nil {
			op.reply, rerr = readLine(s)
		}
	}
	op.useDone = simrt.Stamp()
	if werr != nil || rerr != nil {
		if werr != nil {
			op.useErr = "write: " + short(werr)
		} else {
			op.useErr = "read: " + short(rerr)
		}
		s.Reset()
		return
	}
	s.SetDeadline(time.Time{})
	if op.plan.use == useIdle {
		// a stream that stays in use long after it was negotiated: bytes must keep flowing both ways
		// twice the listener's negotiation timeout (2-20 s): below QUIC's 30 s connection idle timeout and
		// yamux's 30 s keep-alive period; on the QUIC strata optionally 40 s, which only the transport's
		// 15 s keep-alives carry across the idle timeout
		idle := 2 * w.negTimeoutB()
		if w.p.longIdle {
			idle = 40 * time.Second
		}
		simrt.TimeSleep(idle)
		op.idled = idle
		op.nonce2 = "M" + op.nonce[1:]
		s.SetDeadline(time.Now().Add(30 * time.Second))
		if _, err := s.Write([]byte(op.nonce2)); err != nil {
			op.use2Err = "write: " + short(err)
		} else if op.reply2, err = readLine(s); err != nil {
			op.use2Err = "read: " + short(err)
		}
		op.use2Done = simrt.Stamp()
		if op.use2Err != "" {
			s.Reset()
			return
		}
		s.SetDeadline(time.Time{})
	}
	op.held = true
	mark()
	simrt.Recv("c07.open.hold", rel)
	op.held = false
	end()
}

func (w *world) negTimeoutB() time.Duration {
	if w.p.negB != 0 {
		return w.p.negB
	}
	return 10 * time.Second // simhost's default HostOpts.NegotiationTimeout
}

// returningPeer: the statement's "charged to the negotiated protocol's resource scope" and "a supported
// protocol opens" must also hold for a peer that was away while the listener's resource manager collected
// its scopes (once a minute) and the protocol's scope survived because another peer kept a stream of it.
//
//	step R   : H connects to the listener and opens X (round trip), its stream stays open
//	step R+1 : the dialer opens X (round trip), audit, ends the stream, closes all its connections
//	           [control: H's stream ends now]; 130|190|250 virtual seconds pass
//	step R+2 : the dialer opens X again (NewStream re-dials): usual oracles; audit of all three managers
//	           while the streams are open and after everything ended
func (w *world) returningPeer(infoB peer.AddrInfo) bool {
	o, p := w.o, w.p
	R := len(p.rounds)
	w.round = R
	o.Logf("returning-peer scenario (away %v, control=%v):", p.gcAway, p.gcControl)
	w.apply(mutPlan{spec: p.gcSpec, name: hspecs[p.gcSpec].name})
	X := hspecs[p.gcSpec].name
	settle(2 * time.Second)
	w.h.PS.AddAddrs(w.b.ID, infoB.Addrs, peerstore.PermanentAddrTTL)
	if !p.gcColdH {
		ctx, cancel := context.WithTimeout(context.Background(), 30*time.Second)
		err := w.hH.Connect(ctx, infoB)
		cancel()
		if err != nil {
			o.Trouble = "holder connect failed: " + err.Error()
			return false
		}
	}
	settle(2 * time.Second)
	step := func(r int, from int, use int) (*openRec, chan struct{}, *simsync.WaitGroup) {
		w.round = r
		rel := make(chan struct{})
		w.release = rel
		op := &openRec{idx: len(w.opens), round: r, from: from, plan: openPlan{req: []protocol.ID{X}, use: use}, faultArmed: w.firedAt >= 0}
		op.nonce = fmt.Sprintf("N%03d-%07d", op.idx, (op.idx*7919+13)%10000000)
		w.opens = append(w.opens, op)
		var wg, reached simsync.WaitGroup
		wg.Add(1)
		reached.Add(1)
		simrt.GoNamed(fmt.Sprintf("open%d.%d", r, from), func() {
			defer wg.Done()
			w.open(op, rel, reached.Done)
		})
		reached.Wait()
		simrt.WaitIdle()
		return op, rel, &wg
	}
	opH, relH, wgH := step(R, 1, useNormal)
	if opH.held {
		o.Probe("holder-keeps-protocol-scope-alive")
	}
	_, rel1, wg1 := step(R+1, 0, useNormal)
	w.auditHeld(R + 1)
	close(rel1)
	wg1.Wait()
	settle(2 * time.Second)
	w.a.Swarm.ClosePeer(w.b.ID)
	settle(2 * time.Second)
	if p.gcControl {
		close(relH)
		wgH.Wait()
		settle(2 * time.Second)
	}
	o.Logf("  dialer closed every connection; %v pass", p.gcAway)
	simrt.TimeSleep(p.gcAway)
	simrt.WaitIdle()
	if n := len(w.b.Swarm.ConnsToPeer(w.a.ID)); n != 0 {
		o.Logf("  listener still lists %d connections to the dialer", n)
	} else {
		o.Probe("dialer-away-for-gc-periods")
	}
	op2, rel2, wg2 := step(R+2, 0, p.gcUse)
	if op2.held {
		o.Probe("returning-peer-open-ok")
	}
	w.auditHeld(R + 2)
	close(rel2)
	wg2.Wait()
	if !p.gcControl {
		close(relH)
		wgH.Wait()
	}
	settle(2 * time.Second)
	w.auditClosed(R + 2)
	return true
}

func settle(d time.Duration) {
	simrt.WaitIdle()
	simrt.TimeSleep(d)
	simrt.WaitIdle()
}

func protoStats(rm network.ResourceManager) map[protocol.ID]network.ScopeStat {
	return rm.(rcmgr.ResourceManagerState).Stat().Protocols
}

// auditHeld compares, at a quiescent instant, the protocol scopes of both real managers with the
// streams the harness holds open.
func (w *world) auditHeld(r int) {
	if w.p.nullRcmgr {
		return
	}
	expA, expB, expH := map[protocol.ID]int{}, map[protocol.ID]int{}, map[protocol.ID]int{}
	for _, op := range w.opens {
		if op.held && op.from == 0 {
			expA[op.proto]++
		}
		if op.held && op.from == 1 {
			expH[op.proto]++
		}
	}
	for _, iv := range w.invs {
		// a stream stays charged until its handler has ended it AND returned; at a quiescent instant
		// that is exactly the set of handler runs that have not returned (holding, or still waiting
		// for the FIN/RST of a stream the dialer ended without I/O)
		if iv.active {
			expB[iv.seen]++
		}
	}
	stA, stB := protoStats(w.rmA), protoStats(w.rmB)
	for _, id := range reqUniverse {
		if got := stA[id]; got.NumStreamsOutbound != expA[id] || got.NumStreamsInbound != 0 {
			w.o.Violate("C07/scope-while-open/dialer", "round %d: dialer holds %d open streams bound to %s but its manager's scope for %s reads %+v", r, expA[id], id, id, got)
		}
		if w.rmH != nil {
			if got := protoStats(w.rmH)[id]; got.NumStreamsOutbound != expH[id] || got.NumStreamsInbound != 0 {
				w.o.Violate("C07/scope-while-open/dialer", "round %d: the holder node holds %d open streams bound to %s but its manager's scope for %s reads %+v", r, expH[id], id, id, got)
			}
		}
		if got := stB[id]; got.NumStreamsInbound != expB[id] || got.NumStreamsOutbound != 0 {
			w.o.Violate("C07/scope-while-open/listener", "round %d: %d running handlers have a stream reporting %s but the listener's manager's scope for %s reads %+v", r, expB[id], id, id, got)
		}
	}
}

func (w *world) auditClosed(r int) {
	if w.p.nullRcmgr {
		return
	}
	stA, stB := protoStats(w.rmA), protoStats(w.rmB)
	for _, id := range reqUniverse {
		if got := stA[id]; got != (network.ScopeStat{}) {
			w.o.Violate("C07/scope-after-close/dialer", "round %d: every stream ended, dialer's scope for %s still reads %+v", r, id, got)
		}
		if w.rmH != nil {
			if got := protoStats(w.rmH)[id]; got != (network.ScopeStat{}) {
				w.o.Violate("C07/scope-after-close/dialer", "round %d: every stream ended, the holder node's scope for %s still reads %+v", r, id, got)
			}
		}
		if got := stB[id]; got != (network.ScopeStat{}) {
			w.o.Violate("C07/scope-after-close/listener", "round %d: every stream ended, listener's scope for %s still reads %+v", r, id, got)
		}
	}
}

func run(t *testing.T, tape *simrt.Tape) *common.Outcome {
	g := simrt.Gen{S: tape.G}
	o := &common.Outcome{}
	p := drawPlan(g)
	w := &world{o: o, p: p, firedAt: -1}
	hn := func(blank bool) string {
		if blank {
			return "blank"
		}
		return "basic"
	}
	o.Logf("dialer=%s listener=%s security=%s link=%d latencies=%v simultaneous-connect=%v fault=%v(round %d onB=%v n=%d)",
		hn(p.blankA), hn(p.blankB), p.secu, p.mode, p.lat, p.simul && !p.cold, p.fault, p.faultRound, p.faultOnB, p.faultN)
	o.Logf("listener negotiation timeout: %v", w.negTimeoutB())
	o.Probe("transport-" + trNames[p.transport])
	if p.transport != trTCP {
		o.Logf("transport=%s udp: drop=%d permille during rounds <%d, dup=%d permille, latencies=%v, long idle=%v", trNames[p.transport], p.udpDrop, p.udpLossRounds, p.udpDup, p.udpLat, p.longIdle)
	}
	if p.nullRcmgr {
		o.Logf("both nodes use network.NullResourceManager (no scope oracles)")
		o.Probe("null-resource-manager")
	}
	finished := false

	maxSteps := 600000
	if p.transport != trTCP {
		maxSteps = 4000000
		restore := simrand.Install(p.randSeed) // deterministic crypto/rand (connection ids, TLS randoms) before any node exists
		defer restore()
	}
	udp := func(n *simnet.Net, loss bool) {
		c := simnet.UDPConfig{DupPermille: p.udpDup, Latencies: p.udpLat}
		if loss {
			c.DropPermille = p.udpDrop
		}
		n.SetUDP(c)
	}
	var net0 *simnet.Net
	res := simrt.Run(t, simrt.Config{MaxSteps: maxSteps, IdleLimit: 24 * time.Hour, TraceCap: 100000}, tape.S, func() {
		n := simnet.New(tape.S, simnet.Config{Mode: p.mode, Latencies: p.lat})
		net0 = n
		if p.transport != trTCP {
			udp(n, false)
		}
		mk := func(seed int, ip string, blank bool) (*simhost.Node, host.Host, network.ResourceManager, *simhost.RefusingRcmgr) {
			var real network.ResourceManager = &network.NullResourceManager{}
			if !p.nullRcmgr {
				var err error
				real, err = rcmgr.NewResourceManager(rcmgr.NewFixedLimiter(rcmgr.InfiniteLimits), rcmgr.WithMetricsDisabled())
				if err != nil {
					o.Trouble = "rcmgr: " + err.Error()
					return nil, nil, nil, nil
				}
			}
			rw := simhost.NewRefusingRcmgr(real, "", 0)
			var ho *basichost.HostOpts
			if seed == 2 && p.negB != 0 {
				ho = &basichost.HostOpts{NegotiationTimeout: p.negB}
			}
			nd, err := simhost.New(n, simhost.Opts{Key: simhost.DetKey(seed), IP: ip, Port: 4001, Security: p.secu, Rcmgr: rw, WithHost: !blank, HostOpts: ho,
				QUIC: p.transport != trTCP, NoTCPListen: p.transport != trTCP, WebTransport: p.transport == trWT, NoQUICListen: p.transport == trWT})
			if err != nil {
				o.Trouble = "node: " + err.Error()
				real.Close()
				return nil, nil, nil, nil
			}
			var h host.Host = nd.Host
			if blank {
				bh := blankhost.NewBlankHost(nd.Swarm, blankhost.WithEventBus(nd.Bus))
				if bh == nil {
					o.Trouble = "blank host: nil"
					nd.Close()
					real.Close()
					return nil, nil, nil, nil
				}
				h = bh
			}
			return nd, h, real, rw
		}
		w.a, w.hA, w.rmA, w.rwA = mk(1, "10.0.0.1", p.blankA)
		if w.a == nil {
			return
		}
		w.b, w.hB, w.rmB, w.rwB = mk(2, "10.0.0.2", p.blankB)
		if w.b == nil {
			w.a.Close()
			w.rmA.Close()
			return
		}
		if p.gc {
			var rwH *simhost.RefusingRcmgr
			w.h, w.hH, w.rmH, rwH = mk(3, "10.0.0.3", false)
			_ = rwH
			if w.h == nil {
				w.a.Close()
				w.b.Close()
				w.rmA.Close()
				w.rmB.Close()
				return
			}
			if p.nullRcmgr {
				w.rmH = nil
			}
		}
		defer func() {
			w.a.Close()
			w.b.Close()
			if w.h != nil {
				w.h.Close()
			}
			simrt.WaitIdle()
			w.rmA.Close()
			w.rmB.Close()
			if w.rmH != nil {
				w.rmH.Close()
			}
		}()
		target := func(nd *simhost.Node) ma.Multiaddr {
			switch p.transport {
			case trQUIC:
				return nd.QAddr
			case trWT:
				return nd.WTAddr()
			}
			return nd.Addr
		}
		if target(w.a) == nil || target(w.b) == nil {
			o.Trouble = "no listen address for transport " + trNames[p.transport]
			return
		}
		infoA := peer.AddrInfo{ID: w.a.ID, Addrs: []ma.Multiaddr{target(w.a)}}
		infoB := peer.AddrInfo{ID: w.b.ID, Addrs: []ma.Multiaddr{target(w.b)}}
		w.a.PS.AddAddrs(w.b.ID, infoB.Addrs, peerstore.PermanentAddrTTL)
		w.b.PS.AddAddrs(w.a.ID, infoA.Addrs, peerstore.PermanentAddrTTL)

		o.Logf("initial handler set:")
		for _, m := range p.initial {
			w.apply(m)
		}
		settle(time.Second)

		// connect (identify runs on basic hosts) - unless the run is cold
		if p.cold {
			o.Logf("cold: no Connect; the first opens dial")
			o.Probe("cold-first-contact")
		} else {
			var wg simsync.WaitGroup
			var errA, errB error
			wg.Add(1)
			simrt.GoNamed("connectA", func() {
				defer wg.Done()
				ctx, cancel := context.WithTimeout(context.Background(), 30*time.Second)
				defer cancel()
				errA = w.hA.Connect(ctx, infoB)
			})
			if p.simul {
				wg.Add(1)
				simrt.GoNamed("connectB", func() {
					defer wg.Done()
					ctx, cancel := context.WithTimeout(context.Background(), 30*time.Second)
					defer cancel()
					errB = w.hB.Connect(ctx, infoA)
				})
			}
			wg.Wait()
			if errA != nil || errB != nil {
				o.Trouble = fmt.Sprintf("connect failed: %v / %v", errA, errB)
				return
			}
		}
		settle(2 * time.Second)
		for _, c := range w.a.Swarm.ConnsToPeer(w.b.ID) {
			w.connIndex(c)
		}
		o.Logf("connected: %d connection(s)", len(w.conns))
		if len(w.conns) >= 2 {
			o.Probe("two-connections")
		}

		for r, rp := range p.rounds {
			w.round = r
			o.Logf("round %d:", r)
			for _, m := range rp.pre {
				w.apply(m)
			}
			if rp.propagate {
				settle(2 * time.Second)
				o.Logf("  settled (identify push, if any, delivered)")
			}
			switch rp.know {
			case 1:
				w.a.PS.SetProtocols(w.b.ID)
				o.Logf("  dialer forgets the listener's protocols")
			case 2:
				w.a.PS.AddProtocols(w.b.ID, rp.knowID)
				o.Logf("  dialer's peerstore is told the listener speaks %s", rp.knowID)
			}
			if rp.connOp == 1 {
				w.a.Swarm.ClosePeer(w.b.ID)
				o.Logf("  dialer closed its connections (wait=%v)", rp.connWait)
				if rp.connWait {
					settle(time.Second)
				}
				o.Probe("reconnect")
			}
			if p.fault && p.faultRound == r {
				rw := w.rwA
				if p.faultOnB {
					rw = w.rwB
				}
				rw.Arm("SetProtocol", p.faultN)
				w.firedAt = r
			}
			lossy := r < p.udpLossRounds
			if lossy {
				udp(n, true)
				o.Logf("  datagram loss %d permille from now on", p.udpDrop)
			}
			rel := make(chan struct{})
			w.release = rel
			var wg, reached simsync.WaitGroup
			for i, opl := range rp.opens {
				op := &openRec{idx: len(w.opens), round: r, plan: opl, faultArmed: w.firedAt >= 0, lossy: lossy}
				op.nonce = fmt.Sprintf("N%03d-%07d", op.idx, (op.idx*7919+13)%10000000)
				w.opens = append(w.opens, op)
				wg.Add(1)
				reached.Add(1)
				simrt.GoNamed(fmt.Sprintf("open%d.%d", r, i), func() {
					defer wg.Done()
					w.open(op, rel, reached.Done)
				})
			}
			mutDone := make(chan struct{})
			if len(rp.conc) > 0 {
				simrt.GoNamed(fmt.Sprintf("mutator%d", r), func() {
					defer close(mutDone)
					for i := 0; i < rp.concYield; i++ {
						simrt.Yield("c07.mutator.start")
					}
					for _, m := range rp.conc {
						w.apply(m)
					}
				})
			} else {
				close(mutDone)
			}
			// every open has either failed or finished its first round trip and holds its stream
			reached.Wait()
			simrt.Recv("c07.mutator.done", (<-chan struct{})(mutDone))
			simrt.WaitIdle()
			w.auditHeld(r)
			close(rel)
			wg.Wait()
			if rp.noSettle && !lossy {
				o.Logf("  next round starts without waiting for the teardown")
				o.Probe("round-boundary-without-quiescence")
				continue
			}
			if lossy {
				// faults stop; a minute without loss lets every retransmission timer fire (and a connection
				// whose CONNECTION_CLOSE was lost run into its 30 s idle timeout) before anything is judged
				udp(n, false)
				settle(60 * time.Second)
			} else {
				settle(2 * time.Second)
			}
			w.auditClosed(r)
		}
		if p.gc {
			if !w.returningPeer(infoB) {
				return
			}
		}
		finished = true
	})
	o.Sched = res
	o.Virtual = res.Virtual
	if res.Panic != "" {
		o.Violate("C07/panic", "%s", firstLines(res.Panic, 14))
		return o
	}
	if o.Trouble != "" {
		return o
	}
	if res.Stuck || res.StepLimit || !finished {
		o.Trouble = fmt.Sprintf("run did not finish: stuck=%v steplimit=%v", res.Stuck, res.StepLimit)
		return o
	}
	if net0 != nil && p.transport != trTCP {
		c := net0.UDPCounts()
		keys := make([]string, 0, len(c))
		for k := range c {
			keys = append(keys, k)
		}
		sort.Strings(keys)
		for _, k := range keys {
			if c[k] > 0 && k != "udp-sent" && k != "udp-delivered" {
				o.Fault(k)
			}
		}
	}
	if w.rwA.Fired+w.rwB.Fired > 0 {
		o.Fault("rcmgr-SetProtocol-refused")
	}
	check(w)
	return o
}

func firstLines(s string, n int) string {
	l := strings.Split(s, "\n")
	if len(l) > n {
		l = l[:n]
	}
	return strings.Join(l, " | ")
}

var _ = sort.Strings
