// Package common is the worker side of every harness: it sweeps run indices, executes one
// simulated run per index from a tape, re-plays and minimises violations, and writes
// machine-readable results for the orchestrator (/verif/check).
package common

import (
	"encoding/json"
	"fmt"
	"hash/fnv"
	"os"
	"path/filepath"
	"sort"
	"strconv"
	"strings"
	"testing"
	"time"

	"verifsim/simrt"
)

// Violation is a failed oracle. Class identifies property + oracle + discriminator and is
// what minimisation preserves and what known_findings.json is keyed by.
type Violation struct {
	Class  string `json:"class"`
	Detail string `json:"detail"`
}

// Outcome is what one simulated run reports.
type Outcome struct {
	Violations []Violation       // all failed oracle instances of the run (first one is reported)
	Faults     map[string]int    // fault kind -> times it actually fired
	Probes     map[string]int    // "rare condition reached" counters
	Sig        string            // signature of the observable history (distinctness)
	Nontrivial bool              // by the harness's stated rule
	Trace      []string          // decoded operation / fault trace (human readable)
	Sched      simrt.Result      // scheduler summary (zero for harnesses without scheduler)
	Virtual    time.Duration     // simulated time covered
	Trouble    string            // harness trouble (not a violation): reported, exit 2
	Extra      map[string]string // free-form
}

func (o *Outcome) Violate(class, format string, a ...any) {
	o.Violations = append(o.Violations, Violation{Class: class, Detail: fmt.Sprintf(format, a...)})
}
func (o *Outcome) Fault(kind string) {
	if o.Faults == nil {
		o.Faults = map[string]int{}
	}
	o.Faults[kind]++
}
func (o *Outcome) Probe(name string) {
	if o.Probes == nil {
		o.Probes = map[string]int{}
	}
	o.Probes[name]++
}
func (o *Outcome) Logf(format string, a ...any) {
	if len(o.Trace) < 400 {
		o.Trace = append(o.Trace, fmt.Sprintf(format, a...))
	}
}

// RunFunc executes one run. It must be a pure function of the tape and the code.
type RunFunc func(t *testing.T, tape *simrt.Tape) *Outcome

// Harness describes one property's harness.
type Harness struct {
	Property   string
	Run        RunFunc
	Rule       string   // evidence: how cases are generated and what makes one non-trivial / distinct
	Real       []string // components running real code
	Stubs      []string // components that are stubs
	Assume     []string
	KnownClass func(class string) bool // unused by workers; known findings are decided by the orchestrator
	// Craft, if set, returns a prefix of the G stream for run index `run` in the thorough tier: harnesses with a
	// finite fault-position space sweep it systematically (position = run mod size) while everything after the
	// prefix, and the whole schedule stream, still comes from the PRNG. The consumed tape is recorded as usual, so
	// replay and minimisation do not know about crafting.
	Craft func(run uint64) []uint32
}

type replayFile struct {
	Property string   `json:"property"`
	Seed     uint64   `json:"seed"`
	Run      uint64   `json:"run"`
	Tier     string   `json:"tier"`
	Class    string   `json:"class"`
	Detail   string   `json:"detail"`
	G        []uint32 `json:"tape_g"`
	S        []uint32 `json:"tape_s"`
	Trace    []string `json:"trace"`
	Schedule []string `json:"schedule,omitempty"`
	// Prelude: when a violation depends on state that survives from earlier runs of the same process (a
	// package-level cache, a global counter), the tape alone does not reproduce it. The replay then first
	// re-executes the runs this worker had executed before (from their seeds), then the tape.
	PreludeRuns []uint64 `json:"prelude_runs,omitempty"`
	Minimised   bool     `json:"minimised"`
	Candidates  int      `json:"minimiser_candidates"`
}

type workerSummary struct {
	Property    string            `json:"property"`
	Worker      int               `json:"worker"`
	Seed        uint64            `json:"seed"`
	Runs        int               `json:"runs"`
	Nontrivial  int               `json:"nontrivial"`
	Sigs        []uint64          `json:"sigs"` // distinct (schedule hash, history signature) of non-trivial runs
	Faults      map[string]int    `json:"faults"`
	Probes      map[string]int    `json:"probes"`
	Steps       int64             `json:"sched_steps"`
	VirtualS    float64           `json:"virtual_s"`
	WallS       float64           `json:"wall_s"`
	Violations  []violationRecord `json:"violations"`
	Trouble     []string          `json:"trouble"`
	Samples     []sample          `json:"samples"`
	AutoTasks   int               `json:"auto_tasks"`
	PCTRuns     int               `json:"pct_runs"`
	Untouched   int               `json:"untouched_keys"`
	SelfTestBad []string          `json:"selftest_bad"`
	RunLog      []string          `json:"run_log,omitempty"`
}

type violationRecord struct {
	Class  string `json:"class"`
	Detail string `json:"detail"`
	Replay string `json:"replay"`
	Run    uint64 `json:"run"`
}

type sample struct {
	Run   uint64   `json:"run"`
	Trace []string `json:"trace"`
	Sched []string `json:"schedule,omitempty"`
}

func envInt(name string, def int64) int64 {
	if v := os.Getenv(name); v != "" {
		if n, err := strconv.ParseInt(v, 10, 64); err == nil {
			return n
		}
	}
	return def
}

func hash64(parts ...string) uint64 {
	h := fnv.New64a()
	for _, p := range parts {
		h.Write([]byte(p))
		h.Write([]byte{0})
	}
	return h.Sum64()
}

func firstClass(o *Outcome) string {
	if len(o.Violations) == 0 {
		return ""
	}
	return o.Violations[0].Class
}

func hasClass(o *Outcome, class string) bool {
	for _, v := range o.Violations {
		if v.Class == class {
			return true
		}
	}
	return false
}

// Main is called from the harness's single Test function.
func Main(t *testing.T, h Harness) {
	// A panic raised INSIDE a third-party dependency that go-libp2p merely uses (quic-go, webtransport-go) crashes the process
	// in real life, but it is not a statement of any property of go-libp2p and cannot be repaired there: such a run is
	// counted ("observed-panic-in-dependency/<function>"), its trace is kept once under /verif/observations, and nothing
	// else is concluded from it — neither a violation nor trouble (what the harness sees after the scheduler stopped
	// mid-run is meaningless). Panics raised in go-libp2p, in the harness or in the simulator are untouched.
	inner := h.Run
	h.Run = func(t *testing.T, tape *simrt.Tape) *Outcome {
		o := inner(t, tape)
		if f := o.Sched.PanicFunc; strings.HasPrefix(f, "github.com/quic-go/") {
			name := strings.TrimPrefix(f, "github.com/quic-go/")
			o.Violations, o.Trouble = nil, ""
			o.Probe("observed-panic-in-dependency/" + name)
			noteObservation(h.Property, name, tape, o)
		}
		return o
	}
	if rp := os.Getenv("VERIF_REPLAY"); rp != "" {
		replay(t, h, rp)
		return
	}
	out := os.Getenv("VERIF_OUT")
	if out == "" {
		// plain `go test`: a tiny smoke sweep so that the package's test is meaningful on its own
		os.Setenv("VERIF_MAXRUNS", "50")
	}
	seed := uint64(envInt("VERIF_SEED", 1))
	worker := int(envInt("VERIF_WORKER", 0))
	stride := int(envInt("VERIF_STRIDE", 1))
	maxRuns := envInt("VERIF_MAXRUNS", 1<<40)
	budget := time.Duration(envInt("VERIF_BUDGET_S", 20)) * time.Second
	selftest := os.Getenv("VERIF_SELFTEST") != ""
	emitRuns := os.Getenv("VERIF_EMIT_RUNS") != ""
	maxViol := int(envInt("VERIF_MAXVIOL", 3))
	replayDir := os.Getenv("VERIF_REPLAY_DIR")
	if replayDir == "" {
		replayDir = "/verif/replays"
	}
	tier := os.Getenv("VERIF_TIER")

	sum := workerSummary{Property: h.Property, Worker: worker, Seed: seed, Faults: map[string]int{}, Probes: map[string]int{}}
	sigs := map[uint64]bool{}
	classesSeen := map[string]bool{}
	var doneRuns []uint64
	start := time.Now()
	for k := int64(0); k < maxRuns; k++ {
		if time.Since(start) > budget {
			break
		}
		run := uint64(worker) + uint64(k)*uint64(stride)
		tape := simrt.NewTape(seed, h.Property, run)
		if h.Craft != nil && tier == "thorough" {
			tape.G.Vals = append([]uint32(nil), h.Craft(run)...)
		}
		o := h.Run(t, tape)
		sum.Runs++
		sum.Steps += int64(o.Sched.Steps)
		sum.VirtualS += o.Virtual.Seconds()
		sum.AutoTasks += o.Sched.AutoTasks
		if o.Sched.PCT {
			sum.PCTRuns++
		}
		sum.Untouched += simrt.UntouchedKeys
		for k, v := range o.Faults {
			sum.Faults[k] += v
		}
		// faults the scheduler itself injects: the whole system stalls for a drawn stretch of virtual time (a slow or
		// stopped process), or one task is held back at a drawn program point for up to thousands of decisions
		if o.Sched.Stalls > 0 {
			sum.Faults["scheduler-stall"] += o.Sched.Stalls
		}
		if o.Sched.Paused != "" {
			sum.Faults["task-suspended-at-program-point"]++
		}
		for k, v := range o.Probes {
			sum.Probes[k] += v
		}
		sg := hash64(o.Sig, strconv.FormatUint(o.Sched.Hash, 16))
		if o.Nontrivial {
			sum.Nontrivial++
			sigs[sg] = true
		}
		if emitRuns {
			sum.RunLog = append(sum.RunLog, fmt.Sprintf("%d %016x %s", run, sg, firstClass(o)))
		}
		if len(sum.Samples) < 2 && o.Nontrivial {
			sum.Samples = append(sum.Samples, sample{Run: run, Trace: capList(o.Trace, 60), Sched: capList(o.Sched.Trace, 40)})
		}
		if o.Trouble != "" {
			sum.Trouble = append(sum.Trouble, fmt.Sprintf("run %d: %s", run, o.Trouble))
			if len(sum.Trouble) > 5 {
				break
			}
			continue
		}
		if os.Getenv("VERIF_DIVERGE") != "" {
			tp2 := simrt.NewTape(seed, h.Property, run)
			if h.Craft != nil && tier == "thorough" {
				tp2.G.Vals = append([]uint32(nil), h.Craft(run)...)
			}
			o2 := h.Run(t, tp2)
			a, b := o.Sched.Trace, o2.Sched.Trace
			n := len(a)
			if len(b) < n {
				n = len(b)
			}
			k := 0
			for k < n && a[k] == b[k] {
				k++
			}
			if k < n || len(a) != len(b) {
				lo := k - 12
				if lo < 0 {
					lo = 0
				}
				fmt.Printf("DIVERGE run %d at decision %d (lens %d/%d)\n  common: %v\n  A: %v\n  B: %v\n", run, k, len(a), len(b), a[lo:k], a[k:min(k+8, len(a))], b[k:min(k+8, len(b))])
			}
		}
		if selftest {
			tp2 := simrt.NewTape(seed, h.Property, run)
			if h.Craft != nil && tier == "thorough" {
				tp2.G.Vals = append([]uint32(nil), h.Craft(run)...)
			}
			o2 := h.Run(t, tp2)
			sg2 := hash64(o2.Sig, strconv.FormatUint(o2.Sched.Hash, 16))
			if sg2 != sg || firstClass(o2) != firstClass(o) {
				sum.SelfTestBad = append(sum.SelfTestBad, fmt.Sprintf("run %d: %016x/%s vs %016x/%s", run, sg, firstClass(o), sg2, firstClass(o2)))
			}
		}
		if len(o.Violations) > 0 {
			// report each class once per worker
			for _, v := range o.Violations {
				if classesSeen[v.Class] {
					continue
				}
				classesSeen[v.Class] = true
				rec := handleViolation(t, h, seed, run, tier, tape, o, v, replayDir)
				if rec == nil {
					// not reproducible from the tape alone: keep it as a replay with prelude; the orchestrator
					// confirms it in a fresh process (prelude runs + tape) before reporting anything
					rec = preludeViolation(h, seed, run, tier, tape, o, v, replayDir, doneRuns)
				}
				if rec != nil {
					sum.Violations = append(sum.Violations, *rec)
				} else {
					sum.Trouble = append(sum.Trouble, fmt.Sprintf("run %d: violation %s did not replay", run, v.Class))
				}
			}
			if len(sum.Violations) >= maxViol {
				break
			}
		}
		doneRuns = append(doneRuns, run)
	}
	sum.WallS = time.Since(start).Seconds()
	for s := range sigs {
		sum.Sigs = append(sum.Sigs, s)
	}
	sort.Slice(sum.Sigs, func(i, j int) bool { return sum.Sigs[i] < sum.Sigs[j] })
	if out != "" {
		b, _ := json.Marshal(sum)
		if err := os.WriteFile(out, b, 0o644); err != nil {
			t.Fatalf("write %s: %v", out, err)
		}
	} else {
		t.Logf("%s: runs=%d nontrivial=%d distinct=%d violations=%d trouble=%v faults=%v probes=%v", h.Property, sum.Runs, sum.Nontrivial, len(sigs), len(sum.Violations), sum.Trouble, sum.Faults, sum.Probes)
		for _, v := range sum.Violations {
			t.Errorf("VIOLATION %s: %s (replay %s)", v.Class, v.Detail, v.Replay)
		}
	}
}

func capList(l []string, n int) []string {
	if len(l) > n {
		return append(append([]string(nil), l[:n]...), fmt.Sprintf("... (%d more)", len(l)-n))
	}
	return l
}

func handleViolation(t *testing.T, h Harness, seed, run uint64, tier string, tape *simrt.Tape, o *Outcome, v Violation, dir string) *violationRecord {
	g, s := tape.G.Consumed(), tape.S.Consumed()
	// self-replay from the consumed tape alone
	o2 := h.Run(t, simrt.ReplayTape(g, s))
	if !hasClass(o2, v.Class) {
		return nil
	}
	ming, mins, best, cands := minimise(t, h, v.Class, g, s, o2)
	var vv Violation
	for _, x := range best.Violations {
		if x.Class == v.Class {
			vv = x
			break
		}
	}
	rf := replayFile{Property: h.Property, Seed: seed, Run: run, Tier: tier, Class: vv.Class, Detail: vv.Detail,
		G: ming, S: mins, Trace: best.Trace, Schedule: capList(best.Sched.Trace, 400), Minimised: true, Candidates: cands}
	os.MkdirAll(dir, 0o755)
	name := fmt.Sprintf("%s-%d-%d-%s.json", h.Property, seed, run, sanitize(v.Class))
	path := filepath.Join(dir, name)
	b, _ := json.MarshalIndent(rf, "", " ")
	if err := os.WriteFile(path, b, 0o644); err != nil {
		t.Logf("write replay: %v", err)
		return nil
	}
	return &violationRecord{Class: vv.Class, Detail: vv.Detail, Replay: path, Run: run}
}

func preludeViolation(h Harness, seed, run uint64, tier string, tape *simrt.Tape, o *Outcome, v Violation, dir string, done []uint64) *violationRecord {
	if len(done) == 0 || len(done) > 20000 {
		return nil
	}
	rf := replayFile{Property: h.Property, Seed: seed, Run: run, Tier: tier, Class: v.Class, Detail: v.Detail,
		G: tape.G.Consumed(), S: tape.S.Consumed(), Trace: o.Trace, Schedule: capList(o.Sched.Trace, 400),
		PreludeRuns: append([]uint64(nil), done...)}
	os.MkdirAll(dir, 0o755)
	path := filepath.Join(dir, fmt.Sprintf("%s-%d-%d-%s-prelude.json", h.Property, seed, run, sanitize(v.Class)))
	b, _ := json.MarshalIndent(rf, "", " ")
	if err := os.WriteFile(path, b, 0o644); err != nil {
		return nil
	}
	return &violationRecord{Class: v.Class, Detail: v.Detail + " [depends on state left by earlier runs of the process: replay re-executes them first]", Replay: path, Run: run}
}

func sanitize(s string) string {
	s = strings.Map(func(r rune) rune {
		if r >= 'a' && r <= 'z' || r >= 'A' && r <= 'Z' || r >= '0' && r <= '9' || r == '-' || r == '_' {
			return r
		}
		return '_'
	}, s)
	if len(s) > 60 {
		s = s[:60]
	}
	return s
}

// minimise shrinks both streams while the same violation class recurs: truncate, delete
// chunks (ddmin style), zero values, lower values. 0 is always the simplest choice.
func minimise(t *testing.T, h Harness, class string, g, s []uint32, cur *Outcome) ([]uint32, []uint32, *Outcome, int) {
	budget := int(envInt("VERIF_MIN_CANDIDATES", 1500))
	deadline := time.Now().Add(time.Duration(envInt("VERIF_MIN_SECONDS", 45)) * time.Second)
	cands := 0
	try := func(ng, ns []uint32) bool {
		if cands >= budget || time.Now().After(deadline) {
			return false
		}
		cands++
		tp := simrt.ReplayTape(ng, ns)
		o := h.Run(t, tp)
		if o.Trouble == "" && hasClass(o, class) {
			// keep only what was consumed
			g, s, cur = tp.G.Consumed(), tp.S.Consumed(), o
			if len(g) > len(ng) {
				g = g[:len(ng)]
			}
			if len(s) > len(ns) {
				s = s[:len(ns)]
			}
			return true
		}
		return false
	}
	trimZeros := func(v []uint32) []uint32 {
		for len(v) > 0 && v[len(v)-1] == 0 {
			v = v[:len(v)-1]
		}
		return v
	}
	exhausted := func() bool { return cands >= budget || time.Now().After(deadline) }
	shrinkStream := func(which int) {
		get := func() []uint32 {
			if which == 0 {
				return g
			}
			return s
		}
		mk := func(nv []uint32) ([]uint32, []uint32) {
			if which == 0 {
				return nv, s
			}
			return g, nv
		}
		// 1. truncate (replay streams read 0 beyond the end)
		for n := len(get()) / 2; n >= 1 && !exhausted(); n /= 2 {
			for len(get()) >= n && !exhausted() {
				v := get()
				if !try(mk(append([]uint32(nil), v[:len(v)-n]...))) {
					break
				}
			}
		}
		// 2. delete chunks
		for n := len(get()) / 2; n >= 1 && !exhausted(); n /= 2 {
			for i := 0; i+n <= len(get()) && !exhausted(); {
				v := get()
				nv := append(append([]uint32(nil), v[:i]...), v[i+n:]...)
				if !try(mk(nv)) {
					i += n
				}
			}
		}
		// 3. zero chunks, then lower single values
		for n := len(get()) / 2; n >= 1 && !exhausted(); n /= 2 {
			for i := 0; i+n <= len(get()) && !exhausted(); i += n {
				v := get()
				allZero := true
				for j := i; j < i+n; j++ {
					if v[j] != 0 {
						allZero = false
						break
					}
				}
				if allZero {
					continue
				}
				nv := append([]uint32(nil), v...)
				for j := i; j < i+n; j++ {
					nv[j] = 0
				}
				try(mk(nv))
			}
		}
		for i := 0; i < len(get()) && !exhausted(); i++ {
			v := get()
			if i >= len(v) || v[i] == 0 {
				continue
			}
			for _, c := range []uint32{v[i] % 2, v[i] % 3, v[i] % 4, v[i] % 8, v[i] % 16, v[i] % 64, v[i] % 256} {
				if c >= v[i] || exhausted() {
					continue
				}
				nv := append([]uint32(nil), get()...)
				nv[i] = c
				if try(mk(nv)) {
					break
				}
			}
		}
	}
	for round := 0; round < 2 && !exhausted(); round++ {
		before := len(g) + len(s)
		shrinkStream(0)
		shrinkStream(1)
		g, s = trimZeros(g), trimZeros(s)
		if len(g)+len(s) >= before {
			break
		}
	}
	// final confirmation on the exact stored tapes
	fin := h.Run(t, simrt.ReplayTape(g, s))
	if hasClass(fin, class) {
		cur = fin
	}
	return g, s, cur, cands
}

func replay(t *testing.T, h Harness, path string) {
	b, err := os.ReadFile(path)
	if err != nil {
		fmt.Printf("REPLAY-ERROR %v\n", err)
		os.Exit(2)
	}
	var rf replayFile
	if err := json.Unmarshal(b, &rf); err != nil {
		fmt.Printf("REPLAY-ERROR %v\n", err)
		os.Exit(2)
	}
	for _, r := range rf.PreludeRuns {
		tp := simrt.NewTape(rf.Seed, h.Property, r)
		if h.Craft != nil && rf.Tier == "thorough" {
			tp.G.Vals = append([]uint32(nil), h.Craft(r)...)
		}
		h.Run(t, tp)
	}
	if len(rf.PreludeRuns) > 0 {
		fmt.Printf("   (re-executed %d earlier runs of the worker first)\n", len(rf.PreludeRuns))
	}
	o := h.Run(t, simrt.ReplayTape(rf.G, rf.S))
	for _, l := range o.Trace {
		fmt.Println("  ", l)
	}
	for k := range o.Probes {
		if strings.HasPrefix(k, "observed-panic-in-dependency/") {
			fmt.Printf("REPLAY-OBSERVATION %s (a panic inside a dependency: counted, not a violation)\n%s\n", k, firstLines(o.Sched.Panic, 30))
			return
		}
	}
	if hasClass(o, rf.Class) {
		for _, v := range o.Violations {
			if v.Class == rf.Class {
				fmt.Printf("REPLAY-VIOLATION class=%s detail=%s\n", v.Class, v.Detail)
			}
		}
		return
	}
	if len(o.Violations) > 0 {
		fmt.Printf("REPLAY-OTHER class=%s detail=%s\n", o.Violations[0].Class, o.Violations[0].Detail)
		return
	}
	fmt.Printf("REPLAY-CLEAN expected=%s\n", rf.Class)
}

var observed = map[string]bool{}

// noteObservation keeps the first tape of each kind of dependency panic per process (replayable with VERIF_REPLAY).
func noteObservation(prop, name string, tape *simrt.Tape, o *Outcome) {
	if observed[name] || os.Getenv("VERIF_REPLAY") != "" {
		return
	}
	observed[name] = true
	dir := os.Getenv("VERIF_OBS_DIR")
	if dir == "" {
		dir = "/verif/observations"
	}
	os.MkdirAll(dir, 0o755)
	clean := strings.Map(func(r rune) rune {
		if r >= 'a' && r <= 'z' || r >= 'A' && r <= 'Z' || r >= '0' && r <= '9' || r == '-' || r == '.' {
			return r
		}
		return '_'
	}, name)
	p := filepath.Join(dir, prop+"-"+clean+".json")
	if _, err := os.Stat(p); err == nil {
		return
	}
	rf := replayFile{Property: prop, Class: prop + "/observed-panic-in-dependency/" + name, Detail: firstLines(o.Sched.Panic, 40),
		G: tape.G.Consumed(), S: tape.S.Consumed(), Trace: o.Trace}
	if b, err := json.MarshalIndent(rf, "", " "); err == nil {
		os.WriteFile(p, b, 0o644)
	}
	fmt.Printf("OBSERVATION property=%s panic inside a dependency (%s), not a property of go-libp2p: %s\n", prop, name, p)
}

func firstLines(s string, n int) string {
	l := strings.Split(s, "\n")
	if len(l) > n {
		l = l[:n]
	}
	return strings.Join(l, "\n")
}
