// Package simhook holds the seams that only exist in the build overlay (no edit of /repo): overlay-only files added to
// go-libp2p packages consult these variables; when a variable is nil the original behaviour is kept.
package simhook

import (
	ma "github.com/multiformats/go-multiaddr"
	manet "github.com/multiformats/go-multiaddr/net"
)

// ListenTCP replaces manet.Listen inside p2p/transport/tcpreuse (ConnMgr.gatedMaListen), so that the shared-TCP path
// (tcpreuse demultiplexing listener, sampledconn, TcpTransport.Listen) runs on the simulated network.
var ListenTCP func(laddr ma.Multiaddr) (manet.Listener, error)

// TCPReuseSeam is set by the overlay-only file in p2p/transport/tcpreuse: without it ListenTCP would never be consulted.
var TCPReuseSeam bool
